"""C19 (tie G): extract, by AST,

1. the argument-type expression handed to every `subgraph(<types>, <callback>)` call and the
   `out_variadic=<expr>` of every control-flow constructor (`if_`, `loop`, `scan`, `sequence_map`, or
   whatever function calls `subgraph`) defined in `src/spox/opset/ai/onnx/v*.py`, and the same
   expressions from the source strings in `tools/generate_opset.py`, into the IR of
   `Model/Subgraph.lean`  ->  `Generated/SubgraphSpecs.lean`;
2. every place in `src/spox` from which a stored callback could be invoked again
   (`_reconstruct(`, `._constructor(`, reads of `._constructor`, calls of a function's own parameter
   in `_graph.py`, calls of `subgraph(` outside the control-flow constructors)
   ->  `Generated/CallbackSites.lean`.

The restricted expression language is mapped construct by construct; anything else becomes
`.opaque` (which evaluates to an error in the model, so no theorem about it goes through).
"""
import ast
import re

from .common import GEN, HEADER, REPO, lean_list, lean_str, write_if_changed

ONNX_DIR = "src/spox/opset/ai/onnx"
CTORS = ["if_", "loop", "scan", "sequence_map"]
# numpy scalar type name -> ONNX TensorProto.DataType
NP_DTYPES = {
    "float32": 1, "uint8": 2, "int8": 3, "uint16": 4, "int16": 5, "int32": 6, "int64": 7,
    "str_": 8, "bool_": 9, "float16": 10, "float64": 11, "uint32": 12, "uint64": 13,
    "complex64": 14, "complex128": 15,
}


class Opaque(Exception):
    pass


def _strip_cast(n: ast.AST) -> ast.AST:
    while (
        isinstance(n, ast.Call)
        and isinstance(n.func, ast.Name)
        and n.func.id in ("typing_cast", "cast")
        and len(n.args) == 2
        and not n.keywords
    ):
        n = n.args[1]
    return n


def _int_const(n: ast.AST):
    if isinstance(n, ast.Constant) and type(n.value) is int:
        return n.value
    if isinstance(n, ast.UnaryOp) and isinstance(n.op, ast.USub):
        v = _int_const(n.operand)
        return None if v is None else -v
    return None


def conv_idx(n: ast.AST):
    c = _int_const(n)
    if c is not None:
        return ("lit", c)
    if isinstance(n, ast.Name):
        return ("param", n.id)
    if (
        isinstance(n, ast.Call) and isinstance(n.func, ast.Name) and n.func.id == "len"
        and len(n.args) == 1 and isinstance(n.args[0], ast.Name) and not n.keywords
    ):
        return ("len", n.args[0].id)
    if isinstance(n, ast.BinOp) and isinstance(n.op, (ast.Sub, ast.Add)):
        return ("sub" if isinstance(n.op, ast.Sub) else "add", conv_idx(n.left), conv_idx(n.right))
    raise Opaque(ast.unparse(n))


def conv_src(n: ast.AST):
    if isinstance(n, ast.Name):
        return (n.id, None, None)
    if (
        isinstance(n, ast.Subscript) and isinstance(n.value, ast.Name)
        and isinstance(n.slice, ast.Slice) and n.slice.step is None
    ):
        lo = None if n.slice.lower is None else conv_idx(n.slice.lower)
        hi = None if n.slice.upper is None else conv_idx(n.slice.upper)
        return (n.value.id, lo, hi)
    raise Opaque(ast.unparse(n))


def _varref(name: str, var):
    return ("loopVar",) if name == var else ("single", name)


def conv_shape(n: ast.AST, src_dump: str):
    """Second argument of Tensor(E.dtype, <n>), where E has AST dump `src_dump`."""
    if isinstance(n, ast.Attribute) and n.attr == "shape" and ast.dump(_strip_cast(n.value)) == src_dump:
        return ("same",)
    # (lambda x: x[a:b] if x is not None else None)(E.shape)
    if (
        isinstance(n, ast.Call) and isinstance(n.func, ast.Lambda) and len(n.args) == 1 and not n.keywords
        and isinstance(n.args[0], ast.Attribute) and n.args[0].attr == "shape"
        and ast.dump(_strip_cast(n.args[0].value)) == src_dump
    ):
        lam = n.func
        a = lam.args
        if len(a.args) == 1 and not (a.vararg or a.kwarg or a.kwonlyargs or a.defaults or a.posonlyargs):
            x = a.args[0].arg
            b = lam.body
            if (
                isinstance(b, ast.IfExp)
                and isinstance(b.test, ast.Compare) and isinstance(b.test.left, ast.Name)
                and b.test.left.id == x and len(b.test.ops) == 1 and isinstance(b.test.ops[0], ast.IsNot)
                and isinstance(b.test.comparators[0], ast.Constant) and b.test.comparators[0].value is None
                and isinstance(b.orelse, ast.Constant) and b.orelse.value is None
                and isinstance(b.body, ast.Subscript) and isinstance(b.body.value, ast.Name)
                and b.body.value.id == x and isinstance(b.body.slice, ast.Slice)
                and b.body.slice.step is None
            ):
                lo = None if b.body.slice.lower is None else _int_const(b.body.slice.lower)
                hi = None if b.body.slice.upper is None else _int_const(b.body.slice.upper)
                if (b.body.slice.lower is None or lo is not None) and (
                    b.body.slice.upper is None or hi is not None
                ):
                    return ("sliceIfKnown", lo, hi)
    raise Opaque(ast.unparse(n))


def conv_ty(n: ast.AST, var):
    n = _strip_cast(n)
    # v.unwrap_type() / v.unwrap_tensor()
    if (
        isinstance(n, ast.Call) and isinstance(n.func, ast.Attribute) and isinstance(n.func.value, ast.Name)
        and n.func.attr in ("unwrap_type", "unwrap_tensor") and not n.args and not n.keywords
    ):
        kind = "unwrapType" if n.func.attr == "unwrap_type" else "unwrapTensor"
        return (kind, _varref(n.func.value.id, var))
    if isinstance(n, ast.Attribute) and n.attr == "elem_type":
        return ("elemType", conv_ty(n.value, var))
    if isinstance(n, ast.Call) and isinstance(n.func, ast.Name) and n.func.id == "Tensor" and not n.keywords:
        args = n.args
        if args and isinstance(args[0], ast.Attribute) and args[0].attr == "dtype":
            e = _strip_cast(args[0].value)
            if isinstance(e, ast.Attribute) and isinstance(e.value, ast.Name) and e.value.id in ("np", "numpy"):
                raise Opaque(ast.unparse(n))
            src = conv_ty(e, var)
            if len(args) == 1:
                return ("tensorOf", src, ("unknown",))
            if len(args) == 2:
                return ("tensorOf", src, conv_shape(args[1], ast.dump(e)))
        if (
            len(args) == 2 and isinstance(args[0], ast.Attribute) and isinstance(args[0].value, ast.Name)
            and args[0].value.id in ("np", "numpy") and args[0].attr in NP_DTYPES
            and isinstance(args[1], ast.Tuple) and all(_int_const(d) is not None for d in args[1].elts)
        ):
            return ("const", NP_DTYPES[args[0].attr], [_int_const(d) for d in args[1].elts])
        raise Opaque(ast.unparse(n))
    if (
        isinstance(n, ast.IfExp) and isinstance(n.test, ast.Call) and isinstance(n.test.func, ast.Name)
        and n.test.func.id == "isinstance" and len(n.test.args) == 2
        and isinstance(n.test.args[1], ast.Name) and n.test.args[1].id in ("SpoxSequence", "Sequence")
    ):
        return ("ifSeq", conv_ty(n.test.args[0], var), conv_ty(n.body, var), conv_ty(n.orelse, var))
    raise Opaque(ast.unparse(n))


def _ty_or_opaque(n, var):
    try:
        return conv_ty(n, var)
    except Exception:  # noqa: BLE001
        return ("opaque",)


def conv_list(n: ast.AST):
    try:
        n = _strip_cast(n)
        if isinstance(n, (ast.Tuple, ast.List)) and not n.elts:
            return ("empty",)
        if isinstance(n, (ast.Tuple, ast.List)):
            return ("lit", [_ty_or_opaque(e, None) for e in n.elts])
        if isinstance(n, ast.ListComp) and len(n.generators) == 1:
            g = n.generators[0]
            if isinstance(g.target, ast.Name) and not g.ifs and not g.is_async:
                return ("comp", _ty_or_opaque(n.elt, g.target.id), conv_src(g.iter))
        if isinstance(n, ast.BinOp) and isinstance(n.op, ast.Add):
            return ("append", conv_list(n.left), conv_list(n.right))
    except Exception:  # noqa: BLE001 - Opaque, or an AST shape nobody anticipated: never raise
        pass
    return ("opaque",)


def conv_out(n: ast.AST):
    """`len(G.requested_results) [- k | + k]` -> (graph variable name, minus)."""
    try:
        return _conv_out(n)
    except Exception:  # noqa: BLE001
        return None


def _conv_out(n: ast.AST):
    minus = 0
    if isinstance(n, ast.BinOp) and isinstance(n.op, (ast.Sub, ast.Add)):
        k = _int_const(n.right)
        if k is None:
            return None
        minus = k if isinstance(n.op, ast.Sub) else -k
        n = n.left
    if (
        isinstance(n, ast.Call) and isinstance(n.func, ast.Name) and n.func.id == "len" and len(n.args) == 1
        and isinstance(n.args[0], ast.Attribute) and n.args[0].attr == "requested_results"
        and isinstance(n.args[0].value, ast.Name)
    ):
        return (n.args[0].value.id, minus)
    return None


# ------------------------------------------------------------------ rendering
def r_opt(x, f):
    return "none" if x is None else f"(some {f(x)})"


def r_int(i: int) -> str:
    return f"({i})" if i < 0 else str(i)


def r_idx(t) -> str:
    k = t[0]
    if k == "lit":
        return f"(.lit {r_int(t[1])})"
    if k in ("param", "len"):
        return f"(.{k} {lean_str(t[1])})"
    return f"(.{k} {r_idx(t[1])} {r_idx(t[2])})"


def r_src(s) -> str:
    return f"⟨{lean_str(s[0])}, {r_opt(s[1], r_idx)}, {r_opt(s[2], r_idx)}⟩"


def r_ref(v) -> str:
    return ".loopVar" if v[0] == "loopVar" else f"(.single {lean_str(v[1])})"


def r_sh(s) -> str:
    if s[0] == "sliceIfKnown":
        return f"(.sliceIfKnown {r_opt(s[1], r_int)} {r_opt(s[2], r_int)})"
    return "." + s[0]


def r_ty(t) -> str:
    k = t[0]
    if k in ("unwrapType", "unwrapTensor"):
        return f"(.{k} {r_ref(t[1])})"
    if k == "elemType":
        return f"(.elemType {r_ty(t[1])})"
    if k == "tensorOf":
        return f"(.tensorOf {r_ty(t[1])} {r_sh(t[2])})"
    if k == "const":
        dims = lean_list([f".n {d}" for d in t[2]])
        return f"(.const (.tensor {t[1]} (some {dims})))"
    if k == "ifSeq":
        return f"(.ifSeq {r_ty(t[1])} {r_ty(t[2])} {r_ty(t[3])})"
    return ".opaque"


def r_list(e) -> str:
    k = e[0]
    if k == "lit":
        return f"(.lit {lean_list([r_ty(t) for t in e[1]])})"
    if k == "comp":
        return f"(.comp {r_ty(e[1])} {r_src(e[2])})"
    if k == "append":
        return f"(.append {r_list(e[1])} {r_list(e[2])})"
    return "." + k


def r_spec(spec) -> str:
    subs = lean_list([f"({lean_str(nm)}, {r_list(e)})" for nm, e in spec["subgraphs"]])
    return f"⟨{subs}, {lean_str(spec['outGraph'])}, {r_int(spec['outMinus'])}⟩"


# ------------------------------------------------------------------ extraction
def _is_subgraph_call(n: ast.AST) -> bool:
    return (
        isinstance(n, ast.Call)
        and (
            (isinstance(n.func, ast.Name) and n.func.id == "subgraph")
            or (isinstance(n.func, ast.Attribute) and n.func.attr == "subgraph")
        )
    )


def extract_ctor(fn: ast.FunctionDef) -> dict:
    """Spec of one constructor function: the subgraph(...) calls in source order + out_variadic."""
    subs, graph_of = [], {}
    problems = []
    for node in ast.walk(fn):
        pass
    # statements in order (constructors are straight-line code)
    calls = []
    for st in fn.body:
        for node in ast.walk(st):
            if _is_subgraph_call(node):
                calls.append((st, node))
    for st, call in calls:
        target = None
        if isinstance(st, ast.AnnAssign) and isinstance(st.target, ast.Name) and st.value is call:
            target = st.target.id
        elif isinstance(st, ast.Assign) and len(st.targets) == 1 and isinstance(st.targets[0], ast.Name) and st.value is call:
            target = st.targets[0].id
        if len(call.args) == 2 and not call.keywords and isinstance(call.args[1], ast.Name):
            cb = call.args[1].id
            subs.append((cb, conv_list(call.args[0])))
            if target:
                graph_of[target] = cb
            else:
                problems.append("subgraph() result not bound to a name")
        else:
            subs.append(("?", ("opaque",)))
            problems.append("unrecognised subgraph() call: " + ast.unparse(call)[:80])
    out = None
    n_out = 0
    for node in ast.walk(fn):
        if isinstance(node, ast.keyword) and node.arg == "out_variadic":
            n_out += 1
            out = conv_out(node.value)
    out_graph, minus = "?", 0
    if n_out == 1 and out is not None and out[0] in graph_of:
        out_graph, minus = graph_of[out[0]], out[1]
    else:
        problems.append("out_variadic not of the form len(G.requested_results) - k")
    return {"subgraphs": subs, "outGraph": out_graph, "outMinus": minus, "problems": problems}


def extract_modules() -> dict:
    """{module: {function: spec}} for every function of the ai.onnx modules that calls subgraph()."""
    out = {}
    for p in sorted((REPO / ONNX_DIR).glob("v*.py"), key=lambda q: int(q.stem[1:])):
        mod = ast.parse(p.read_text())
        found = {}
        for fn in mod.body:
            if isinstance(fn, ast.FunctionDef) and any(_is_subgraph_call(n) for n in ast.walk(fn)):
                try:
                    found[fn.name] = extract_ctor(fn)
                except Exception as e:  # noqa: BLE001
                    found[fn.name] = {"subgraphs": [("?", ("opaque",))], "outGraph": "?", "outMinus": 0,
                                      "problems": [f"extraction failed: {type(e).__name__}: {e}"]}
        out[p.stem] = found
    return out


_GEN_RE = re.compile(r"^(IF|LOOP|SCAN|SEQUENCEMAP)(\d+)_(SUBGRAPH|OUT_VARIADIC)_SOLUTION$")
_GEN_CTOR = {"IF": "if_", "LOOP": "loop", "SCAN": "scan", "SEQUENCEMAP": "sequence_map"}


def extract_generator(order_hint: dict) -> dict:
    """{ctor: spec} from the source strings of tools/generate_opset.py."""
    mod = ast.parse((REPO / "tools/generate_opset.py").read_text())
    consts = {}
    for st in mod.body:
        if isinstance(st, ast.Assign) and len(st.targets) == 1 and isinstance(st.targets[0], ast.Name):
            m = _GEN_RE.match(st.targets[0].id)
            if m:
                try:
                    consts[(m.group(1), m.group(3))] = ast.literal_eval(st.value)
                except Exception:  # noqa: BLE001
                    consts[(m.group(1), m.group(3))] = None
    out = {}
    for op, ctor in _GEN_CTOR.items():
        sg, ov = consts.get((op, "SUBGRAPH")), consts.get((op, "OUT_VARIADIC"))
        problems = []
        subs = []
        if isinstance(sg, dict):
            keys = list(sg)
            hint = order_hint.get(ctor)
            if hint and sorted(hint) == sorted(keys):
                keys = hint  # the template emits attributes in the schema's order; follow the module
            for k in keys:
                try:
                    subs.append((k, conv_list(ast.parse(sg[k], mode="eval").body)))
                except SyntaxError:
                    subs.append((k, ("opaque",)))
        else:
            problems.append("no SUBGRAPH_SOLUTION constant")
        out_graph, minus = "?", 0
        if isinstance(ov, str):
            try:
                o = conv_out(ast.parse(ov, mode="eval").body)
            except SyntaxError:
                o = None
            m = re.match(r"^_(\w+)_subgraph$", o[0]) if o else None
            if m:
                out_graph, minus = m.group(1), o[1]
            else:
                problems.append("OUT_VARIADIC_SOLUTION not understood")
        else:
            problems.append("no OUT_VARIADIC_SOLUTION constant")
        out[ctor] = {"subgraphs": subs, "outGraph": out_graph, "outMinus": minus, "problems": problems}
    return out


def resolve_ctors() -> list:
    """(module, ctor, defining module) for every shipped ai.onnx module — by import, not by AST."""
    import importlib

    res = []
    for p in sorted((REPO / ONNX_DIR).glob("v*.py"), key=lambda q: int(q.stem[1:])):
        m = importlib.import_module(f"spox.opset.ai.onnx.{p.stem}")
        for c in CTORS:
            f = getattr(m, c, None)
            if f is not None:
                res.append((p.stem, c, f.__module__.rsplit(".", 1)[-1]))
    return res


# ------------------------------------------------------------------ callback call sites
def extract_sites() -> dict:
    invokers, recon, readers, sub_callers, opset_modules = [], [], [], [], []
    src = REPO / "src"
    for p in sorted((src / "spox").rglob("*.py")):
        modname = ".".join(p.relative_to(src).with_suffix("").parts)
        tree = ast.parse(p.read_text())
        is_graph = modname == "spox._graph"
        if modname.startswith("spox.opset."):
            opset_modules.append(modname)

        def visit(node, qual, params):
            for ch in ast.iter_child_nodes(node):
                if isinstance(ch, (ast.FunctionDef, ast.AsyncFunctionDef)):
                    a = ch.args
                    ps = {x.arg for x in a.args + a.kwonlyargs + a.posonlyargs}
                    if a.vararg:
                        ps.add(a.vararg.arg)
                    if a.kwarg:
                        ps.add(a.kwarg.arg)
                    visit(ch, f"{qual}.{ch.name}", ps)
                    continue
                if isinstance(ch, ast.ClassDef):
                    visit(ch, f"{qual}.{ch.name}", set())
                    continue
                if isinstance(ch, ast.Call):
                    f = ch.func
                    if isinstance(f, ast.Attribute) and f.attr == "_reconstruct":
                        recon.append(qual)
                    if isinstance(f, ast.Attribute) and f.attr == "_constructor":
                        invokers.append(qual)
                    if is_graph and isinstance(f, ast.Name) and f.id in params:
                        invokers.append(qual)
                    if _is_subgraph_call(ch):
                        sub_callers.append((modname, qual[len(modname) + 1 :]))
                    if (
                        isinstance(f, ast.Name) and f.id in ("getattr", "setattr", "hasattr")
                        and len(ch.args) >= 2 and isinstance(ch.args[1], ast.Constant)
                        and ch.args[1].value in ("_constructor", "_reconstruct")
                    ):
                        readers.append(qual)
                if isinstance(ch, ast.Attribute) and ch.attr == "_constructor" and isinstance(ch.ctx, ast.Load):
                    readers.append(qual)
                visit(ch, qual, params)

        visit(tree, modname, set())

    def uniq(xs):
        return sorted(set(xs))

    return {
        "invokers": uniq(invokers),
        "reconstructCallers": uniq(recon),
        "constructorReaders": uniq(readers),
        "subgraphCallers": uniq(sub_callers),
        "opsetModules": uniq(opset_modules),
    }


# ------------------------------------------------------------------ inventory of callback-taking constructors
def _mod_key(p) -> str:
    """`v17` for ai.onnx modules (the key used in `table`), the dotted path below `opset` otherwise."""
    rel = p.relative_to(REPO / "src/spox/opset").with_suffix("")
    parts = list(rel.parts)
    return parts[-1] if parts[:2] == ["ai", "onnx"] and len(parts) == 3 else ".".join(parts)


def extract_inventory() -> dict:
    """Over *every* module below src/spox/opset (ai.onnx and ai.onnx.ml, all versions):
    * `callableParams`: (module, function, sorted names of its parameters annotated `Callable[...]`) for every
      top-level function that has such a parameter — what a control-flow constructor is, by signature;
    * `attrWiring`: for each of them the `X=AttrGraph(<graph var>, name="<Y>")` attribute bindings as
      (X, Y, callback whose subgraph(...) result <graph var> is), `?` where not of that form."""
    cps, wiring, problems = [], [], []
    for p in sorted((REPO / "src/spox/opset").rglob("*.py")):
        try:
            mod = ast.parse(p.read_text())
        except Exception as e:  # noqa: BLE001
            problems.append(f"{p.name}: {type(e).__name__}: {e}")
            cps.append((_mod_key(p), "<unreadable>", ["?"]))
            continue
        mk = _mod_key(p)
        for fn in mod.body:
            if not isinstance(fn, (ast.FunctionDef, ast.AsyncFunctionDef)):
                continue
            a = fn.args
            allp = a.posonlyargs + a.args + a.kwonlyargs + ([a.vararg] if a.vararg else []) + ([a.kwarg] if a.kwarg else [])
            cbs = sorted(x.arg for x in allp if x.annotation is not None and "Callable" in ast.dump(x.annotation))
            calls_sub = any(_is_subgraph_call(n) for n in ast.walk(fn))
            if not cbs and not calls_sub:
                continue
            cps.append((mk, fn.name, cbs))
            graph_of = {}
            for st in fn.body:
                tgt = val = None
                if isinstance(st, ast.AnnAssign) and isinstance(st.target, ast.Name):
                    tgt, val = st.target.id, st.value
                elif isinstance(st, ast.Assign) and len(st.targets) == 1 and isinstance(st.targets[0], ast.Name):
                    tgt, val = st.targets[0].id, st.value
                if tgt and val is not None and _is_subgraph_call(val) and len(val.args) == 2 and isinstance(val.args[1], ast.Name):
                    graph_of[tgt] = val.args[1].id
            w = []
            for n in ast.walk(fn):
                if isinstance(n, ast.keyword) and isinstance(n.value, ast.Call) and (
                        (isinstance(n.value.func, ast.Name) and n.value.func.id == "AttrGraph")
                        or (isinstance(n.value.func, ast.Attribute) and n.value.func.attr == "AttrGraph")):
                    c = n.value
                    g = c.args[0].id if c.args and isinstance(c.args[0], ast.Name) else "?"
                    nm = next((k.value.value for k in c.keywords if k.arg == "name" and isinstance(k.value, ast.Constant)), "?")
                    w.append((n.arg or "?", str(nm), graph_of.get(g, "?")))
            wiring.append((mk, fn.name, w))
    return {"callableParams": cps, "attrWiring": wiring, "problems": problems}


# ------------------------------------------------------------------ how `subgraph` itself uses its callback
def extract_callback_uses() -> dict:
    """Every occurrence of the callback parameter inside `spox._graph.subgraph`, classified:
    `call:*<name>` (called with one starred argument and nothing else), `call:other` (any other call shape),
    `arg-of:<callee>` (handed to another function), `attr:<name>` (an attribute of the callable is read),
    `other`. Also the names imported by `_graph.py` at module level that could introspect callables."""
    tree = ast.parse((REPO / "src/spox/_graph.py").read_text())
    fn = next((n for n in tree.body if isinstance(n, ast.FunctionDef) and n.name == "subgraph"), None)
    if fn is None or len(fn.args.args) < 2:
        return {"param": "?", "uses": ["other:subgraph not found"], "introspection": []}
    cb = fn.args.args[1].arg
    parents = {}
    for node in ast.walk(fn):
        for ch in ast.iter_child_nodes(node):
            parents[ch] = node
    uses = []
    for node in ast.walk(fn):
        if not (isinstance(node, ast.Name) and node.id == cb):
            continue
        par = parents.get(node)
        if isinstance(par, ast.Call) and par.func is node:
            if len(par.args) == 1 and isinstance(par.args[0], ast.Starred) and not par.keywords:
                uses.append("call:starred")
            else:
                uses.append("call:other")
        elif isinstance(par, ast.Call):
            f = par.func
            uses.append("arg-of:" + (f.id if isinstance(f, ast.Name) else f.attr if isinstance(f, ast.Attribute) else "?"))
        elif isinstance(par, ast.keyword):
            uses.append("kwarg:" + str(par.arg))
        elif isinstance(par, ast.Attribute):
            uses.append("attr:" + par.attr)
        elif isinstance(node.ctx, ast.Store):
            uses.append("rebound")
        else:
            uses.append("other:" + type(par).__name__)
    intro = []
    for node in ast.walk(fn):
        if isinstance(node, (ast.Import, ast.ImportFrom)):
            intro += [a.name for a in node.names]
    for node in tree.body:
        if isinstance(node, ast.Import):
            intro += [a.name for a in node.names if a.name in ("inspect", "functools", "types")]
        elif isinstance(node, ast.ImportFrom) and node.module in ("inspect", "functools", "types"):
            intro += [f"{node.module}.{a.name}" for a in node.names]
    return {"param": cb, "uses": uses, "introspection": sorted(set(intro))}


# ------------------------------------------------------------------ generate
def generate() -> dict:
    mods = extract_modules()
    hint = {}
    for m in mods.values():
        for c, spec in m.items():
            hint.setdefault(c, [nm for nm, _ in spec["subgraphs"]])
    gen = extract_generator(hint)
    resolves = resolve_ctors()
    lines = [
        HEADER.format(
            src=f"{ONNX_DIR}/v*.py and tools/generate_opset.py", tool="translator/subgraph_specs.py"
        ),
        "import SpoxModel.Model.Subgraph\n",
        "namespace Generated.SubgraphSpecs\nopen Subgraph\n",
    ]
    table = []
    for m, fns in mods.items():
        for c, spec in fns.items():
            nm = f"{m}_{c}"
            lines.append(f"/-- `{m}.{c}` -/")
            lines.append(f"def {nm} : CtorSpec :=\n  {r_spec(spec)}\n")
            table.append(f"({lean_str(m)}, {lean_str(c)}, {nm})")
    gtable = []
    for c, spec in gen.items():
        nm = f"gen_{c}"
        lines.append(f"/-- source strings for `{c}` in tools/generate_opset.py -/")
        lines.append(f"def {nm} : CtorSpec :=\n  {r_spec(spec)}\n")
        gtable.append(f"({lean_str(c)}, {nm})")
    lines.append("/-- (module, constructor, spec) for every function that calls `subgraph` -/")
    lines.append(f"def table : List (String × String × CtorSpec) :=\n  {lean_list(table)}\n")
    lines.append(f"def genTable : List (String × CtorSpec) :=\n  {lean_list(gtable)}\n")
    lines.append("/-- (shipped module, constructor, module that defines it) — resolved by import -/")
    lines.append(
        "def resolves : List (String × String × String) :=\n  "
        + lean_list([f"({lean_str(a)}, {lean_str(b)}, {lean_str(c)})" for a, b, c in resolves])
        + "\n"
    )
    lines.append("end Generated.SubgraphSpecs\n")
    write_if_changed(GEN / "SubgraphSpecs.lean", "\n".join(lines))

    sites = extract_sites()
    sl = [
        HEADER.format(src="src/spox/**/*.py", tool="translator/subgraph_specs.py"),
        "namespace Generated.CallbackSites\n",
        "/-- functions that call a callback object directly (`X._constructor(…)`, or in `_graph.py` a call of\n    one of their own parameters) -/",
        f"def invokers : List String := {lean_list([lean_str(s) for s in sites['invokers']])}\n",
        "/-- functions that call `._reconstruct(…)` -/",
        f"def reconstructCallers : List String := {lean_list([lean_str(s) for s in sites['reconstructCallers']])}\n",
        "/-- functions that read `._constructor` (attribute load or getattr) -/",
        f"def constructorReaders : List String := {lean_list([lean_str(s) for s in sites['constructorReaders']])}\n",
        "/-- (module, function) of every function that calls `subgraph(…)` -/",
        "def subgraphCallers : List (String × String) :=\n  "
        + lean_list([f"({lean_str(a)}, {lean_str(b)})" for a, b in sites["subgraphCallers"]])
        + "\n",
        "/-- the generated operator-set modules -/",
        f"def opsetModules : List String := {lean_list([lean_str(s) for s in sites['opsetModules']])}\n",
        "end Generated.CallbackSites\n",
    ]
    write_if_changed(GEN / "CallbackSites.lean", "\n".join(sl))
    try:
        inv = extract_inventory()
    except Exception as e:  # noqa: BLE001 - degrade to an entry whose obligation fails
        inv = {"callableParams": [("?", "<extraction failed>", ["?"])], "attrWiring": [], "problems": [f"{type(e).__name__}: {e}"]}
    il = [
        HEADER.format(src="src/spox/opset/**/*.py", tool="translator/subgraph_specs.py"),
        "namespace Generated.SubgraphInventory\n",
        "/-- (module, function, parameters annotated `Callable`) for every top-level function of every opset\n    module that takes a callback or calls `subgraph` -/",
        "def callableParams : List (String × String × List String) :=\n  "
        + lean_list([f"({lean_str(m)}, {lean_str(f)}, {lean_list([lean_str(x) for x in ps])})" for m, f, ps in inv["callableParams"]])
        + "\n",
        "/-- (module, function, [(attribute keyword, `name=` of the AttrGraph, callback the graph was traced from)]) -/",
        "def attrWiring : List (String × String × List (String × String × String)) :=\n  "
        + lean_list([
            f"({lean_str(m)}, {lean_str(f)}, {lean_list([f'({lean_str(a)}, {lean_str(b)}, {lean_str(c)})' for a, b, c in w])})"
            for m, f, w in inv["attrWiring"]])
        + "\n",
    ]
    try:
        cu = extract_callback_uses()
    except Exception as e:  # noqa: BLE001
        cu = {"param": "?", "uses": [f"other:extraction failed {type(e).__name__}"], "introspection": []}
    inv["callbackUses"] = cu
    il += [
        "/-- every occurrence of the callback parameter inside `spox._graph.subgraph`, classified -/",
        f"def callbackUses : List String := {lean_list([lean_str(u) for u in cu['uses']])}\n",
        "/-- imports inside `subgraph` and module-level imports of `inspect` / `functools` / `types` in `_graph.py` -/",
        f"def introspectionImports : List String := {lean_list([lean_str(u) for u in cu['introspection']])}\n",
        "end Generated.SubgraphInventory\n",
    ]
    write_if_changed(GEN / "SubgraphInventory.lean", "\n".join(il))
    return {"modules": mods, "generator": gen, "resolves": resolves, "sites": sites, "inventory": inv}


if __name__ == "__main__":
    import json
    import sys

    sys.path.insert(0, str(REPO / "src"))
    print(json.dumps(generate(), indent=1, default=str))
