"""C04 tie G: inventory of `spox/_build.py` (what `Model/BuildAlg.lean` covers), regenerated on every run.

AST only (nothing is imported). Written to Generated/BuildAlgFacts.lean:

* `methods`      every function of the module: module level, `Builder.*`, `Builder.ScopeTree.*`, other classes;
* `moduleNames`  every name bound at module level (a new module-level cache is a new row);
* `classAttrs`   class-level (annotated / assigned) attributes of every class;
* `writes`       every write site of Builder state: `self.<attr>… = / op= …` and mutating calls
                 (`add`, `append`, `reverse`, `setdefault`, `update`, `extend`, `pop`, `clear`, `remove`,
                 `insert`, `sort`, `__setattr__`, `setattr`) on a `self.…` chain, per method;
* `calls`        per method, the non-builtin call targets (dotted names).

`Props/C04.lean` proves each list equal to the list of what the model covers
(`BuildAlgCover.modelled…`, each row annotated with the model definition that stands for it): an added
method, cache, attribute, write site or callee breaks a proof obligation whatever inputs are generated.

Normalised-AST hashes (docstrings stripped) of every function the model covers - `_build.py`,
`_traverse.iterative_dfs`, `Scope.update`, `Graph.to_onnx[_model]`, `_public.build` - are returned and
compared with `PINNED`: a changed hash is NOT a failed obligation (harmless rewrites stay quiet, the
exact correspondence judges them); it escalates the run to larger counts and is written to the evidence.
"""
import ast
import hashlib

from .common import GEN, HEADER, REPO, dotted, lean_list, lean_str, write_if_changed

SRC = "src/spox/_build.py"

MUTATORS = {"add", "append", "reverse", "setdefault", "update", "extend", "pop", "clear", "remove", "insert",
            "sort", "discard", "popitem", "__setattr__", "__setitem__", "__delitem__"}
BUILTINS = {"set", "list", "dict", "tuple", "len", "isinstance", "any", "all", "zip", "enumerate", "sorted", "iter",
            "next", "getattr", "hasattr", "range", "str", "int", "bool", "min", "max", "sum", "map", "filter",
            "reversed", "print", "repr", "type", "id", "frozenset", "super"}

# (file, qualified name) of the functions the model stands for, outside _build.py
EXTRA = [
    ("src/spox/_traverse.py", "iterative_dfs"),
    ("src/spox/_scope.py", "Scope.update"),
    ("src/spox/_graph.py", "Graph.to_onnx"),
    ("src/spox/_graph.py", "Graph.to_onnx_model"),
    ("src/spox/_graph.py", "Graph._get_build_result"),
    ("src/spox/_graph.py", "Graph._inject_build_result"),
    ("src/spox/_graph.py", "Graph.with_arguments"),
    ("src/spox/_public.py", "build"),
    ("src/spox/_internal_op.py", "intros"),
    ("src/spox/_internal_op.py", "intro"),
    ("src/spox/_internal_op.py", "unsafe_cast"),
    ("src/spox/_internal_op.py", "unsafe_reshape"),
    ("src/spox/_internal_op.py", "_Introduce.to_onnx"),
    ("src/spox/_graph.py", "subgraph"),
    ("src/spox/_graph.py", "Graph._with_constructor"),
]

# modules the build path passes through whose module-level names are inventoried too (a module-level
# cache / memo table added there is a new row)
OTHER_MODULES = ["src/spox/_graph.py", "src/spox/_internal_op.py", "src/spox/_traverse.py"]

# normalised-AST hashes on the pinned tree (regenerate: python3 -m translator.buildalg_facts --pin)
PINNED: dict = {
    "src/spox/_build.py::Builder.ScopeTree.__init__": "818d0d109baa",
    "src/spox/_build.py::Builder.ScopeTree.lca": "1e1304b62ac8",
    "src/spox/_build.py::Builder.ScopeTree.parent": "111825ebb0e5",
    "src/spox/_build.py::Builder.__init__": "d5afc6a84df2",
    "src/spox/_build.py::Builder.build_main": "def9c4a2acfe",
    "src/spox/_build.py::Builder.compile_graph": "450cc63dba77",
    "src/spox/_build.py::Builder.discover": "2636611f2793",
    "src/spox/_build.py::Builder.get_build_subgraph_callback": "b436f824511c",
    "src/spox/_build.py::Builder.get_intro_results": "3c1532fd7c68",
    "src/spox/_build.py::Builder.resolve_scopes": "71f01a185677",
    "src/spox/_build.py::Builder.update_scope_tree": "8dc1d0569d34",
    "src/spox/_build.py::Cached.__init__": "9841c97168c6",
    "src/spox/_build.py::Cached.value": "2e689ee62e51",
    "src/spox/_graph.py::Graph._get_build_result": "2ff2fe4e6d9b",
    "src/spox/_graph.py::Graph._inject_build_result": "caf7c95992bc",
    "src/spox/_graph.py::Graph._with_constructor": "22283079aaf9",
    "src/spox/_graph.py::Graph.to_onnx": "2cd6aed3790a",
    "src/spox/_graph.py::Graph.to_onnx_model": "b7ca186b6eac",
    "src/spox/_graph.py::Graph.with_arguments": "67e07cd2b4a5",
    "src/spox/_graph.py::subgraph": "66fc368e7b6e",
    "src/spox/_internal_op.py::_Introduce.to_onnx": "3d8713ee82e0",
    "src/spox/_internal_op.py::intro": "670575aea877",
    "src/spox/_internal_op.py::intros": "099e50b77bae",
    "src/spox/_internal_op.py::unsafe_cast": "2e230593f9e2",
    "src/spox/_internal_op.py::unsafe_reshape": "5f6598e2882c",
    "src/spox/_public.py::build": "4e12cc8ddec2",
    "src/spox/_scope.py::Scope.update": "6934704e5e68",
    "src/spox/_traverse.py::iterative_dfs": "d097307d5691"
}


def _strip_doc(fn: ast.AST) -> ast.AST:
    body = getattr(fn, "body", None)
    if body and isinstance(body[0], ast.Expr) and isinstance(body[0].value, ast.Constant) and isinstance(body[0].value.value, str):
        fn = type(fn)(**{**{f: getattr(fn, f) for f in fn._fields}, "body": body[1:] or [ast.Pass()]})
    return fn


def _hash(fn: ast.AST) -> str:
    fn = _strip_doc(fn)
    for sub in ast.walk(fn):
        if isinstance(sub, (ast.FunctionDef, ast.ClassDef)) and sub is not fn:
            b = sub.body
            if b and isinstance(b[0], ast.Expr) and isinstance(b[0].value, ast.Constant) and isinstance(b[0].value.value, str):
                sub.body = b[1:] or [ast.Pass()]
    return hashlib.sha1(ast.dump(fn, include_attributes=False).encode()).hexdigest()[:12]


def _functions(body, prefix=""):
    """(qualified name, FunctionDef) for functions at this level and inside classes (not nested defs)."""
    for st in body:
        if isinstance(st, (ast.FunctionDef, ast.AsyncFunctionDef)):
            yield prefix + st.name, st
        elif isinstance(st, ast.ClassDef):
            yield from _functions(st.body, prefix + st.name + ".")


def _classes(body, prefix=""):
    for st in body:
        if isinstance(st, ast.ClassDef):
            yield prefix + st.name, st
            yield from _classes(st.body, prefix + st.name + ".")


def _self_chain(node: ast.AST):
    """`self.a.b[...]` -> 'a.b' (subscripts dropped), None when the chain does not start at `self`."""
    while isinstance(node, ast.Subscript):
        node = node.value
    d = dotted(node)
    if d and d.startswith("self."):
        return d[5:]
    return None


def _writes(fn: ast.FunctionDef):
    out = []
    for sub in ast.walk(fn):
        targets = []
        if isinstance(sub, ast.Assign):
            targets = sub.targets
        elif isinstance(sub, (ast.AugAssign, ast.AnnAssign)):
            targets = [sub.target]
        elif isinstance(sub, ast.Delete):
            targets = sub.targets
        for t in targets:
            for el in (t.elts if isinstance(t, (ast.Tuple, ast.List)) else [t]):
                c = _self_chain(el)
                if c is not None:
                    out.append((c, "subscript" if isinstance(el, ast.Subscript) else "assign"))
        if isinstance(sub, ast.Call):
            f = sub.func
            if isinstance(f, ast.Attribute) and f.attr in MUTATORS:
                c = _self_chain(f.value)
                if c is not None:
                    out.append((c, f.attr))
            elif isinstance(f, ast.Name) and f.id in ("setattr", "delattr") and sub.args:
                out.append((dotted(sub.args[0]) or "?", f.id))
            elif isinstance(f, ast.Attribute) and f.attr in ("__setattr__", "__dict__"):
                out.append((dotted(f.value) or "?", f.attr))
    seen, res = set(), []
    for w in out:
        if w not in seen:
            seen.add(w)
            res.append(w)
    return sorted(res)


def _calls(fn: ast.FunctionDef):
    names = set()
    for sub in ast.walk(fn):
        if isinstance(sub, ast.Call):
            d = dotted(sub.func)
            if d is None:
                # e.g. a call on a call result / subscript: keep the attribute name
                d = "?." + sub.func.attr if isinstance(sub.func, ast.Attribute) else "?"
            if d not in BUILTINS:
                names.add(d)
    return sorted(names)


def _module_names(mod: ast.Module) -> list:
    names = []
    for st in mod.body:
        if isinstance(st, ast.Assign):
            for t in st.targets:
                for el in (t.elts if isinstance(t, (ast.Tuple, ast.List)) else [t]):
                    names.append(dotted(el) or "?")
        elif isinstance(st, (ast.AnnAssign, ast.AugAssign)):
            names.append(dotted(st.target) or "?")
        elif isinstance(st, (ast.FunctionDef, ast.AsyncFunctionDef, ast.ClassDef)):
            names.append(st.name)
        elif isinstance(st, (ast.Import, ast.ImportFrom, ast.Expr)):
            continue
        elif isinstance(st, ast.If) and dotted(st.test) == "TYPE_CHECKING":
            continue
        else:
            names.append("<" + type(st).__name__ + ">")
    return names


def scan() -> dict:
    try:
        mod = ast.parse((REPO / SRC).read_text(), filename=SRC)
    except Exception as e:  # noqa: BLE001 - degrade to an opaque entry no modelled list contains
        return {"opaque": f"{type(e).__name__}: {e}"[:200], "methods": ["<unparsable>"], "moduleNames": ["<unparsable>"],
                "classAttrs": [], "writes": [], "calls": [], "hashes": {}, "otherModuleNames": [("?", "<unparsable>")]}
    module_names = []
    for st in mod.body:
        if isinstance(st, ast.Assign):
            for t in st.targets:
                for el in (t.elts if isinstance(t, (ast.Tuple, ast.List)) else [t]):
                    module_names.append(dotted(el) or "?")
        elif isinstance(st, (ast.AnnAssign, ast.AugAssign)):
            module_names.append(dotted(st.target) or "?")
        elif isinstance(st, (ast.FunctionDef, ast.AsyncFunctionDef, ast.ClassDef)):
            module_names.append(st.name)
        elif isinstance(st, (ast.Import, ast.ImportFrom, ast.Expr)):
            continue
        elif isinstance(st, ast.If) and dotted(st.test) == "TYPE_CHECKING":
            continue
        else:
            module_names.append("<" + type(st).__name__ + ">")
    funs = list(_functions(mod.body))
    class_attrs = []
    for cname, cls in _classes(mod.body):
        for st in cls.body:
            if isinstance(st, ast.AnnAssign):
                class_attrs.append((cname, dotted(st.target) or "?", "annotated" if st.value is None else "assigned"))
            elif isinstance(st, ast.Assign):
                for t in st.targets:
                    class_attrs.append((cname, dotted(t) or "?", "assigned"))
    writes = [(q, w, k) for q, fn in funs for w, k in _writes(fn)]
    calls = [(q, _calls(fn)) for q, fn in funs]
    hashes = {f"{SRC}::{q}": _hash(fn) for q, fn in funs}
    for rel, qual in EXTRA:
        try:
            m2 = ast.parse((REPO / rel).read_text(), filename=rel)
            fn = dict(_functions(m2.body)).get(qual)
            hashes[f"{rel}::{qual}"] = _hash(fn) if fn is not None else "<missing>"
        except Exception:  # noqa: BLE001
            hashes[f"{rel}::{qual}"] = "<unparsable>"
    other = []
    for rel in OTHER_MODULES:
        try:
            for nm in _module_names(ast.parse((REPO / rel).read_text(), filename=rel)):
                other.append((rel.rsplit("/", 1)[-1], nm))
        except Exception:  # noqa: BLE001
            other.append((rel.rsplit("/", 1)[-1], "<unparsable>"))
    return {"otherModuleNames": other, "methods": [q for q, _ in funs], "moduleNames": module_names, "classAttrs": class_attrs,
            "writes": writes, "calls": calls, "hashes": hashes}


def generate() -> dict:
    info = scan()

    def rows(items):
        return ("[" + ",\n   ".join(items) + "]") if items else "[]"

    text = (
        HEADER.format(src=SRC, tool="translator/buildalg_facts.py")
        + "/-! Inventory of `spox/_build.py`: functions, module-level names, class-level attributes, write sites of\n"
        + "    Builder state (method, `self.` chain, how), call targets per function. -/\n"
        + "namespace Generated.BuildAlgFacts\n\n"
        + "def methods : List String :=\n  " + rows([lean_str(m) for m in info["methods"]]) + "\n\n"
        + "def moduleNames : List String :=\n  " + rows([lean_str(m) for m in info["moduleNames"]]) + "\n\n"
        + "def classAttrs : List (String × String × String) :=\n  "
        + rows([f"({lean_str(a)}, {lean_str(b)}, {lean_str(c)})" for a, b, c in info["classAttrs"]]) + "\n\n"
        + "def writes : List (String × String × String) :=\n  "
        + rows([f"({lean_str(a)}, {lean_str(b)}, {lean_str(c)})" for a, b, c in info["writes"]]) + "\n\n"
        + "def calls : List (String × List String) :=\n  "
        + rows([f"({lean_str(q)}, {lean_list([lean_str(c) for c in cs])})" for q, cs in info["calls"]]) + "\n\n"
        + "/-- names bound at module level in the other modules the build path passes through -/\n"
        + "def otherModuleNames : List (String × String) :=\n  "
        + rows([f"({lean_str(a)}, {lean_str(b)})" for a, b in info["otherModuleNames"]]) + "\n\n"
        + "end Generated.BuildAlgFacts\n"
    )
    write_if_changed(GEN / "BuildAlgFacts.lean", text)
    info["changed_hashes"] = sorted(k for k in set(info["hashes"]) | set(PINNED) if info["hashes"].get(k) != PINNED.get(k)) if PINNED else []
    return info


if __name__ == "__main__":
    import json
    import sys

    if "--pin" in sys.argv:
        print("PINNED: dict = " + json.dumps(scan()["hashes"], indent=4, sort_keys=True))
    else:
        print(json.dumps(generate(), indent=1))
