"""Tie G for C13: tabulate spox's element-type functions over the whole finite domain of spellings.

On every run the three functions `Tensor(s)._elem_type`, `dtype_to_tensor_type(s)` and
`tensor_type_to_dtype(code)` of the working tree are *executed* on
  * every distinct numpy scalar class reachable from `np.sctypeDict` + every ml_dtypes scalar class,
  * the dtype object, `.name`, `.str`, `.char`, byte-swapped `.str` of each of them,
  * every string key of `np.sctypeDict`, sized string/bytes dtypes,
  * the Python types int/float/bool/str/bytes/complex/object and `None`,
  * every value of `onnx.TensorProto.DataType` (and three codes beyond the enum),
and the outcome is written to `Generated/Dtypes.lean`.  Independently of spox, the column `defined`
says whether ONNX defines an element type for the spelling (numpy dtype of the spelling is the
numpy dtype `onnx.helper` associates with some `TensorProto.DataType`, or a unicode string).
"""
from __future__ import annotations

import sys
import warnings

from .common import GEN, HEADER, REPO, lean_bool, lean_list, lean_opt, lean_str, write_if_changed


def _use_repo():
    src = str(REPO / "src")
    if src in sys.path:
        sys.path.remove(src)
    sys.path.insert(0, src)


def scalar_classes():
    import numpy as np

    classes = []
    for _, v in sorted(np.sctypeDict.items(), key=lambda kv: str(kv[0])):
        if isinstance(v, type) and v not in classes:
            classes.append(v)
    try:
        import ml_dtypes

        for n in sorted(dir(ml_dtypes)):
            o = getattr(ml_dtypes, n)
            if isinstance(o, type) and issubclass(o, np.generic) and o not in classes:
                classes.append(o)
    except ImportError:
        pass
    classes.sort(key=lambda c: (c.__module__ != "numpy", c.__name__))
    return classes


def spellings():
    """[(name, object)] — the finite domain of element-type spellings."""
    import numpy as np

    out = []
    seen = set()

    def add(name, obj):
        if name not in seen:
            seen.add(name)
            out.append((name, obj))

    for c in scalar_classes():
        add(f"cls:{c.__module__}.{c.__name__}", c)
        try:
            d = np.dtype(c)
        except Exception:  # noqa: BLE001
            continue
        add(f"dtype:{c.__name__}", d)
        add(f"str:{d.name}", d.name)
        if d.kind != "V":
            add(f"str:{d.str}", d.str)
            if d.str[:1] in "<>" and c.__module__ == "numpy":
                add(f"str:{'>' + d.str[1:]}", ">" + d.str[1:])
                add(f"dtype:{'>' + d.str[1:]}", np.dtype(">" + d.str[1:]))
            if len(d.char) == 1:
                add(f"str:{d.char}", d.char)
    for k in sorted(k for k in np.sctypeDict if isinstance(k, str)):
        add(f"str:{k}", k)
    for s in ["U3", "<U7", "S4", "U0", "S0", "O", "V", "V8", "M8[s]", "m8[ns]", "datetime64[D]"]:
        add(f"str:{s}", s)
    add("dtype:U3", np.dtype("U3"))
    for name, o in [("py:int", int), ("py:float", float), ("py:bool", bool), ("py:str", str),
                    ("py:bytes", bytes), ("py:complex", complex), ("py:object", object), ("py:None", None)]:
        add(name, o)
    return out


def onnx_defines(obj) -> bool:
    """Independently of spox: does ONNX define an element type for this spelling?"""
    import numpy as np
    import onnx

    if obj is None:
        return False
    try:
        with warnings.catch_warnings():
            warnings.simplefilter("ignore")
            d = np.dtype(obj)
    except Exception:  # noqa: BLE001
        return False
    if d.kind == "U":
        return True
    if d.byteorder in "<>":  # the element type does not depend on the byte order of the spelling
        d = d.newbyteorder("=")
    for name, code in onnx.TensorProto.DataType.items():
        if name in ("UNDEFINED", "STRING"):
            continue
        try:
            if onnx.helper.tensor_dtype_to_np_dtype(code) == d:
                return True
        except Exception:  # noqa: BLE001
            pass
    return False


def tabulate() -> dict:
    _use_repo()
    import numpy as np
    import onnx
    from spox import Tensor

    unobservable = []

    def missing(name):
        def f(*_a, **_k):
            raise RuntimeError(f"{name} not observable")
        return f

    # the two conversion functions are internals: when they cannot be reached the rows are recorded as
    # refused, the generated obligations fail (-> `broken`), nothing raises here
    try:
        from spox._utils import dtype_to_tensor_type
    except Exception as e:  # noqa: BLE001
        unobservable.append(f"spox._utils.dtype_to_tensor_type: {type(e).__name__}: {e}")
        dtype_to_tensor_type = missing("dtype_to_tensor_type")
    try:
        from spox._utils import tensor_type_to_dtype
    except Exception as e:  # noqa: BLE001
        unobservable.append(f"spox._utils.tensor_type_to_dtype: {type(e).__name__}: {e}")
        tensor_type_to_dtype = missing("tensor_type_to_dtype")

    def elem_class(t):
        c = getattr(t, "_elem_type", None)
        if c is None:
            if "Tensor._elem_type" not in " ".join(unobservable):
                unobservable.append("Tensor._elem_type: attribute missing (using Tensor.dtype.type)")
            c = t.dtype.type
        return c

    classes: list = list(scalar_classes())

    def cid(c):
        if c not in classes:
            classes.append(c)
        return classes.index(c)

    def refusal(e):
        return type(e).__name__

    rows = []
    with warnings.catch_warnings():
        warnings.simplefilter("ignore")
        for name, obj in spellings():
            row = {"name": name, "cls": None, "code": None, "err_cls": None, "err_code": None,
                   "defined": onnx_defines(obj)}
            try:
                row["cls"] = cid(elem_class(Tensor(obj)))
            except Exception as e:  # noqa: BLE001
                row["err_cls"] = refusal(e)
            try:
                row["code"] = int(dtype_to_tensor_type(obj))
            except Exception as e:  # noqa: BLE001
                row["err_code"] = refusal(e)
            rows.append(row)
        enum = sorted(set(int(v) for v in onnx.TensorProto.DataType.values()))
        codes = enum + [max(enum) + 1, max(enum) + 2, 1000]
        code_rows = []
        for c in codes:
            r = {"code": c, "dtype_cls": None, "tensor_cls": None}
            try:
                d = tensor_type_to_dtype(c)
                r["dtype_cls"] = cid(d.type)
                r["tensor_cls"] = cid(elem_class(Tensor(d)))
            except Exception as e:  # noqa: BLE001
                r["err"] = refusal(e)
            code_rows.append(r)
        class_rows = []
        for i, c in enumerate(list(classes)):
            r = {"id": i, "name": f"{c.__module__}.{c.__name__}", "code": None}
            try:
                r["code"] = int(dtype_to_tensor_type(c))
            except Exception as e:  # noqa: BLE001
                r["err"] = refusal(e)
            class_rows.append(r)
    elem_classes = sorted({r["cls"] for r in rows if r["cls"] is not None}
                          | {r["tensor_cls"] for r in code_rows if r["tensor_cls"] is not None})
    sub = [(a, b) for a in elem_classes for b in elem_classes if issubclass(classes[a], classes[b])]
    return {
        "classes": classes,
        "class_rows": class_rows,
        "spellings": rows,
        "codes": code_rows,
        "enum": [c for c in enum if c != int(onnx.TensorProto.UNDEFINED)],
        "elem_classes": elem_classes,
        "sub": sub,
        "unobservable": unobservable,
    }


def render(t: dict) -> str:
    L = [HEADER.format(src="src/spox/_type_system.py, src/spox/_utils.py (executed)", tool="translator/dtypes.py"),
         "import SpoxModel.Model.Types\n",
         "namespace Generated.Dtypes\nopen Types\n",
         "/-- One spelling of an element type and what the code does with it. -/",
         "structure Spelling where",
         "  name : String",
         "  cls : Option Nat      -- class id of `Tensor(s)._elem_type`; none = refused",
         "  code : Option Nat     -- `dtype_to_tensor_type(s)`; none = refused",
         "  defined : Bool        -- ONNX defines an element type for this spelling (computed without spox)",
         "deriving DecidableEq, Repr\n",
         "/-- numpy scalar classes, by class id. -/",
         "def classNames : List String := " + lean_list([lean_str(r["name"]) for r in t["class_rows"]]) + "\n",
         "def spellings : List Spelling := ["]
    L.append(",\n".join(
        f"  ⟨{lean_str(r['name'])}, {lean_opt(r['cls'])}, {lean_opt(r['code'])}, {lean_bool(r['defined'])}⟩"
        for r in t["spellings"]) + "]\n")
    L.append("/-- `dtype_to_tensor_type(cls)` per class id. -/")
    L.append("def classCode : List (Nat × Option Nat) := " + lean_list(
        [f"({r['id']}, {lean_opt(r['code'])})" for r in t["class_rows"]]) + "\n")
    L.append("/-- per ONNX code: class of `Tensor(tensor_type_to_dtype(code))._elem_type` (what `_from_onnx` builds). -/")
    L.append("def codeClass : List (Nat × Option Nat) := " + lean_list(
        [f"({r['code']}, {lean_opt(r['tensor_cls'])})" for r in t["codes"]]) + "\n")
    L.append("/-- the values of `onnx.TensorProto.DataType` other than UNDEFINED. -/")
    L.append("def onnxEnum : List Nat := " + lean_list([str(c) for c in t["enum"]]) + "\n")
    L.append("/-- classes that occur as `_elem_type` of some constructible Tensor. -/")
    L.append("def elemClasses : List Nat := " + lean_list([str(c) for c in t["elem_classes"]]) + "\n")
    L.append("/-- `issubclass` among the element classes (pairs for which it is true). -/")
    L.append("def subPairs : List (Nat × Nat) := " + lean_list([f"({a}, {b})" for a, b in t["sub"]]) + "\n")
    L.append("def lookup (l : List (Nat × Option Nat)) (k : Nat) : Option Nat :=\n"
             "  match l.find? (fun p => p.1 == k) with\n  | some p => p.2\n  | none => none\n")
    L.append("def table : DtypeTable where\n"
             "  toCode := lookup classCode\n"
             "  ofCode := lookup codeClass\n"
             "  sub := fun a b => subPairs.contains (a, b)\n")
    L.append("end Generated.Dtypes\n")
    return "\n".join(L)


def generate() -> dict:
    t = tabulate()
    write_if_changed(GEN / "Dtypes.lean", render(t))
    return t
