"""Extract the ownership-relevant statement list of `spox._public.inline` (C08 `normalise_pure`).

Each top-level statement of `inline` becomes one `Inline.Stmt`:
  read     only reads the parameter `model` (or does not touch it)
  copy     rebinds the local name `model` to a fresh object (`_copy_model(model)` / `copy.deepcopy(model)`)
  mutate   may change the object the local name `model` is bound to (del / assignment into it / a
           mutating protobuf method on something reached from it, also through a `for` variable / an
           unknown callee receiving it)
  other    does not mention `model` (raise, nested def, ...)

`copyFresh` records that `_copy_model` builds a new `ModelProto` and fills it with `CopyFrom`
(or is a deepcopy). The extraction is syntactic and conservative: anything unclassifiable that
mentions `model` is `mutate`.
"""
import ast

from .common import GEN, HEADER, dotted, lean_bool, lean_list, parse, write_if_changed

MUTATORS = {
    "CopyFrom", "MergeFrom", "Clear", "ClearField", "reverse", "extend", "append", "remove", "insert",
    "pop", "sort", "add", "ParseFromString", "MergeFromString", "update", "clear", "__setitem__", "__delitem__",
}
PURE_CALLEES = {
    "len", "list", "set", "dict", "tuple", "sorted", "enumerate", "zip", "str", "repr", "print", "isinstance",
    "itertools.chain", "chain", "Type._from_onnx", "_strip_dim_symbol", "onnx.helper.make_node", "to_array",
    "reversed", "any", "all",
}
COPIERS = {"_copy_model", "copy.deepcopy", "deepcopy"}


def _mentions(node: ast.AST, names: set) -> bool:
    return any(isinstance(n, ast.Name) and n.id in names for n in ast.walk(node))


def _root(node: ast.AST):
    while isinstance(node, (ast.Attribute, ast.Subscript)):
        node = node.value
    return node.id if isinstance(node, ast.Name) else None


def _is_copy_call(v: ast.AST, param: str) -> bool:
    return (
        isinstance(v, ast.Call)
        and dotted(v.func) in COPIERS
        and len(v.args) == 1
        and isinstance(v.args[0], ast.Name)
        and v.args[0].id == param
    )


def classify(s: ast.stmt, param: str, aliases: set) -> str:
    """aliases: local names that may reach into the object `param` is bound to."""
    names = {param} | aliases
    if isinstance(s, (ast.FunctionDef, ast.AsyncFunctionDef, ast.ClassDef, ast.Raise, ast.Pass, ast.Import, ast.ImportFrom)):
        return "other"
    if isinstance(s, ast.Expr) and isinstance(s.value, ast.Constant):
        return "other"
    if isinstance(s, ast.Assign) and len(s.targets) == 1 and isinstance(s.targets[0], ast.Name) \
            and s.targets[0].id == param and _is_copy_call(s.value, param):
        return "copy"
    if not _mentions(s, names):
        return "other"
    verdict = "read"
    for n in ast.walk(s):
        if isinstance(n, ast.Delete) and any(_root(t) in names for t in n.targets):
            return "mutate"
        if isinstance(n, (ast.Assign, ast.AugAssign, ast.AnnAssign)):
            tgts = n.targets if isinstance(n, ast.Assign) else [n.target]
            for t in tgts:
                if isinstance(t, (ast.Attribute, ast.Subscript)) and _root(t) in names:
                    return "mutate"
                if isinstance(t, ast.Name) and t.id == param:
                    return "mutate"  # rebinding to something that is not a fresh copy
        if isinstance(n, ast.Call):
            f = n.func
            if isinstance(f, ast.Attribute) and f.attr in MUTATORS and _root(f.value) in names:
                return "mutate"
            callee = dotted(f)
            passes = any(_mentions(a, names) for a in list(n.args) + [k.value for k in n.keywords])
            if passes and callee not in PURE_CALLEES and not (isinstance(f, ast.Attribute) and _root(f.value) in names):
                if callee in COPIERS:
                    continue
                return "mutate"  # unknown callee receives (part of) the model
    return verdict


def _loop_aliases(s: ast.stmt, param: str) -> set:
    """`for x in <something reaching model>`: x aliases parts of the model inside the loop."""
    out = set()
    for n in ast.walk(s):
        if isinstance(n, (ast.For, ast.comprehension)) and _mentions(n.iter, {param}):
            for t in ast.walk(n.target):
                if isinstance(t, ast.Name):
                    out.add(t.id)
    return out


def copy_is_fresh(mod: ast.Module) -> bool:
    for fn in mod.body:
        if isinstance(fn, ast.FunctionDef) and fn.name == "_copy_model" and len(fn.args.args) == 1:
            p = fn.args.args[0].arg
            body = [s for s in fn.body if not (isinstance(s, ast.Expr) and isinstance(s.value, ast.Constant))]
            # copied = onnx.ModelProto(); copied.CopyFrom(model); return copied
            if len(body) == 3 and isinstance(body[0], ast.Assign) and isinstance(body[0].value, ast.Call) \
                    and dotted(body[0].value.func) in ("onnx.ModelProto", "ModelProto") and not body[0].value.args:
                loc = body[0].targets[0].id if isinstance(body[0].targets[0], ast.Name) else None
                c = body[1].value if isinstance(body[1], ast.Expr) else None
                if loc and isinstance(c, ast.Call) and dotted(c.func) == f"{loc}.CopyFrom" and len(c.args) == 1 \
                        and isinstance(c.args[0], ast.Name) and c.args[0].id == p \
                        and isinstance(body[2], ast.Return) and isinstance(body[2].value, ast.Name) and body[2].value.id == loc:
                    return True
            if len(body) == 1 and isinstance(body[0], ast.Return) and _is_copy_call(body[0].value, p) \
                    and dotted(body[0].value.func) != "_copy_model":
                return True
    return False


def generate() -> dict:
    note = ""
    try:
        mod = parse("src/spox/_public.py")
        fn = next((f for f in mod.body if isinstance(f, ast.FunctionDef) and f.name == "inline"), None)
        if fn is None or not fn.args.args:
            raise LookupError("no function `inline(model)` in src/spox/_public.py")
        param = fn.args.args[0].arg
        stmts = []
        for s in fn.body:
            stmts.append(classify(s, param, _loop_aliases(s, param)))
        uses_deepcopy_directly = any(
            isinstance(s, ast.Assign) and _is_copy_call(s.value, param) and dotted(s.value.func) in ("copy.deepcopy", "deepcopy")
            for s in fn.body
        )
        fresh = copy_is_fresh(mod) or uses_deepcopy_directly
    except Exception as e:  # noqa: BLE001 - unknown shape: an opaque mutation, the obligation fails
        stmts, fresh, note = ["mutate"], False, f"{type(e).__name__}: {e}"
    # the nested callback must not rebind / mutate through the caller's object either: it only sees the local
    text = HEADER.format(src="src/spox/_public.py", tool="translator/inline_facts.py") + (
        "\nimport SpoxModel.Model.Inline\n\nnamespace Generated.InlineFacts\nopen Inline\n\n"
        "/-- top-level statements of `spox._public.inline`, classified by what they may do to `model` -/\n"
        f"def stmts : List Stmt := {lean_list(['.' + s for s in stmts])}\n\n"
        "/-- `_copy_model` returns a fresh `ModelProto` filled by `CopyFrom` (or a deepcopy) -/\n"
        f"def copyFresh : Bool := {lean_bool(fresh)}\n\n"
        "end Generated.InlineFacts\n"
    )
    write_if_changed(GEN / "InlineFacts.lean", text)
    return {"stmts": stmts, "copyFresh": fresh, "note": note}


if __name__ == "__main__":
    print(generate())
