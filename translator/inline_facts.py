"""Extract the ownership-relevant statement list of `spox._public.inline` (C08 `normalise_pure`).

Each top-level statement of `inline` becomes one `Inline.Stmt`:
  read     only reads the parameter `model` (or does not touch it)
  copy     rebinds the local name `model` to a fresh object (`_copy_model(model)` / `copy.deepcopy(model)`)
  mutate   may change the object the local name `model` is bound to (del / assignment into it / a
           mutating protobuf method on something reached from it, also through a `for` variable / an
           unknown callee receiving it)
  other    does not mention `model` (raise, nested def, ...)

`copyFresh` records that `_copy_model` builds a new `ModelProto` and fills it with `CopyFrom`
(or is a deepcopy). The extraction is syntactic and conservative: anything unclassifiable that
mentions `model` is `mutate`.
"""
import ast

from .common import GEN, HEADER, dotted, lean_bool, lean_list, parse, write_if_changed

MUTATORS = {
    "CopyFrom", "MergeFrom", "Clear", "ClearField", "reverse", "extend", "append", "remove", "insert",
    "pop", "sort", "add", "ParseFromString", "MergeFromString", "update", "clear", "__setitem__", "__delitem__",
}
PURE_CALLEES = {
    "len", "list", "set", "dict", "tuple", "sorted", "enumerate", "zip", "str", "repr", "print", "isinstance",
    "itertools.chain", "chain", "Type._from_onnx", "_strip_dim_symbol", "onnx.helper.make_node", "to_array",
    "reversed", "any", "all",
}
COPIERS = {"_copy_model", "copy.deepcopy", "deepcopy"}


def _mentions(node: ast.AST, names: set) -> bool:
    return any(isinstance(n, ast.Name) and n.id in names for n in ast.walk(node))


def _root(node: ast.AST):
    while isinstance(node, (ast.Attribute, ast.Subscript)):
        node = node.value
    return node.id if isinstance(node, ast.Name) else None


def _is_copy_call(v: ast.AST, param: str) -> bool:
    return (
        isinstance(v, ast.Call)
        and dotted(v.func) in COPIERS
        and len(v.args) == 1
        and isinstance(v.args[0], ast.Name)
        and v.args[0].id == param
    )


def classify(s: ast.stmt, param: str, aliases: set) -> str:
    """aliases: local names that may reach into the object `param` is bound to."""
    names = {param} | aliases
    if isinstance(s, (ast.FunctionDef, ast.AsyncFunctionDef, ast.ClassDef, ast.Raise, ast.Pass, ast.Import, ast.ImportFrom)):
        return "other"
    if isinstance(s, ast.Expr) and isinstance(s.value, ast.Constant):
        return "other"
    if isinstance(s, ast.Assign) and len(s.targets) == 1 and isinstance(s.targets[0], ast.Name) \
            and s.targets[0].id == param and _is_copy_call(s.value, param):
        return "copy"
    if not _mentions(s, names):
        return "other"
    verdict = "read"
    for n in ast.walk(s):
        if isinstance(n, ast.Delete) and any(_root(t) in names for t in n.targets):
            return "mutate"
        if isinstance(n, (ast.Assign, ast.AugAssign, ast.AnnAssign)):
            tgts = n.targets if isinstance(n, ast.Assign) else [n.target]
            for t in tgts:
                if isinstance(t, (ast.Attribute, ast.Subscript)) and _root(t) in names:
                    return "mutate"
                if isinstance(t, ast.Name) and t.id == param:
                    return "mutate"  # rebinding to something that is not a fresh copy
        if isinstance(n, ast.Call):
            f = n.func
            if isinstance(f, ast.Attribute) and f.attr in MUTATORS and _root(f.value) in names:
                return "mutate"
            callee = dotted(f)
            passes = any(_mentions(a, names) for a in list(n.args) + [k.value for k in n.keywords])
            if passes and callee not in PURE_CALLEES and not (isinstance(f, ast.Attribute) and _root(f.value) in names):
                if callee in COPIERS:
                    continue
                return "mutate"  # unknown callee receives (part of) the model
    return verdict


def _loop_aliases(s: ast.stmt, param: str) -> set:
    """`for x in <something reaching model>`: x aliases parts of the model inside the loop."""
    out = set()
    for n in ast.walk(s):
        if isinstance(n, (ast.For, ast.comprehension)) and _mentions(n.iter, {param}):
            for t in ast.walk(n.target):
                if isinstance(t, ast.Name):
                    out.add(t.id)
    return out


def copy_is_fresh(mod: ast.Module) -> bool:
    for fn in mod.body:
        if isinstance(fn, ast.FunctionDef) and fn.name == "_copy_model" and len(fn.args.args) == 1:
            p = fn.args.args[0].arg
            body = [s for s in fn.body if not (isinstance(s, ast.Expr) and isinstance(s.value, ast.Constant))]
            # copied = onnx.ModelProto(); copied.CopyFrom(model); return copied
            if len(body) == 3 and isinstance(body[0], ast.Assign) and isinstance(body[0].value, ast.Call) \
                    and dotted(body[0].value.func) in ("onnx.ModelProto", "ModelProto") and not body[0].value.args:
                loc = body[0].targets[0].id if isinstance(body[0].targets[0], ast.Name) else None
                c = body[1].value if isinstance(body[1], ast.Expr) else None
                if loc and isinstance(c, ast.Call) and dotted(c.func) == f"{loc}.CopyFrom" and len(c.args) == 1 \
                        and isinstance(c.args[0], ast.Name) and c.args[0].id == p \
                        and isinstance(body[2], ast.Return) and isinstance(body[2].value, ast.Name) and body[2].value.id == loc:
                    return True
            if len(body) == 1 and isinstance(body[0], ast.Return) and _is_copy_call(body[0].value, p) \
                    and dotted(body[0].value.func) != "_copy_model":
                return True
    return False


def generate() -> dict:
    note = ""
    try:
        mod = parse("src/spox/_public.py")
        fn = next((f for f in mod.body if isinstance(f, ast.FunctionDef) and f.name == "inline"), None)
        if fn is None or not fn.args.args:
            raise LookupError("no function `inline(model)` in src/spox/_public.py")
        param = fn.args.args[0].arg
        stmts = []
        for s in fn.body:
            stmts.append(classify(s, param, _loop_aliases(s, param)))
        uses_deepcopy_directly = any(
            isinstance(s, ast.Assign) and _is_copy_call(s.value, param) and dotted(s.value.func) in ("copy.deepcopy", "deepcopy")
            for s in fn.body
        )
        fresh = copy_is_fresh(mod) or uses_deepcopy_directly
    except Exception as e:  # noqa: BLE001 - unknown shape: an opaque mutation, the obligation fails
        stmts, fresh, note = ["mutate"], False, f"{type(e).__name__}: {e}"
    swap, swap_note = swap_ir()
    shape, shape_note = adapt_shape()
    members = inline_members()
    note = "; ".join(x for x in (note, swap_note, shape_note) if x)
    text = HEADER.format(src="src/spox/_public.py, src/spox/_adapt.py", tool="translator/inline_facts.py") + (
        "\nimport SpoxModel.Model.Inline\n\nnamespace Generated.InlineFacts\nopen Inline\n\n"
        "/-- top-level statements of `spox._public.inline`, classified by what they may do to `model` -/\n"
        f"def stmts : List Stmt := {lean_list(['.' + s for s in stmts])}\n\n"
        "/-- `_copy_model` returns a fresh `ModelProto` filled by `CopyFrom` (or a deepcopy) -/\n"
        f"def copyFresh : Bool := {lean_bool(fresh)}\n\n"
        "/-- statements of `spox._adapt.adapt_inline` after the no-conversion early returns, as far as\n"
        "    `node.model` is concerned -/\n"
        f"def swapIR : List SStmt := {swap}\n\n"
        "/-- the decision of `spox._adapt.adapt_inline` as written (normalised source text of every expression it\n"
        "    is made of): where the target and source versions come from, which guards return the build's\n"
        "    nodes unconverted, which guard calls the converter, how many `return protos` there are -/\n"
        f"def adaptShape : List (String × String) := {lean_pairs(shape)}\n\n"
        "/-- inventory of class `spox._inline._Inline` (methods, properties, class-level attributes, nested classes)\n"
        "    and of every attribute WRITE on the node object in `_Inline`'s methods and in `adapt_inline`\n"
        "    (`<function>:<attribute>`): a new override, cache or class-level attribute shows up here -/\n"
        f"def inlineMembers : List String := {lean_list([lean_str(m) for m in members])}\n\n"
        "end Generated.InlineFacts\n"
    )
    write_if_changed(GEN / "InlineFacts.lean", text)
    return {"stmts": stmts, "copyFresh": fresh, "swapIR": swap, "adaptShape": shape, "inlineMembers": members, "sourceHashes": source_hashes(), "note": note}


def lean_str(x: str) -> str:
    return '"' + x.replace("\\", "\\\\").replace('"', '\\"').replace("\n", "\\n") + '"'


def lean_pairs(pairs) -> str:
    return "[" + ", ".join(f"({lean_str(a)}, {lean_str(b)})" for a, b in pairs) + "]"


def adapt_shape():
    """Every expression the conversion decision of `adapt_inline` is made of, as normalised source text
    (`ast.unparse`: comments, layout and quoting style do not matter; names and operators do)."""
    try:
        mod = parse("src/spox/_adapt.py")
        fn = next((f for f in mod.body if isinstance(f, ast.FunctionDef) and f.name == "adapt_inline"), None)
        if fn is None or len(fn.args.args) < 2:
            raise LookupError("no function `adapt_inline(node, protos, ...)` in src/spox/_adapt.py")
        protos = fn.args.args[1].arg
        out = [("params", ", ".join(a.arg for a in fn.args.args))]

        def returns_protos(body) -> bool:
            return any(isinstance(x, ast.Return) and isinstance(x.value, ast.Name) and x.value.id == protos for x in body)

        def calls_converter(body) -> bool:
            return any(isinstance(c, ast.Call) and dotted(c.func).endswith("convert_version") for x in body for c in ast.walk(x))

        for n in ast.walk(fn):
            if isinstance(n, ast.Assign) and len(n.targets) == 1 and isinstance(n.targets[0], ast.Name) \
                    and n.targets[0].id in ("target_version", "source_version", "seen_domains"):
                out.append((n.targets[0].id, ast.unparse(n.value)))
        n_ret = 0
        for n in ast.walk(fn):
            if isinstance(n, ast.If):
                if returns_protos(n.body):
                    out.append(("keep-if", ast.unparse(n.test)))
                if returns_protos(n.orelse):
                    out.append(("keep-unless", ast.unparse(n.test)))
                if calls_converter(n.body):
                    out.append(("convert-if", ast.unparse(n.test)))
                    conv = [c for x in n.body for c in ast.walk(x) if isinstance(c, ast.Call) and dotted(c.func).endswith("convert_version")]
                    out += [("convert-call", ast.unparse(c)) for c in conv]
                    # every other statement of the conversion branch that is a bare call (a step applied to the
                    # converted model) - and the normalised text of the helper it calls
                    for x in n.body:
                        if isinstance(x, ast.Expr) and isinstance(x.value, ast.Call):
                            out.append(("convert-step", ast.unparse(x.value)))
                            callee = dotted(x.value.func)
                            helper = next((f for f in mod.body if isinstance(f, ast.FunctionDef) and f.name == callee), None)
                            if helper is not None:
                                if helper.body and isinstance(helper.body[0], ast.Expr) and isinstance(helper.body[0].value, ast.Constant):
                                    helper.body = helper.body[1:]
                                out.append((f"helper:{callee}", ast.unparse(helper)))
            if isinstance(n, ast.Return):
                n_ret += 1
                if isinstance(n.value, ast.Name) and n.value.id == protos:
                    out.append(("return-unconverted", "line-order " + str(sum(1 for a, _ in out if a == "return-unconverted"))))
        out.append(("returns", str(n_ret)))
        out.append(("loops-or-nested-defs", str(sum(isinstance(n, (ast.For, ast.While, ast.FunctionDef, ast.Lambda)) for n in ast.walk(fn)) - 1)))
        return out, ""
    except Exception as e:  # noqa: BLE001
        return [("opaque", f"{type(e).__name__}")], f"{type(e).__name__}: {e}"


def inline_members() -> list:
    try:
        out = []
        mod = parse("src/spox/_inline.py")
        cls = next(n for n in mod.body if isinstance(n, ast.ClassDef) and n.name == "_Inline")
        out.append("bases:" + ",".join(ast.unparse(b) for b in cls.bases))
        for n in cls.body:
            if isinstance(n, (ast.FunctionDef, ast.AsyncFunctionDef)):
                deco = ",".join(ast.unparse(d) for d in n.decorator_list)
                out.append(f"def:{n.name}" + (f"@{deco}" if deco else ""))
                me = n.args.args[0].arg if n.args.args else "self"
                for w in ast.walk(n):
                    if isinstance(w, ast.Attribute) and isinstance(w.ctx, (ast.Store, ast.Del)) and isinstance(w.value, ast.Name) and w.value.id == me:
                        out.append(f"write:{n.name}:{w.attr}")
                    if isinstance(w, ast.Call) and dotted(w.func) in ("setattr", "object.__setattr__", "delattr"):
                        out.append(f"write:{n.name}:<setattr>")
            elif isinstance(n, ast.ClassDef):
                out.append(f"class:{n.name}")
            elif isinstance(n, ast.AnnAssign) and isinstance(n.target, ast.Name):
                out.append(f"attr:{n.target.id}" + ("=" if n.value is not None else ""))
            elif isinstance(n, ast.Assign):
                out += [f"attr:{t.id}=" for t in n.targets if isinstance(t, ast.Name)]
            elif not (isinstance(n, ast.Expr) and isinstance(n.value, ast.Constant)):
                out.append("stmt:" + type(n).__name__)
        amod = parse("src/spox/_adapt.py")
        fn = next(f for f in amod.body if isinstance(f, ast.FunctionDef) and f.name == "adapt_inline")
        me = fn.args.args[0].arg
        for w in ast.walk(fn):
            if isinstance(w, ast.Attribute) and isinstance(w.ctx, (ast.Store, ast.Del)) and isinstance(w.value, ast.Name) and w.value.id == me:
                out.append(f"write:adapt_inline:{w.attr}")
            if isinstance(w, ast.Call) and dotted(w.func) in ("setattr", "object.__setattr__", "delattr"):
                out.append("write:adapt_inline:<setattr>")
        return sorted(set(out))
    except Exception as e:  # noqa: BLE001
        return [f"opaque:{type(e).__name__}"]


COVERED = [("src/spox/_adapt.py", "adapt_inline"), ("src/spox/_inline.py", "rename_in_graph"), ("src/spox/_inline.py", "_Inline"),
           ("src/spox/_public.py", "inline"), ("src/spox/_public.py", "_copy_model")]


def source_hashes() -> dict:
    """sha1 of the normalised AST (docstrings dropped) of every function / class the C08 model transcribes.
    Not an obligation (harmless rewrites change it): the harness escalates its counts when one differs
    from the committed baseline."""
    import hashlib

    out = {}
    for path, name in COVERED:
        try:
            mod = parse(path)
            node = next(n for n in mod.body if isinstance(n, (ast.FunctionDef, ast.ClassDef)) and n.name == name)
            for n in ast.walk(node):
                if isinstance(n, (ast.FunctionDef, ast.ClassDef)) and n.body and isinstance(n.body[0], ast.Expr) \
                        and isinstance(n.body[0].value, ast.Constant) and isinstance(n.body[0].value.value, str):
                    n.body = n.body[1:] or [ast.Pass()]
            out[f"{path}:{name}"] = hashlib.sha1(ast.dump(node).encode()).hexdigest()[:16]
        except Exception as e:  # noqa: BLE001
            out[f"{path}:{name}"] = f"unreadable:{type(e).__name__}"
    return out


def _touches_field(node: ast.AST, obj: str, field: str) -> bool:
    return any(
        isinstance(n, ast.Attribute) and n.attr == field and isinstance(n.value, ast.Name) and n.value.id == obj
        for n in ast.walk(node)
    )


def swap_ir():
    """IR of `adapt_inline` w.r.t. the field `node.model` (first parameter's `.model`)."""
    try:
        mod = parse("src/spox/_adapt.py")
        fn = next((f for f in mod.body if isinstance(f, ast.FunctionDef) and f.name == "adapt_inline"), None)
        if fn is None or not fn.args.args:
            raise LookupError("no function `adapt_inline(node, ...)` in src/spox/_adapt.py")
        obj = fn.args.args[0].arg
        saved: set = set()

        def stmt(s: ast.stmt) -> str:
            if isinstance(s, ast.Try):
                if s.handlers or s.orelse:
                    return ".opaque"
                return f".tryFinally {block(s.body)} {block(s.finalbody)}"
            if isinstance(s, ast.If):
                # both arms are executed "in sequence" conservatively: any touch inside counts
                inner = [stmt(x) for x in s.body + s.orelse]
                if all(x == ".other" for x in inner):
                    return ".other"
                if not s.orelse:
                    return "@" + block(s.body)  # spliced by the caller (the conversion branch)
                return ".opaque"
            if isinstance(s, ast.Assign) and len(s.targets) == 1:
                t, v = s.targets[0], s.value
                if isinstance(t, ast.Name) and isinstance(v, ast.Attribute) and v.attr == "model" \
                        and isinstance(v.value, ast.Name) and v.value.id == obj:
                    saved.add(t.id)
                    return ".saveBase"
                if isinstance(t, ast.Attribute) and t.attr == "model" and isinstance(t.value, ast.Name) and t.value.id == obj:
                    if isinstance(v, ast.Name) and v.id in saved:
                        return ".restoreBase"
                    if isinstance(v, ast.Name):
                        return ".setTarget"
                    return ".opaque"
                if _touches_field(t, obj, "model"):
                    return ".opaque"
                if any(isinstance(c, ast.Call) and isinstance(c.func, ast.Attribute) and c.func.attr == "to_onnx"
                       and isinstance(c.func.value, ast.Name) and c.func.value.id == obj for c in ast.walk(v)):
                    return ".emit"
                return ".other"
            if isinstance(s, (ast.Delete, ast.AugAssign, ast.AnnAssign)) and _touches_field(s, obj, "model"):
                return ".opaque"
            if isinstance(s, (ast.With, ast.For, ast.While)) and _touches_field(s, obj, "model"):
                return ".opaque"
            return ".other"

        def block(body) -> str:
            out = []
            for s in body:
                if isinstance(s, ast.Expr) and isinstance(s.value, ast.Constant):
                    continue
                x = stmt(s)
                if x.startswith("@"):
                    out.append(x[1:].strip("[]"))
                else:
                    out.append(x)
            return "[" + ", ".join(o for o in out if o) + "]"

        return block(fn.body), ""
    except Exception as e:  # noqa: BLE001
        return "[.opaque]", f"{type(e).__name__}: {e}"


if __name__ == "__main__":
    print(generate())
