"""Structural facts about the build path that no generated input can establish (C03, C12).

`Generated/FrontFacts.lean`:
  * `recursive`  — every function of the hand-written modules on the build path that calls itself
                   (by its own name, or `self.<its name>`), directly or from a function nested in it:
                   [file, qualified name]. Recursion along *subgraph nesting* is bounded by the nesting
                   depth of the program; recursion along *dependency edges* is not (a chain of a few
                   thousand operators is an ordinary model), so the Lean side lists the accepted ones.
  * `introFacts` — (name, holds?) facts that make "`Builder.get_intro_results` renames only Vars it has
                   just created" true:
                     intros_returns_fresh_outputs   the body of `_internal_op.intros` is a single
                                                    `return _Introduce(...).outputs.outputs`
                     intro_results_from_intros      in `get_intro_results` the renamed loop variable
                                                    ranges over `intros(*request_results.values())`
                     intro_uses_intros              `intro` returns an element of `intros(*args)`
                     unsafe_cast_writes_fresh       `unsafe_cast` assigns `.type` only on `y = intro(x)`
  * `processDependent` — every call, anywhere in `src/spox/_*.py`, of something whose result differs from
                   one interpreter to the next: `hash()` (strings are salted per process), `id()`, `random.*`,
                   `uuid.*`, `time.*`, `datetime.*`, `secrets.*`, `os.urandom/getpid`, `tempfile.*`,
                   `object.__hash__/__repr__`: [file, qualified function, callee]. Must be empty: names and
                   bytes of a built model may not depend on any of them.
  * `converterFacts` — (name, holds?): `_adapt._initializers_to_constants(graph)` rewrites the graph it is given in
                   place (`del graph.initializer[:]`, `del graph.node[:]`, `graph.node.extend`). That is pure only
                   if every caller hands it a message nobody else holds:
                     helper_called_only_on_converter_output   every call in `src/spox/_*.py` has the argument
                         `<v>.graph` where `<v>` is assigned exactly once in the calling function, from
                         `onnx.version_converter.convert_version(...)` (which returns a new ModelProto)
                     helper_has_a_caller                       (so the fact above is not vacuous)
                     helper_writes_only_its_parameter          every attribute write / mutator call in the helper
                         is rooted at its parameter or at a local
Anything unreadable degrades to an entry whose obligation fails.
"""
import ast

from .common import GEN, HEADER, REPO, dotted, lean_bool, lean_list, lean_str, write_if_changed
from .writes import MUTATORS

FILES = ["_traverse.py", "_build.py", "_graph.py", "_scope.py", "_public.py", "_node.py", "_internal_op.py",
         "_standard.py", "_inline.py", "_adapt.py", "_var.py", "_fields.py"]


def _calls_of(fn):
    """Names called anywhere inside `fn` (nested functions included): `f(...)` -> f, `self.f(...)` -> f."""
    out = set()
    for n in ast.walk(fn):
        if isinstance(n, ast.Call):
            if isinstance(n.func, ast.Name):
                out.add(n.func.id)
            elif isinstance(n.func, ast.Attribute) and isinstance(n.func.value, ast.Name) and n.func.value.id in ("self", "cls"):
                out.add(n.func.attr)
    return out


def extract_recursive():
    rows = []
    for name in FILES:
        path = REPO / "src" / "spox" / name
        try:
            mod = ast.parse(path.read_text())
        except Exception as e:  # noqa: BLE001
            rows.append([name, "<unreadable:" + type(e).__name__ + ">"])
            continue

        def rec(node, stack):
            for ch in ast.iter_child_nodes(node):
                if isinstance(ch, (ast.FunctionDef, ast.AsyncFunctionDef)):
                    if ch.name in _calls_of(ch):
                        rows.append([name, ".".join(stack + [ch.name])])
                    rec(ch, stack + [ch.name])
                elif isinstance(ch, ast.ClassDef):
                    rec(ch, stack + [ch.name])
                else:
                    rec(ch, stack)

        rec(mod, [])
    return rows


PROCESS_DEPENDENT = {"hash", "id", "object.__hash__", "object.__repr__", "os.urandom", "os.getpid", "os.times"}
PROCESS_DEPENDENT_MODULES = ("random.", "uuid.", "time.", "datetime.", "secrets.", "tempfile.", "np.random.", "numpy.random.")


def extract_process_dependent():
    rows = []
    for path in sorted((REPO / "src" / "spox").glob("_*.py")):
        if path.name in ("__init__.py", "_version.py"):
            continue
        try:
            mod = ast.parse(path.read_text())
        except Exception as e:  # noqa: BLE001
            rows.append([path.name, "<module>", "<unreadable:" + type(e).__name__ + ">"])
            continue

        def rec(node, stack):
            for ch in ast.iter_child_nodes(node):
                if isinstance(ch, (ast.FunctionDef, ast.AsyncFunctionDef, ast.ClassDef)):
                    rec(ch, stack + [ch.name])
                    continue
                if isinstance(ch, ast.Call):
                    nm = dotted(ch.func) or ""
                    if nm in PROCESS_DEPENDENT or nm.startswith(PROCESS_DEPENDENT_MODULES):
                        rows.append([path.name, ".".join(stack) or "<module>", nm])
                rec(ch, stack)

        rec(mod, [])
    return rows


SET_ITER_FILES = ("_public.py", "_inline.py")
_SET_METHODS = ("union", "intersection", "difference", "symmetric_difference")


def extract_set_iterations():
    """Every place in `_public.py` / `_inline.py` (build, inline and what an inlined model goes through) where an
    ORDER is taken from a set: a `for` / comprehension over, or list()/tuple()/str.join()/`*`-splat of, a set
    literal / set comprehension / `set(...)` / `frozenset(...)` / `a - b`, `a | b`, `a & b`, `a ^ b` with a set or a
    dict view (`.keys()`, `.items()`) on one side / `.union(...)` etc. / a local assigned from one of those.
    `sorted(...)` of a set is not a site. Rows: [file, qualified function, source of the iterable]."""
    rows = []
    for fname in SET_ITER_FILES:
        path = REPO / "src" / "spox" / fname
        try:
            mod = ast.parse(path.read_text())
        except Exception as e:  # noqa: BLE001
            rows.append([fname, "<module>", "<unreadable:" + type(e).__name__ + ">"])
            continue

        def scan(fn_node, qual):
            setvars = set()

            def view(e):
                return isinstance(e, ast.Call) and isinstance(e.func, ast.Attribute) and e.func.attr in ("keys", "items")

            def setlike(e):
                if isinstance(e, (ast.Set, ast.SetComp)):
                    return True
                if isinstance(e, ast.NamedExpr):
                    return setlike(e.value)
                if isinstance(e, ast.Name):
                    return e.id in setvars
                if isinstance(e, ast.Call):
                    nm = dotted(e.func) or ""
                    if nm in ("set", "frozenset"):
                        return True
                    if isinstance(e.func, ast.Attribute) and e.func.attr in _SET_METHODS:
                        return True
                    return False
                if isinstance(e, ast.BinOp) and isinstance(e.op, (ast.Sub, ast.BitOr, ast.BitAnd, ast.BitXor)):
                    return setlike(e.left) or setlike(e.right) or view(e.left) or view(e.right)
                return False

            own = [n for n in ast.walk(fn_node)]
            for _ in range(2):  # locals assigned from set expressions (two passes: chains)
                for n in own:
                    if isinstance(n, ast.Assign) and setlike(n.value):
                        setvars.update(t.id for t in n.targets if isinstance(t, ast.Name))
                    if isinstance(n, ast.AnnAssign) and n.value is not None and setlike(n.value) and isinstance(n.target, ast.Name):
                        setvars.add(n.target.id)
                    if isinstance(n, ast.NamedExpr) and setlike(n.value):
                        setvars.add(n.target.id)
            for n in own:
                its = []
                if isinstance(n, (ast.For, ast.AsyncFor)):
                    its.append(n.iter)
                if isinstance(n, (ast.ListComp, ast.GeneratorExp, ast.DictComp)):
                    its += [g.iter for g in n.generators]
                if isinstance(n, ast.Call):
                    nm = dotted(n.func) or ""
                    if nm in ("list", "tuple", "enumerate", "iter", "next", "zip") or nm.endswith(".join") or nm.endswith(".extend"):
                        its += list(n.args)
                    its += [a.value for a in n.args if isinstance(a, ast.Starred)]
                for it in its:
                    if setlike(it):
                        rows.append([fname, qual, ast.unparse(it)])

        for top in mod.body:
            if isinstance(top, (ast.FunctionDef, ast.AsyncFunctionDef)):
                scan(top, top.name)
            elif isinstance(top, ast.ClassDef):
                for m in top.body:
                    if isinstance(m, (ast.FunctionDef, ast.AsyncFunctionDef)):
                        scan(m, top.name + "." + m.name)
    return sorted(map(list, {tuple(r) for r in rows}))


def _func(mod, qual):
    cur, node = mod.body, None
    for part in qual.split("."):
        node = next((n for n in cur if isinstance(n, (ast.FunctionDef, ast.ClassDef)) and n.name == part), None)
        if node is None:
            return None
        cur = node.body
    return node


def _body(fn):
    return [s for s in fn.body if not (isinstance(s, ast.Expr) and isinstance(s.value, ast.Constant))]


def extract_intro_facts():
    facts = {"intros_returns_fresh_outputs": False, "intro_results_from_intros": False,
             "intro_uses_intros": False, "unsafe_cast_writes_fresh": False}
    try:
        io = ast.parse((REPO / "src/spox/_internal_op.py").read_text())
        fn = _func(io, "intros")
        if fn is not None:
            b = _body(fn)
            if len(b) == 1 and isinstance(b[0], ast.Return) and b[0].value is not None:
                v = b[0].value
                # _Introduce(<...>).outputs.outputs
                if (isinstance(v, ast.Attribute) and v.attr == "outputs" and isinstance(v.value, ast.Attribute)
                        and v.value.attr == "outputs" and isinstance(v.value.value, ast.Call)
                        and dotted(v.value.value.func) == "_Introduce"):
                    facts["intros_returns_fresh_outputs"] = True
        fn = _func(io, "intro")
        if fn is not None:
            b = _body(fn)
            if len(b) == 1 and isinstance(b[0], ast.Return) and ast.unparse(b[0].value) in ("intros(*args)[-1]",):
                facts["intro_uses_intros"] = True
        fn = _func(io, "unsafe_cast")
        if fn is not None:
            b = [ast.unparse(s) for s in _body(fn)]
            if b and b[0] == "y = intro(x)" and b[-1] == "return y" and all(
                    s.startswith(("y.type = ", "y._value = ", "if ", "y = intro(x)", "return y")) for s in b):
                facts["unsafe_cast_writes_fresh"] = True
        bl = ast.parse((REPO / "src/spox/_build.py").read_text())
        fn = _func(bl, "Builder.get_intro_results")
        if fn is not None:
            src = [ast.unparse(s) for s in _body(fn)]
            param = fn.args.args[0].arg if fn.args.args else "request_results"
            ok_assign = any(s in (f"vars = list(intros(*{param}.values()))", f"vars = intros(*{param}.values())") for s in src)
            renames = [n for n in ast.walk(fn) if isinstance(n, ast.Call) and isinstance(n.func, ast.Attribute) and n.func.attr == "_rename"]
            loops = [n for n in ast.walk(fn) if isinstance(n, ast.For) and ast.unparse(n.iter) == f"zip({param}, vars)"
                     and ast.unparse(n.target) == "(key, var)"]
            inside = all(any(r in ast.walk(lp) for lp in loops) and ast.unparse(r.func.value) == "var" for r in renames)
            if ok_assign and renames and inside and src[-1] == "return vars":
                facts["intro_results_from_intros"] = True
    except Exception:  # noqa: BLE001
        pass
    return facts


def extract_converter_facts():
    facts = {"helper_called_only_on_converter_output": False, "helper_has_a_caller": False,
             "helper_writes_only_its_parameter": False}
    helper = "_initializers_to_constants"
    try:
        calls, good = 0, 0
        for path in sorted((REPO / "src" / "spox").glob("_*.py")):
            mod = ast.parse(path.read_text())
            for fn in [n for n in ast.walk(mod) if isinstance(n, (ast.FunctionDef, ast.AsyncFunctionDef))]:
                for c in [n for n in ast.walk(fn) if isinstance(n, ast.Call) and (dotted(n.func) or "").split(".")[-1] == helper]:
                    calls += 1
                    a = c.args[0] if len(c.args) == 1 and not c.keywords else None
                    if not (isinstance(a, ast.Attribute) and a.attr == "graph" and isinstance(a.value, ast.Name)):
                        continue
                    v = a.value.id
                    assigns = [n for n in ast.walk(fn) if isinstance(n, (ast.Assign, ast.AnnAssign, ast.AugAssign, ast.NamedExpr))
                               and any(isinstance(t, ast.Name) and t.id == v for t in ast.walk(
                                   n.targets[0] if isinstance(n, ast.Assign) else n.target))]
                    params = {x.arg for x in fn.args.args + fn.args.kwonlyargs + fn.args.posonlyargs}
                    if (len(assigns) == 1 and isinstance(assigns[0], ast.Assign) and len(assigns[0].targets) == 1
                            and isinstance(assigns[0].targets[0], ast.Name) and isinstance(assigns[0].value, ast.Call)
                            and dotted(assigns[0].value.func) == "onnx.version_converter.convert_version" and v not in params):
                        good += 1
            if path.name == "_adapt.py":
                h = next((n for n in mod.body if isinstance(n, ast.FunctionDef) and n.name == helper), None)
                if h is not None and len(h.args.args) == 1:
                    prm = h.args.args[0].arg
                    local = {n.id for n in ast.walk(h) if isinstance(n, ast.Name) and isinstance(n.ctx, ast.Store)}
                    ok = True
                    for n in ast.walk(h):
                        tg = []
                        if isinstance(n, (ast.Assign, ast.Delete)):
                            tg = n.targets
                        elif isinstance(n, (ast.AugAssign, ast.AnnAssign)):
                            tg = [n.target]
                        elif (isinstance(n, ast.Call) and isinstance(n.func, ast.Attribute) and n.func.attr in MUTATORS
                              and isinstance(n.func.value, (ast.Attribute, ast.Subscript))):
                            tg = [n.func.value]
                        for t in tg:
                            b = t
                            while isinstance(b, (ast.Attribute, ast.Subscript)):
                                b = b.value
                            if isinstance(t, (ast.Attribute, ast.Subscript)) and not (isinstance(b, ast.Name) and (b.id == prm or b.id in local)):
                                ok = False
                    facts["helper_writes_only_its_parameter"] = ok
        facts["helper_has_a_caller"] = calls > 0
        facts["helper_called_only_on_converter_output"] = calls > 0 and good == calls
    except Exception:  # noqa: BLE001
        pass
    return facts


def generate() -> dict:
    rec = extract_recursive()
    facts = extract_intro_facts()
    conv = extract_converter_facts()
    try:
        pdep = extract_process_dependent()
    except Exception as e:  # noqa: BLE001
        pdep = [["<unreadable>", type(e).__name__, "?"]]
    try:
        setit = extract_set_iterations()
    except Exception as e:  # noqa: BLE001
        setit = [["<unreadable>", type(e).__name__, "?"]]
    text = "\n".join([
        HEADER.format(src="src/spox/_*.py", tool="translator/front_facts.py"),
        "namespace Generated.FrontFacts\n",
        "def recursive : List (String × String) := " + lean_list(
            ["(" + lean_str(a) + ", " + lean_str(b) + ")" for a, b in rec]) + "\n",
        "def introFacts : List (String × Bool) := " + lean_list(
            ["(" + lean_str(k) + ", " + lean_bool(v) + ")" for k, v in facts.items()]) + "\n",
        "def converterFacts : List (String × Bool) := " + lean_list(
            ["(" + lean_str(k) + ", " + lean_bool(v) + ")" for k, v in conv.items()]) + "\n",
        "def processDependent : List (String × String × String) := " + lean_list(
            ["(" + ", ".join(lean_str(x) for x in r) + ")" for r in pdep]) + "\n",
        "def setIterations : List (String × String × String) := " + lean_list(
            ["(" + ", ".join(lean_str(x) for x in r) + ")" for r in setit]) + "\n",
        "end Generated.FrontFacts\n",
    ])
    write_if_changed(GEN / "FrontFacts.lean", text)
    return {"recursive": rec, "intro_facts": facts, "process_dependent": pdep, "converter_facts": conv, "set_iterations": setit}


if __name__ == "__main__":
    import json
    print(json.dumps(generate(), indent=1))
