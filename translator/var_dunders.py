"""The wiring between Python's operator protocol and the operator dispatcher (C17, tie G)
-> Generated/VarDunders.lean.

`Model/Dispatch.lean` describes the dispatcher *methods* (`add(a, b)` ...). That `a - b` reaches `sub(a, b)`
and `2 - b` reaches `sub(2, b)` is the wiring in `Var` (`__sub__` / `__rsub__`); it is read here from the
class body, statement by statement:

    def __X__(self[, other]): return Var._operator_dispatcher.<method>(<self|other>[, <self|other>])

Every operator dunder (binary, reflected, in-place, unary, comparison, conversion) that `Var` defines is
listed: one the table does not explain (another shape of body, an extra statement such as an early shape
check, a new dunder like `__pow__` or `__iadd__`) is listed as `opaque` and fails `C17.var_dunders_wired`.
Also listed: the methods of the two dispatcher classes (a method the model does not describe fails the
obligation), and normalised-AST digests of every covered function (compared with a committed baseline by
the harness; a difference escalates the counts of the run, it is not an obligation).
"""
import ast
import hashlib

from .common import GEN, HEADER, dotted, lean_bool, lean_list, lean_str, parse, write_if_changed

OPERATOR_DUNDERS = {
    f"__{p}{n}__" for n in ["add", "sub", "mul", "truediv", "floordiv", "mod", "pow", "matmul", "and", "or", "xor",
                             "lshift", "rshift", "divmod"] for p in ["", "r", "i"]
} | {"__neg__", "__pos__", "__invert__", "__abs__", "__lt__", "__le__", "__gt__", "__ge__", "__eq__", "__ne__",
     "__bool__", "__int__", "__float__", "__index__", "__round__", "__floor__", "__ceil__", "__trunc__", "__getitem__",
     "__len__", "__iter__", "__contains__", "__array__", "__array_ufunc__", "__array_function__", "__hash__"}


def _strip_doc(body):
    if body and isinstance(body[0], ast.Expr) and isinstance(body[0].value, ast.Constant) and isinstance(body[0].value.value, str):
        return body[1:]
    return body


def _digest(fn):
    import copy

    node = copy.deepcopy(fn)
    node.body = _strip_doc(node.body) or [ast.Pass()]
    node.returns = None
    for a in node.args.args + node.args.kwonlyargs + node.args.posonlyargs + [x for x in (node.args.vararg, node.args.kwarg) if x]:
        a.annotation = None
    return hashlib.sha256(ast.dump(node, annotate_fields=False, include_attributes=False).encode()).hexdigest()[:16]


def _wire(fn: ast.FunctionDef, disp_attr="_operator_dispatcher"):
    """-> (method, [argument roles]) or None if the body is not a bare delegation."""
    body = _strip_doc(fn.body)
    params = [a.arg for a in fn.args.args]
    if len(body) != 1 or not isinstance(body[0], ast.Return) or not isinstance(body[0].value, ast.Call):
        return None
    call = body[0].value
    if call.keywords or fn.args.vararg or fn.args.kwarg or fn.args.kwonlyargs or fn.decorator_list:
        return None
    f = dotted(call.func) or ""
    parts = f.split(".")
    if len(parts) != 3 or parts[0] != "Var" or parts[1] != disp_attr:
        return None
    roles = []
    for a in call.args:
        if not isinstance(a, ast.Name) or a.id not in params:
            return None
        roles.append("self" if a.id == params[0] else "other")
    if len(params) not in (1, 2) or len(roles) != len(params):
        return None
    return parts[2], roles


def scan():
    var_mod = parse("src/spox/_var.py")
    fut_mod = parse("src/spox/_future.py")
    dunders, digests, disp = [], {}, {}
    for cls in var_mod.body:
        if isinstance(cls, ast.ClassDef) and cls.name == "Var":
            for st in cls.body:
                if isinstance(st, (ast.FunctionDef, ast.AsyncFunctionDef)) and st.name in OPERATOR_DUNDERS:
                    w = _wire(st) if isinstance(st, ast.FunctionDef) else None
                    if st.name in ("__hash__", "__eq__") and w is None:
                        w = ("<identity>", [])  # not an operator of the statement; recorded, not wired
                    digests[f"Var.{st.name}"] = _digest(st)
                    if w is None:
                        dunders.append((st.name, "opaque", False, 0))
                    else:
                        m, roles = w
                        dunders.append((st.name, m, roles[:1] == ["other"], len(roles)))
                elif isinstance(st, ast.Assign):
                    for t in st.targets:
                        if isinstance(t, ast.Name) and t.id in OPERATOR_DUNDERS:
                            dunders.append((t.id, "opaque", False, 0))
        if isinstance(cls, ast.ClassDef) and cls.name == "NotImplementedOperatorDispatcher":
            names = []
            for st in cls.body:
                if isinstance(st, ast.FunctionDef):
                    names.append(st.name)
                    digests[f"{cls.name}.{st.name}"] = _digest(st)
                elif isinstance(st, ast.Assign):
                    src = dotted(st.value) or "?"
                    for t in st.targets:
                        if isinstance(t, ast.Name):
                            names.append(f"{t.id}={src}")
            disp[cls.name] = sorted(names)
    for cls in fut_mod.body:
        if isinstance(cls, ast.ClassDef) and cls.name == "_NumpyLikeOperatorDispatcher":
            names = []
            for st in cls.body:
                if isinstance(st, ast.FunctionDef):
                    names.append(st.name + "".join("@" + ast.unparse(d) for d in st.decorator_list))
                    digests[f"{cls.name}.{st.name}"] = _digest(st)
                else:
                    names.append("<statement>")
            disp[cls.name] = sorted(names)
            # instance state of the dispatcher (round 10): every `self.<attr>` that is assigned / augmented / deleted
            # anywhere in the class - a new attribute (a cache, a memo table) changes this list
            attrs = set()
            for node in ast.walk(cls):
                if isinstance(node, ast.Attribute) and isinstance(node.value, ast.Name) and node.value.id == "self" \
                        and isinstance(node.ctx, (ast.Store, ast.Del)):
                    attrs.add(node.attr)
            disp["_NumpyLikeOperatorDispatcher.attrs"] = sorted(attrs)
    return sorted(dunders), disp, digests


def generate() -> dict:
    try:
        dunders, disp, digests = scan()
    except Exception as e:  # noqa: BLE001
        dunders, disp, digests = [("<unparsable>", "opaque", False, 0)], {}, {"error": f"{type(e).__name__}: {e}"}
    lines = [HEADER.format(src="src/spox/_var.py, src/spox/_future.py", tool="translator/var_dunders.py"),
             "namespace Generated.VarDunders\n",
             "/-- `Var.<dunder>` delegates to `Var._operator_dispatcher.<method>`; `swapped`: the call is `(other, self)`;\n    `arity`: number of operands passed. `method = \"opaque\"`: the body is not a bare delegation. -/",
             "structure Wire where\n  dunder : String\n  method : String\n  swapped : Bool\n  arity : Nat\nderiving DecidableEq, Repr\n",
             "def wires : List Wire := [\n  " + ",\n  ".join(
                 f"⟨{lean_str(d)}, {lean_str(m)}, {lean_bool(sw)}, {ar}⟩" for d, m, sw, ar in dunders) + "]\n",
             "/-- methods (and aliases `name=target`) defined by the two dispatcher classes -/",
             f"def defaultDispatcher : List String := {lean_list([lean_str(x) for x in disp.get('NotImplementedOperatorDispatcher', ['<missing>'])])}",
             f"def numpyDispatcher : List String := {lean_list([lean_str(x) for x in disp.get('_NumpyLikeOperatorDispatcher', ['<missing>'])])}\n",
             "/-- instance attributes the numpy-like dispatcher ever assigns (`self.<attr> = ...` anywhere in the class) -/",
             f"def numpyDispatcherAttrs : List String := {lean_list([lean_str(x) for x in disp.get('_NumpyLikeOperatorDispatcher.attrs', ['<missing>'])])}\n",
             "end Generated.VarDunders\n"]
    write_if_changed(GEN / "VarDunders.lean", "\n".join(lines))
    return {"wires": [list(d) for d in dunders], "dispatchers": disp, "digests": digests}


if __name__ == "__main__":
    import json
    print(json.dumps(generate(), indent=1))
