"""Tie G for C05: every class under src/spox/opset/** that overrides `infer_output_types` /
`propagate_values` (AST), with its op_type and whether the override runs the standard ONNX routine.
-> lean/SpoxModel/Generated/C05Overrides.lean. Anything not understood becomes an entry that cannot
match the model's table (the obligation then fails), never an exception."""
import ast

from translator.common import GEN, HEADER, REPO, lean_str, write_if_changed


def _op_type(cls: ast.ClassDef):
    for st in cls.body:
        if isinstance(st, ast.Assign) and any(isinstance(t, ast.Name) and t.id == "op_type" for t in st.targets):
            v = st.value
            if isinstance(v, ast.Call) and len(v.args) == 3 and all(isinstance(a, ast.Constant) for a in v.args):
                n, d, ver = (a.value for a in v.args)
                if isinstance(n, str) and isinstance(d, str) and isinstance(ver, int):
                    return d, n, ver
    return None


def _calls_standard(fn: ast.FunctionDef) -> bool:
    for node in ast.walk(fn):
        if isinstance(node, ast.Call) and isinstance(node.func, ast.Attribute):
            if node.func.attr == "infer_output_types_onnx":
                return True
            if node.func.attr == "infer_output_types" and isinstance(node.func.value, ast.Call) \
                    and isinstance(node.func.value.func, ast.Name) and node.func.value.func.id == "super":
                return True
    return False


def scan():
    rows = []
    root = REPO / "src" / "spox" / "opset"
    for p in sorted(root.rglob("*.py")):
        rel = str(p.relative_to(REPO))
        try:
            tree = ast.parse(p.read_text(), filename=rel)
        except SyntaxError:
            rows.append({"file": rel, "cls": "?", "key": ("?", "unparsable:" + rel, 0), "infer": True, "prop": True, "std": False})
            continue
        for cls in ast.walk(tree):
            if not isinstance(cls, ast.ClassDef):
                continue
            fns = {st.name: st for st in cls.body if isinstance(st, (ast.FunctionDef, ast.AsyncFunctionDef))}
            inf, prop = "infer_output_types" in fns, "propagate_values" in fns
            if not (inf or prop):
                continue
            key = _op_type(cls) or ("?", cls.name, 0)
            rows.append({"file": rel, "cls": cls.name, "key": key, "infer": inf, "prop": prop,
                         "std": bool(inf and _calls_standard(fns["infer_output_types"]))})
    return rows


def generate():
    rows = scan()
    uniq = {}
    for r in rows:  # the same operator class text may be shipped by several modules
        k = (r["key"], r["infer"], r["prop"], r["std"])
        uniq.setdefault(k, r)
    ent = sorted(uniq)
    lines = [HEADER.format(src="src/spox/opset/**", tool="translator/c05_overrides.py"),
             "/-! Classes of the shipped opset modules that override `infer_output_types` / `propagate_values`:",
             "    (domain, operator, since_version, overrides inference, overrides value propagation, the",
             "    inference override runs the standard ONNX routine first). -/",
             "namespace Generated.C05Overrides", "",
             "def overrides : List (String × String × Nat × Bool × Bool × Bool) := ["]
    body = []
    for (d, n, v), inf, prop, std in ent:
        body.append(f"  ({lean_str(d)}, {lean_str(n)}, {v}, {str(inf).lower()}, {str(prop).lower()}, {str(std).lower()})")
    lines.append(",\n".join(body))
    lines += ["]", "", "end Generated.C05Overrides", ""]
    write_if_changed(GEN / "C05Overrides.lean", "\n".join(lines))
    return {"rows": rows,
            "inference": sorted({tuple(r["key"]) for r in rows if r["infer"]}),
            "propagation": sorted({tuple(r["key"]) for r in rows if r["prop"]}),
            "standard_first": sorted({tuple(r["key"]) for r in rows if r["std"]})}


# ---------------------------------------------------------------- inventory of the modelled code
# The functions whose behaviour Model/Singleton.lean writes down (qualified name per file). Their
# normalised-AST hashes are compared with a committed baseline on every run: a difference does not
# fail anything (a rewrite may be harmless) but escalates the run to larger counts and is listed in
# the evidence; a function that is not found any more is listed as `missing`.
COVERED = {
    "src/spox/_standard.py": ["StandardNode.to_singleton_onnx_model", "StandardNode.infer_output_types_onnx",
                              "StandardNode.infer_output_types", "_strip_dim_symbol_shape", "_strip_dim_symbol", "_dim_symbols",
                              "_make_dummy_subgraph"],
    "src/spox/_node.py": ["Node.__init__", "Node.inference", "Node.to_onnx", "Node._init_output_vars", "Node.min_input", "Node.min_output"],
    "src/spox/_fields.py": ["BaseVars.__post_init__", "BaseVars._get_field_type", "BaseVars._flatten", "BaseVars.get_vars", "BaseVars.fully_typed"],
    "src/spox/_type_system.py": ["Type._from_onnx", "Tensor._to_onnx", "Tensor.shape", "Sequence._to_onnx", "Optional._to_onnx"],
    "src/spox/_shape.py": ["Natural.from_simple", "Natural.simple_from_onnx", "Natural.from_onnx", "Unknown.to_simple",
                           "Constant.to_simple", "Shape.from_simple", "Shape.from_onnx", "Shape.to_simple"],
    "src/spox/opset/ai/onnx/v17.py": ["_Compress.infer_output_types", "_Loop.infer_output_types"],
}


def _strip_doc(fn):
    body = fn.body
    if body and isinstance(body[0], ast.Expr) and isinstance(getattr(body[0], "value", None), ast.Constant) and isinstance(body[0].value.value, str):
        fn = ast.FunctionDef(name=fn.name, args=fn.args, body=body[1:] or [ast.Pass()], decorator_list=fn.decorator_list,
                             returns=None, type_comment=None)
    return fn


def covered_hashes() -> dict:
    """{"file:Qual.name": sha1[:12] of the normalised AST (no docstring, no positions, no annotations
    of the return type) | "missing" | "unparsable"}"""
    import hashlib

    out = {}
    for rel, names in COVERED.items():
        try:
            tree = ast.parse((REPO / rel).read_text(), filename=rel)
        except (SyntaxError, OSError):
            for n in names:
                out[f"{rel}:{n}"] = "unparsable"
            continue
        found = {}
        for node in tree.body:
            if isinstance(node, (ast.FunctionDef, ast.AsyncFunctionDef)):
                found[node.name] = node
            elif isinstance(node, ast.ClassDef):
                for st in node.body:
                    if isinstance(st, (ast.FunctionDef, ast.AsyncFunctionDef)):
                        found.setdefault(f"{node.name}.{st.name}", st)
        for n in names:
            fn = found.get(n)
            out[f"{rel}:{n}"] = "missing" if fn is None else hashlib.sha1(
                ast.dump(_strip_doc(fn), annotate_fields=False, include_attributes=False).encode()).hexdigest()[:12]
    return out


if __name__ == "__main__":
    import json
    import sys
    if "--baseline" in sys.argv:  # refresh harness/c05_source_baseline.json after validating the check on this tree
        from pathlib import Path
        Path(__file__).resolve().parent.parent.joinpath("harness", "c05_source_baseline.json").write_text(json.dumps(covered_hashes(), indent=1, sort_keys=True) + "\n")
    print(json.dumps({k: v for k, v in generate().items() if k != "rows"}, indent=1))
