"""C01 tie G (round 7): every public constructor parameter that takes a SEQUENCE of Vars.

AST scan of `src/spox/opset/**/v*.py`: top-level functions (the public constructors) with a parameter
annotated `Sequence[Var]` -> `"<function>.<parameter>"`, de-duplicated over the opset versions.
`Props/C01.lean` proves (by `decide`) that each is one the harness calls with a caller-owned list that is mutated
after construction (`generated_sequence_parameters_exercised`): a new variadic constructor fails the obligation
whatever programs are generated.  An unreadable module degrades to an `<unrecognised …>` entry (fails it too).
Generated: lean/SpoxModel/Generated/C01Variadic.lean.
"""
import ast

from .common import GEN, HEADER, REPO, lean_list, lean_str, write_if_changed


def extract() -> list[str]:
    found: set[str] = set()
    root = REPO / "src" / "spox" / "opset"
    files = sorted(root.rglob("v*.py"))
    if not files:
        return ["<unrecognised: no opset modules>"]
    for f in files:
        try:
            mod = ast.parse(f.read_text(), filename=str(f))
        except Exception:  # noqa: BLE001
            found.add(f"<unrecognised {f.name}>")
            continue
        for fn in mod.body:
            if not isinstance(fn, ast.FunctionDef) or fn.name.startswith("_"):
                continue
            a = fn.args
            for p in list(a.posonlyargs) + list(a.args) + list(a.kwonlyargs):
                if p.annotation is not None and ast.unparse(p.annotation).replace(" ", "") in ("Sequence[Var]", "typing.Sequence[Var]", "Iterable[Var]", "List[Var]"):
                    found.add(f"{fn.name}.{p.arg}")
    return sorted(found)


def generate() -> list[str]:
    params = extract()
    text = HEADER.format(src="src/spox/opset/**/v*.py", tool="translator/c01_variadic.py")
    text += "\nnamespace Generated.C01Variadic\n\n"
    text += "/-- `<constructor>.<parameter>` of every public constructor parameter annotated `Sequence[Var]` -/\n"
    text += f"def sequenceParams : List String := {lean_list([lean_str(x) for x in params])}\n\n"
    text += "end Generated.C01Variadic\n"
    write_if_changed(GEN / "C01Variadic.lean", text)
    return params


if __name__ == "__main__":
    print(generate())
