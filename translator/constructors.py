"""C11 tie G: shipped opset modules (source text, by `ast`) and `onnx.defs` -> Lean tables.

For each of the 8 shipped modules:

  Generated/Constructors_<m>.lean   every operator class and constructor function *defined* in the
                                    module (`Conform.ClassSig`, `Conform.Ctor`)
  Generated/Schemas_<m>.lean        the `onnx.defs` schema in force at the module's version for every
                                    operator of the module's `_OPERATORS` table (`Conform.Schema`);
                                    a schema already emitted for an earlier module is referenced
  Generated/Conforms_<m>.lean       one obligation per operator/module pair
                                    `conforms_<m>_<Op> : entryOK (<class id>, <ctor>, <schema>) = true := by decide`
                                    and `table_conforms : ∀ e ∈ table, entryOK e = true`

Names imported from an earlier module (`from spox.opset.ai.onnx.v17 import _Abs, abs`) are resolved to
their defining module, like Python does. Nothing is imported or executed here; the live modules are
compared with this extraction by the harness (harness/props/c11.py, `validate_against_live`).

Known deviations (findings.d/C11.json, keys `<m>:<Op>:<attr>:absent`, `<m>:<Op>:schema:deprecated`) get the obligation
`entryOKExcept [<attr>…] … = true` (conforms in everything but the listed schema attributes) and are
listed in `deviating` instead of `table`.
"""
from __future__ import annotations

import ast
import json
import struct
from pathlib import Path

from .common import GEN, HEADER, REPO, VERIF, lean_bool, lean_list, lean_str, write_if_changed

# (lean id, path under src/spox/opset, ONNX domain, version, python module)
MODULES = [
    ("v17", "ai/onnx/v17.py", "", 17, "spox.opset.ai.onnx.v17"),
    ("v18", "ai/onnx/v18.py", "", 18, "spox.opset.ai.onnx.v18"),
    ("v19", "ai/onnx/v19.py", "", 19, "spox.opset.ai.onnx.v19"),
    ("v20", "ai/onnx/v20.py", "", 20, "spox.opset.ai.onnx.v20"),
    ("v21", "ai/onnx/v21.py", "", 21, "spox.opset.ai.onnx.v21"),
    ("ml_v3", "ai/onnx/ml/v3.py", "ai.onnx.ml", 3, "spox.opset.ai.onnx.ml.v3"),
    ("ml_v4", "ai/onnx/ml/v4.py", "ai.onnx.ml", 4, "spox.opset.ai.onnx.ml.v4"),
    ("ml_v5", "ai/onnx/ml/v5.py", "ai.onnx.ml", 5, "spox.opset.ai.onnx.ml.v5"),
]
PYMOD_TO_ID = {m[4]: m[0] for m in MODULES}

ATTR_KINDS = {
    "AttrFloat32": "float", "AttrInt64": "int", "AttrString": "string", "AttrTensor": "tensor",
    "AttrGraph": "graph", "AttrType": "type", "AttrFloat32s": "floats", "AttrInt64s": "ints",
    "AttrStrings": "strings", "AttrTensors": "tensors", "AttrDtype": "dtype",
}
FIELD_KINDS = {"Var": "single", "Optional[Var]": "optional", "Sequence[Var]": "variadic"}
PKINDS = {"Var": "var", "Optional[Var]": "optVar", "Sequence[Var]": "seqVar"}


def f32_bits(x: float) -> int:
    try:
        return struct.unpack("<I", struct.pack("<f", x))[0]
    except OverflowError:
        return struct.unpack("<I", struct.pack("<f", float("inf") if x > 0 else float("-inf")))[0]


# ----------------------------------------------------------------------------- values
def val_none():
    return {"t": "none"}


def py_default(node: ast.AST, ann: str) -> dict:
    """A default-value expression of a constructor signature -> Val (as dict)."""
    try:
        v = ast.literal_eval(node)
    except Exception:  # noqa: BLE001
        src = ast.unparse(node)
        if src.startswith("np.") and src[3:].isidentifier():
            return {"t": "dtype", "v": src[3:]}
        return {"t": "other", "v": src}
    return py_value(v, ann)


def py_value(v, ann: str) -> dict:
    if v is None:
        return val_none()
    is_float = "float" in ann
    if isinstance(v, bool):
        return {"t": "other", "v": repr(v)}
    if isinstance(v, int) and not is_float:
        return {"t": "int", "v": v}
    if isinstance(v, (int, float)):
        return {"t": "float", "v": f32_bits(float(v))}
    if isinstance(v, str):
        return {"t": "str", "v": v}
    if isinstance(v, (tuple, list)):
        if "Var" in ann or len(v) == 0:
            return {"t": "other", "v": "()" if len(v) == 0 else repr(v)}
        if all(isinstance(x, str) for x in v):
            return {"t": "strs", "v": list(v)}
        if is_float and all(isinstance(x, (int, float)) and not isinstance(x, bool) for x in v):
            return {"t": "floats", "v": [f32_bits(float(x)) for x in v]}
        if all(isinstance(x, int) and not isinstance(x, bool) for x in v):
            return {"t": "ints", "v": list(v)}
    return {"t": "other", "v": repr(v)}


def lean_int(i: int) -> str:
    return f"({i})" if i < 0 else str(i)


def lean_val(d: dict) -> str:
    t = d["t"]
    if t == "none":
        return "Val.none"
    if t == "int":
        return f"(Val.int {lean_int(d['v'])})"
    if t == "float":
        return f"(Val.float {d['v']})"
    if t == "str":
        return f"(Val.str {lean_str(d['v'])})"
    if t == "ints":
        return f"(Val.ints {lean_list(lean_int(x) for x in d['v'])})"
    if t == "floats":
        return f"(Val.floats {lean_list(str(x) for x in d['v'])})"
    if t == "strs":
        return f"(Val.strs {lean_list(lean_str(x) for x in d['v'])})"
    if t == "dtype":
        return f"(Val.dtype {lean_str(d['v'])})"
    return f"(Val.other {lean_str(str(d['v']))})"


# ----------------------------------------------------------------------------- source side
class ModuleSrc:
    def __init__(self, mid: str, rel: str):
        self.mid = mid
        self.rel = rel
        self.tree = ast.parse((REPO / "src/spox/opset" / rel).read_text(), filename=rel)
        self.classes: dict[str, ast.ClassDef] = {}
        self.funcs: dict[str, ast.FunctionDef] = {}
        self.imports: dict[str, tuple[str, str]] = {}  # local name -> (module id, name there)
        self.aliases: dict[str, str] = {}
        self.operators: dict[str, str] = {}
        self.constructors: dict[str, str] = {}
        self.problems: list[str] = []
        for node in self.tree.body:
            if isinstance(node, ast.ClassDef):
                self.classes[node.name] = node
            elif isinstance(node, ast.FunctionDef):
                self.funcs[node.name] = node
            elif isinstance(node, ast.ImportFrom) and node.module in PYMOD_TO_ID:
                for a in node.names:
                    self.imports[a.asname or a.name] = (PYMOD_TO_ID[node.module], a.name)
            elif isinstance(node, ast.Assign) and len(node.targets) == 1 and isinstance(node.targets[0], ast.Name):
                tgt = node.targets[0].id
                if tgt in ("_OPERATORS", "_CONSTRUCTORS") and isinstance(node.value, ast.Dict):
                    table = self.operators if tgt == "_OPERATORS" else self.constructors
                    for k, v in zip(node.value.keys, node.value.values):
                        if isinstance(k, ast.Constant) and isinstance(k.value, str) and isinstance(v, ast.Name):
                            if k.value in table:
                                self.problems.append(f"{mid}: duplicate key {k.value} in {tgt}")
                            table[k.value] = v.id
                        else:
                            self.problems.append(f"{mid}: unreadable entry in {tgt}: {ast.unparse(k) if k else k}")
                elif isinstance(node.value, ast.Name) and not tgt.startswith("__"):
                    self.aliases[tgt] = node.value.id


class Source:
    def __init__(self):
        self.mods = {m[0]: ModuleSrc(m[0], m[1]) for m in MODULES}
        self.problems: list[str] = []
        for m in self.mods.values():
            self.problems += m.problems

    def resolve(self, mid: str, name: str, what: str, depth: int = 0):
        """-> (defining module id, name there) of a class ('c') or function ('f'), or None."""
        if depth > 20:
            return None
        m = self.mods[mid]
        table = m.classes if what == "c" else m.funcs
        if name in table:
            return (mid, name)
        if name in m.aliases:
            return self.resolve(mid, m.aliases[name], what, depth + 1)
        if name in m.imports:
            m2, n2 = m.imports[name]
            return self.resolve(m2, n2, what, depth + 1)
        return None

    # ---- classes
    def class_sig(self, mid: str, name: str) -> dict:
        node = self.mods[mid].classes[name]
        sig = {
            "id": f"{mid}.{name}", "pyName": name, "module": mid,
            "base": ",".join(ast.unparse(b) for b in node.bases),
            "opName": "?", "domain": "?", "version": 0,
            "inputs": [], "outputs": [], "attrs": [], "problems": [],
        }

        def fields_of(sub: ast.ClassDef):
            out = []
            for f in sub.body:
                if isinstance(f, ast.AnnAssign) and isinstance(f.target, ast.Name):
                    out.append((f.target.id, ast.unparse(f.annotation), f.value is not None))
                elif isinstance(f, ast.Pass) or (isinstance(f, ast.Expr) and isinstance(f.value, ast.Constant)):
                    continue
                else:
                    sig["problems"].append(f"unexpected statement in {name}.{sub.name}: {ast.unparse(f)[:60]}")
            return out

        seen = set()
        for s in node.body:
            if isinstance(s, ast.ClassDef) and s.name in ("Attributes", "Inputs", "Outputs"):
                seen.add(s.name)
                want = {"Attributes": "BaseAttributes", "Inputs": "BaseInputs", "Outputs": "BaseOutputs"}[s.name]
                if [ast.unparse(b) for b in s.bases] != [want] or [ast.unparse(d) for d in s.decorator_list] != ["dataclass"]:
                    sig["problems"].append(f"{name}.{s.name}: not a plain @dataclass subclass of {want}")
                for fname, ann, has_default in fields_of(s):
                    if has_default:
                        sig["problems"].append(f"{name}.{s.name}.{fname} has a default value")
                    if s.name == "Attributes":
                        opt = ann.startswith("Optional[") and ann.endswith("]")
                        core = ann[len("Optional["):-1] if opt else ann
                        kind = ATTR_KINDS.get(core, "unknown")
                        sig["attrs"].append({"name": fname, "kind": kind, "optional": opt})
                    else:
                        kind = FIELD_KINDS.get(ann)
                        if kind is None:
                            sig["problems"].append(f"{name}.{s.name}.{fname}: bad annotation {ann}")
                            kind = "single"
                        sig["inputs" if s.name == "Inputs" else "outputs"].append((fname, kind))
            elif isinstance(s, ast.Assign) and len(s.targets) == 1 and isinstance(s.targets[0], ast.Name):
                tgt = s.targets[0].id
                if tgt == "op_type":
                    v = s.value
                    ok = (
                        isinstance(v, ast.Call) and ast.unparse(v.func) == "OpType" and len(v.args) == 3
                        and not v.keywords and all(isinstance(a, ast.Constant) for a in v.args)
                    )
                    if ok and isinstance(v.args[0].value, str) and isinstance(v.args[1].value, str) and isinstance(v.args[2].value, int):
                        sig["opName"], sig["domain"], sig["version"] = (a.value for a in v.args)
                    else:
                        sig["problems"].append(f"{name}.op_type unreadable: {ast.unparse(v)[:60]}")
                elif tgt in ("Attributes", "Inputs", "Outputs"):
                    seen.add(tgt)
                    want = {"Attributes": "BaseAttributes", "Inputs": "BaseInputs", "Outputs": "BaseOutputs"}[tgt]
                    if ast.unparse(s.value) != want:
                        sig["problems"].append(f"{name}.{tgt} = {ast.unparse(s.value)[:40]}")
            # methods (inference patches), annotations of attrs/inputs/outputs: irrelevant here
        for need in ("Attributes", "Inputs", "Outputs"):
            if need not in seen:
                sig["problems"].append(f"{name} lacks {need}")
        sig["attrs"].sort(key=lambda a: a["name"])
        return sig

    # ---- functions
    def ctor_sig(self, mid: str, name: str) -> dict:
        fn = self.mods[mid].funcs[name]
        sig = {
            "id": f"{mid}.{name}", "pyName": name, "module": mid, "cls": None, "params": [],
            "attrWires": [], "inputWires": [], "outVar": {"t": "none"}, "ret": {"t": "other", "v": "?"},
            "problems": [],
        }
        a = fn.args
        if a.posonlyargs or a.vararg or a.kwarg:
            sig["problems"].append(f"{name}: positional-only / *args / **kwargs parameters")
        pos_defaults = [None] * (len(a.args) - len(a.defaults)) + list(a.defaults)
        for arg, d, kwonly in [(x, d, False) for x, d in zip(a.args, pos_defaults)] + [
            (x, d, True) for x, d in zip(a.kwonlyargs, a.kw_defaults)
        ]:
            ann = ast.unparse(arg.annotation) if arg.annotation else ""
            kind = PKINDS.get(ann) or ("callback" if ann.startswith("Callable[") else "attr")
            sig["params"].append({
                "name": arg.arg, "kwOnly": kwonly, "kind": kind, "ann": ann,
                "default": None if d is None else py_default(d, ann),
            })
        body = [s for s in fn.body if not (isinstance(s, ast.Expr) and isinstance(s.value, ast.Constant))]
        subgraphs: dict[str, str] = {}  # local -> callback parameter
        opaque_locals: set[str] = set()
        for s in body[:-1]:
            tgt = val = None
            if isinstance(s, ast.AnnAssign) and isinstance(s.target, ast.Name):
                tgt, val = s.target.id, s.value
            elif isinstance(s, ast.Assign) and len(s.targets) == 1 and isinstance(s.targets[0], ast.Name):
                tgt, val = s.targets[0].id, s.value
            if (
                tgt and isinstance(val, ast.Call) and ast.unparse(val.func) == "subgraph"
                and len(val.args) == 2 and isinstance(val.args[1], ast.Name)
            ):
                subgraphs[tgt] = val.args[1].id
            elif tgt:
                # some other local: harmless unless the node call is wired to it (flagged there)
                opaque_locals.add(tgt)
            elif isinstance(s, ast.If) and all(isinstance(x, ast.Raise) for x in s.body) and not s.orelse:
                pass  # argument validation
            else:
                sig["problems"].append(f"{name}: unclassified statement {ast.unparse(s)[:60]}")
        if not body or not isinstance(body[-1], ast.Return) or body[-1].value is None:
            sig["problems"].append(f"{name}: no final return")
            return sig
        e = body[-1].value
        # peel `.outputs.<f>` / `.outputs._unpack_to_any()`
        call = None
        if isinstance(e, ast.Attribute) and isinstance(e.value, ast.Attribute) and e.value.attr == "outputs":
            sig["ret"] = {"t": "field", "v": e.attr}
            call = e.value.value
        elif (
            isinstance(e, ast.Call) and not e.args and not e.keywords and isinstance(e.func, ast.Attribute)
            and e.func.attr == "_unpack_to_any" and isinstance(e.func.value, ast.Attribute)
            and e.func.value.attr == "outputs"
        ):
            sig["ret"] = {"t": "unpack"}
            call = e.func.value.value
        else:
            sig["ret"] = {"t": "other", "v": ast.unparse(e)[:80]}
        if not (isinstance(call, ast.Call) and isinstance(call.func, ast.Name)):
            sig["problems"].append(f"{name}: return value is not <Class>(…).outputs.…")
            return sig
        cname = call.func.id
        cls = self.resolve(mid, cname, "c")
        if cls is None:
            sig["problems"].append(f"{name}: class {cname} not found")
            return sig
        sig["cls"] = f"{cls[0]}.{cls[1]}"
        if len(call.args) != 2:
            sig["problems"].append(f"{name}: expected {cname}(Attributes(…), Inputs(…))")
            return sig
        for kw in call.keywords:
            if kw.arg == "out_variadic":
                v = kw.value
                src = ast.unparse(v)
                if isinstance(v, ast.Name):
                    sig["outVar"] = {"t": "param", "v": v.id}
                else:
                    minus = 0
                    if isinstance(v, ast.BinOp) and isinstance(v.op, ast.Sub) and isinstance(v.right, ast.Constant) and isinstance(v.right.value, int):
                        minus, v = v.right.value, v.left
                    ok = (
                        isinstance(v, ast.Call) and ast.unparse(v.func) == "len" and len(v.args) == 1
                        and isinstance(v.args[0], ast.Attribute) and v.args[0].attr == "requested_results"
                        and isinstance(v.args[0].value, ast.Name) and v.args[0].value.id in subgraphs
                    )
                    if ok:
                        sig["outVar"] = {"t": "lenResults", "local": v.args[0].value.id, "minus": minus}
                    else:
                        sig["outVar"] = {"t": "other", "v": src[:80]}
            else:
                sig["problems"].append(f"{name}: unexpected keyword {kw.arg}= in node call")
        local_to_attr: dict[str, str] = {}
        for i, (part, want) in enumerate(zip(call.args, ("Attributes", "Inputs"))):
            if not (isinstance(part, ast.Call) and ast.unparse(part.func) == f"{cname}.{want}" and not part.args):
                sig["problems"].append(f"{name}: argument {i} is not {cname}.{want}(field=…)")
                continue
            for kw in part.keywords:
                if kw.arg is None:
                    sig["problems"].append(f"{name}: **kwargs in {want}")
                    continue
                v = kw.value
                if want == "Inputs":
                    if isinstance(v, ast.Name) and v.id not in opaque_locals and v.id not in subgraphs:
                        sig["inputWires"].append((kw.arg, v.id))
                    else:
                        sig["problems"].append(f"{name}: input {kw.arg} wired to expression {ast.unparse(v)[:40]}")
                        sig["inputWires"].append((kw.arg, "<expr>"))
                    continue
                wire = {"field": kw.arg, "kind": "unknown", "maybe": False, "onnxName": "?", "param": "?", "viaSubgraph": False}
                if isinstance(v, ast.Call):
                    f = ast.unparse(v.func)
                    maybe = f.endswith(".maybe")
                    core = f[: -len(".maybe")] if maybe else f
                    wire["kind"] = ATTR_KINDS.get(core, "unknown")
                    wire["maybe"] = maybe
                    names = [k for k in v.keywords if k.arg == "name"]
                    pos = list(v.args)
                    vals = [k for k in v.keywords if k.arg == "value"]
                    src = pos[0] if pos else (vals[0].value if vals else None)
                    nm = names[0].value if names else (pos[1] if len(pos) > 1 else None)
                    if isinstance(nm, ast.Constant) and isinstance(nm.value, str):
                        wire["onnxName"] = nm.value
                    if isinstance(src, ast.Name) and src.id in opaque_locals:
                        sig["problems"].append(f"{name}: attribute {kw.arg} built from local {src.id} (not a parameter)")
                    elif isinstance(src, ast.Name):
                        if src.id in subgraphs:
                            wire["param"], wire["viaSubgraph"] = subgraphs[src.id], True
                            local_to_attr[src.id] = kw.arg
                        else:
                            wire["param"] = src.id
                    else:
                        sig["problems"].append(f"{name}: attribute {kw.arg} built from expression {ast.unparse(src)[:40] if src else None}")
                else:
                    sig["problems"].append(f"{name}: attribute {kw.arg} is not an Attr*(…) call")
                sig["attrWires"].append(wire)
        if sig["outVar"]["t"] == "lenResults":
            loc = sig["outVar"].pop("local")
            sig["outVar"]["attr"] = local_to_attr.get(loc, "?")
        sig["attrWires"].sort(key=lambda w: w["field"])
        return sig


# ----------------------------------------------------------------------------- schema side
def schema_sig(s) -> dict:
    import onnx
    from onnx import defs

    opt = defs.OpSchema.FormalParameterOption
    kind = {opt.Single: "single", opt.Optional: "optional", opt.Variadic: "variadic"}
    attrs = []
    for name in sorted(s.attributes):
        a = s.attributes[name]
        d = a.default_value
        if d is None or d.type == 0:
            dv = val_none()
        else:
            AP = onnx.AttributeProto
            if d.type == AP.FLOAT:
                dv = {"t": "float", "v": struct.unpack("<I", struct.pack("<f", d.f))[0]}
            elif d.type == AP.INT:
                dv = {"t": "int", "v": int(d.i)}
            elif d.type == AP.STRING:
                dv = {"t": "str", "v": d.s.decode("utf-8", "surrogateescape")}
            elif d.type == AP.INTS:
                dv = {"t": "ints", "v": [int(x) for x in d.ints]}
            elif d.type == AP.FLOATS:
                dv = {"t": "floats", "v": [struct.unpack("<I", struct.pack("<f", x))[0] for x in d.floats]}
            elif d.type == AP.STRINGS:
                dv = {"t": "strs", "v": [x.decode("utf-8", "surrogateescape") for x in d.strings]}
            else:
                dv = {"t": "other", "v": "default of type %d: %s" % (d.type, d.SerializeToString().hex())}
        attrs.append({"name": name, "type": a.type.name, "required": bool(a.required), "default": dv})
    return {
        "name": s.name, "domain": s.domain, "since": s.since_version, "deprecated": bool(s.deprecated),
        "minInput": s.min_input, "minOutput": s.min_output,
        "inputs": [(p.name, kind[p.option]) for p in s.inputs],
        "outputs": [(p.name, kind[p.option]) for p in s.outputs],
        "attrs": attrs,
    }


def schemas_in_force(domain: str, version: int) -> dict:
    """operator name -> OpSchema with the greatest since_version <= version (independent of spox)."""
    from onnx import defs

    best: dict = {}
    for s in defs.get_all_schemas_with_history():
        if s.domain != domain or s.since_version > version:
            continue
        if s.name not in best or best[s.name].since_version < s.since_version:
            best[s.name] = s
    return best


# ----------------------------------------------------------------------------- Lean printing
def lean_fields(fs) -> str:
    return lean_list(f"({lean_str(n)}, .{k})" for n, k in fs)


def lean_class(c: dict) -> str:
    attrs = lean_list(
        f"⟨{lean_str(a['name'])}, .{a['kind']}, {lean_bool(a['optional'])}⟩" for a in c["attrs"]
    )
    base = c["base"] if not c["problems"] else "UNREADABLE: " + "; ".join(c["problems"])[:200]
    return (
        f"{{ pyName := {lean_str(c['id'])}, base := {lean_str(base)}, opName := {lean_str(c['opName'])}, "
        f"domain := {lean_str(c['domain'])}, version := {c['version']},\n"
        f"    inputs := {lean_fields(c['inputs'])},\n    outputs := {lean_fields(c['outputs'])},\n"
        f"    attrs := {attrs} }}"
    )


def lean_ident(s: str) -> str:
    return "".join(ch if (ch.isalnum() or ch == "_") else "_" for ch in s)


def lean_ctor(f: dict, cls_ref: str) -> str:
    params = lean_list(
        f"⟨{lean_str(p['name'])}, {lean_bool(p['kwOnly'])}, .{p['kind']}, "
        + ("none" if p["default"] is None else f"some {lean_val(p['default'])}")
        + "⟩"
        for p in f["params"]
    )
    wires = lean_list(
        f"⟨{lean_str(w['field'])}, .{w['kind']}, {lean_bool(w['maybe'])}, {lean_str(w['onnxName'])}, "
        f"{lean_str(w['param'])}, {lean_bool(w['viaSubgraph'])}⟩"
        for w in f["attrWires"]
    )
    iw = lean_list(f"({lean_str(a)}, {lean_str(b)})" for a, b in f["inputWires"])
    ov = f["outVar"]
    if ov["t"] == "none":
        outvar = ".none"
    elif ov["t"] == "param":
        outvar = f".param {lean_str(ov['v'])}"
    elif ov["t"] == "lenResults":
        outvar = f".lenResults {lean_str(ov['attr'])} {ov['minus']}"
    else:
        outvar = f".other {lean_str(ov['v'])}"
    r = f["ret"]
    if f["problems"]:
        ret = ".other " + lean_str("UNREADABLE: " + "; ".join(f["problems"])[:200])
    elif r["t"] == "field":
        ret = f".field {lean_str(r['v'])}"
    elif r["t"] == "unpack":
        ret = ".unpack"
    else:
        ret = f".other {lean_str(r['v'])}"
    return (
        f"{{ pyName := {lean_str(f['id'])}, cls := {cls_ref},\n    params := {params},\n"
        f"    attrWires := {wires},\n    inputWires := {iw},\n    outVar := {outvar}, ret := {ret} }}"
    )


def lean_schema(s: dict) -> str:
    attrs = lean_list(
        f"⟨{lean_str(a['name'])}, .{a['type']}, {lean_bool(a['required'])}, {lean_val(a['default'])}⟩"
        for a in s["attrs"]
    )
    return (
        f"{{ name := {lean_str(s['name'])}, domain := {lean_str(s['domain'])}, since := {s['since']}, "
        f"deprecated := {lean_bool(s['deprecated'])}, minInput := {s['minInput']}, minOutput := {s['minOutput']},\n"
        f"    inputs := {lean_fields(s['inputs'])},\n    outputs := {lean_fields(s['outputs'])},\n"
        f"    attrs := {attrs} }}"
    )


UNREADABLE_CLASS = (
    '{ pyName := "?", base := "MISSING", opName := "?", domain := "?", version := 0, inputs := [], outputs := [], attrs := [] }'
)
MISSING_SCHEMA = (
    '{ name := "?", domain := "?", since := 0, deprecated := true, minInput := 0, minOutput := 0, inputs := [], outputs := [], attrs := [] }'
)


def known_exceptions() -> dict:
    """findings.d/C11.json: `<m>:<Op>:<attr>:absent` (status known) -> {(m, Op): [attr…]}."""
    out: dict = {}
    p = VERIF / "findings.d" / "C11.json"
    if p.exists():
        for f in json.loads(p.read_text()).get("findings", []):
            parts = f.get("key", "").split(":")
            if f.get("status") == "known" and len(parts) == 4 and parts[3] == "absent":
                out.setdefault((parts[0], parts[1]), []).append(parts[2])
            if f.get("status") == "known" and len(parts) == 4 and parts[2:] == ["schema", "deprecated"]:
                out.setdefault((parts[0], parts[1]), []).append("@deprecated")
    return out


def generate(write: bool = True) -> dict:
    src = Source()
    exceptions = known_exceptions()
    info = {"modules": {}, "problems": list(src.problems), "classes": {}, "ctors": {}, "schemas": {}, "pairs": []}
    emitted_schema: dict[tuple, str] = {}  # (domain, name, since) -> module id that defines it
    proved: dict[str, str] = {}  # statement -> "<module>.<theorem>" that first proved it
    files: dict[str, str] = {}
    prev_ctor_mod = {"v17": None, "v18": "v17", "v19": "v18", "v20": "v19", "v21": "v20",
                     "ml_v3": None, "ml_v4": "ml_v3", "ml_v5": "ml_v4"}
    for mid, rel, domain, version, pymod in MODULES:
        m = src.mods[mid]
        # ---------------- Constructors_<mid>
        out = [HEADER.format(src=f"src/spox/opset/{rel}", tool="translator/constructors.py"),
               "import SpoxModel.Model.Conform\n"]
        if prev_ctor_mod[mid]:
            out.append(f"import SpoxModel.Generated.Constructors_{prev_ctor_mod[mid]}\n")
        out.append(f"namespace Generated.Ctors.{mid}\nopen Conform\n\n")
        if not m.operators or not m.constructors:
            info["problems"].append(f"{mid}: no readable _OPERATORS / _CONSTRUCTORS dict literal")
        for cname in m.classes:
            try:
                c = src.class_sig(mid, cname)
            except Exception as e:  # noqa: BLE001 - degrade to an entry whose obligation fails
                c = {"id": f"{mid}.{cname}", "pyName": cname, "module": mid, "base": "?", "opName": "?", "domain": "?",
                     "version": 0, "inputs": [], "outputs": [], "attrs": [],
                     "problems": [f"{cname}: extraction failed: {type(e).__name__}: {e}"]}
            info["classes"][c["id"]] = c
            for p in c["problems"]:
                info["problems"].append(f"{mid}: {p}")
            out.append(f"def cls{lean_ident(cname)} : ClassSig :=\n  {lean_class(c)}\n\n")
        for fname in m.funcs:
            try:
                f = src.ctor_sig(mid, fname)
            except Exception as e:  # noqa: BLE001
                f = {"id": f"{mid}.{fname}", "pyName": fname, "module": mid, "cls": None, "params": [],
                     "attrWires": [], "inputWires": [], "outVar": {"t": "none"}, "ret": {"t": "other", "v": "?"},
                     "problems": [f"{fname}: extraction failed: {type(e).__name__}: {e}"]}
                if fname not in _referenced_funcs(src, mid):
                    continue
            if f["cls"] is None and not any(fname == src_name for src_name in _referenced_funcs(src, mid)):
                continue  # helper such as `const` (not a constructor of the tables)
            info["ctors"][f["id"]] = f
            for p in f["problems"]:
                info["problems"].append(f"{mid}: {p}")
            if f["cls"] is None:
                cls_ref = UNREADABLE_CLASS
            else:
                cm, cn = f["cls"].split(".", 1)
                cls_ref = f"Generated.Ctors.{cm}.cls{lean_ident(cn)}"
            out.append(f"def f_{lean_ident(fname)} : Ctor :=\n  {lean_ctor(f, cls_ref)}\n\n")
        out.append(f"end Generated.Ctors.{mid}\n")
        files[f"Constructors_{mid}.lean"] = "".join(out)

        # ---------------- Schemas_<mid>
        force = schemas_in_force(domain, version)
        sout = [HEADER.format(src=f"onnx.defs (domain {domain or 'ai.onnx'!r}, version {version})",
                              tool="translator/constructors.py"),
                "import SpoxModel.Model.Conform\n"]
        if prev_ctor_mod[mid]:
            sout.append(f"import SpoxModel.Generated.Schemas_{prev_ctor_mod[mid]}\n")
        sout.append(f"namespace Generated.Schemas.{mid}\nopen Conform\n\n")
        op_schema_ref: dict[str, str] = {}
        for op in m.operators:
            s = force.get(op)
            if s is None:
                info["problems"].append(f"{mid}: no schema for operator {op} in onnx.defs")
                op_schema_ref[op] = MISSING_SCHEMA
                continue
            key = (s.domain, s.name, s.since_version)
            ident = f"s_{lean_ident(s.name)}_{s.since_version}"
            if key not in emitted_schema:
                sd = schema_sig(s)
                info["schemas"][f"{mid}.{ident}"] = sd
                emitted_schema[key] = mid
                sout.append(f"def {ident} : Schema :=\n  {lean_schema(sd)}\n\n")
            op_schema_ref[op] = f"Generated.Schemas.{emitted_schema[key]}.{ident}"
        sout.append(f"end Generated.Schemas.{mid}\n")
        files[f"Schemas_{mid}.lean"] = "".join(sout)

        # ---------------- Conforms_<mid>
        cout = [HEADER.format(src=f"src/spox/opset/{rel} + onnx.defs", tool="translator/constructors.py"),
                f"import SpoxModel.Generated.Constructors_{mid}\nimport SpoxModel.Generated.Schemas_{mid}\n",
                (f"import SpoxModel.Generated.Conforms_{prev_ctor_mod[mid]}\n" if prev_ctor_mod[mid] else ""),
                f"namespace Generated.Conforms.{mid}\nopen Conform\n\n"]
        good, deviating, slot_thms = [], [], []
        ops = list(m.operators)
        for op in m.constructors:
            if op not in m.operators:
                info["problems"].append(f"{mid}: {op} in _CONSTRUCTORS but not in _OPERATORS")
                ops.append(op)
        for op in ops:
            cls = src.resolve(mid, m.operators[op], "c") if op in m.operators else None
            cls_id = f"{cls[0]}.{cls[1]}" if cls else "?"
            fn = src.resolve(mid, m.constructors[op], "f") if op in m.constructors else None
            if op not in m.constructors:
                info["problems"].append(f"{mid}: {op} in _OPERATORS but not in _CONSTRUCTORS")
            if fn is None:
                ctor_ref = ('{ pyName := "?", cls := ' + UNREADABLE_CLASS +
                            ', params := [], attrWires := [], inputWires := [], outVar := .none, ret := .other "no constructor" }')
            else:
                ctor_ref = f"Generated.Ctors.{fn[0]}.f_{lean_ident(fn[1])}"
            entry = f"({lean_str(cls_id)}, {ctor_ref}, {op_schema_ref.get(op, MISSING_SCHEMA)})"
            thm = f"conforms_{mid}_{lean_ident(op)}"
            exc = exceptions.get((mid, op))
            sref = op_schema_ref.get(op, "")
            info["pairs"].append({
                "module": mid, "op": op, "class": cls_id, "ctor": f"{fn[0]}.{fn[1]}" if fn else None,
                "theorem": thm, "except": exc,
                "schema": sref[len("Generated.Schemas."):] if sref.startswith("Generated.Schemas.") else None,
            })
            stmt = (
                f"entryOKExcept {lean_list(lean_str(x) for x in exc)} {entry} = true" if exc
                else f"entryOK {entry} = true"
            )
            # the same (class, constructor, schema) triple in an earlier module: same statement,
            # re-use its proof (the kernel still checks that the statements coincide)
            proof = f"Generated.Conforms.{proved[stmt]}" if stmt in proved else "by decide +kernel"
            proved.setdefault(stmt, f"{mid}.{thm}")
            if exc:
                cout.append(
                    f"/-- known deviation (findings.d/C11.json): conforms in everything but the absent attribute(s) -/\n"
                    f"theorem {thm} : {stmt} := {proof}\n\n"
                )
                deviating.append((thm, f"({lean_list(lean_str(x) for x in exc)}, {entry})"))
            else:
                cout.append(f"theorem {thm} : {stmt} := {proof}\n\n")
                good.append((thm, entry))
            # slotting obligation of the pair (inputs on every presence pattern, output arity)
            sstmt = f"slotOK {entry} = true"
            sthm = f"slots_{mid}_{lean_ident(op)}"
            sproof = f"Generated.Conforms.{proved[sstmt]}" if sstmt in proved else "by decide +kernel"
            proved.setdefault(sstmt, f"{mid}.{sthm}")
            cout.append(f"theorem {sthm} : {sstmt} := {sproof}\n\n")
            slot_thms.append((sthm, entry))
        cout.append("/-- every operator/module pair of this module without a listed deviation -/\n")
        cout.append("def table : List Entry :=\n  " + lean_list("\n   " + e for _, e in good) + "\n\n")
        proof = "List.all_nil"
        # right-nested application, built from the back
        chunks = []
        for thm, _ in good:
            chunks.append(f"all_cons {thm} (")
        cout.append(
            "theorem table_all : table.all entryOK = true :=\n  "
            + "\n  ".join(chunks) + "\n  all_nil" + ")" * len(good) + "\n\n"
        )
        cout.append(
            "theorem table_conforms : ∀ e ∈ table, entryOK e = true :=\n"
            "  fun e he => List.all_eq_true.mp table_all e he\n\n"
        )
        cout.append("/-- every operator/module pair of this module (deviating ones included: deviations concern attributes) -/\n")
        cout.append("def allEntries : List Entry :=\n  " + lean_list("\n   " + e for _, e in slot_thms) + "\n\n")
        cout.append(
            "theorem slots_all : allEntries.all slotOK = true :=\n  "
            + "\n  ".join(f"all_cons {t} (" for t, _ in slot_thms) + "\n  all_nil" + ")" * len(slot_thms) + "\n\n"
        )
        cout.append(
            "theorem table_slots : ∀ e ∈ allEntries, slotOK e = true :=\n"
            "  fun e he => List.all_eq_true.mp slots_all e he\n\n"
        )
        cout.append("/-- pairs with listed deviations (known findings), each with what is excepted -/\n")
        cout.append("def deviating : List (List String × Entry) :=\n  " + lean_list("\n   " + e for _, e in deviating) + "\n\n")
        cout.append(
            "theorem deviating_conforms : ∀ d ∈ deviating, entryOKExcept d.1 d.2 = true := by decide +kernel\n\n"
        )
        cout.append(f"end Generated.Conforms.{mid}\n")
        files[f"Conforms_{mid}.lean"] = "".join(cout)
        info["modules"][mid] = {
            "operators": dict(m.operators), "constructors": dict(m.constructors),
            "domain": domain, "version": version, "pymod": pymod,
            "n_pairs": len(ops), "n_good": len(good), "n_deviating": len(deviating),
        }
    if write:
        for name, text in files.items():
            write_if_changed(GEN / name, text)
    info["files"] = sorted(files)
    return info


_REF_CACHE: dict = {}


def _referenced_funcs(src: Source, mid: str) -> set:
    """names of functions of module `mid` that some module's _CONSTRUCTORS table resolves to"""
    if "all" not in _REF_CACHE or _REF_CACHE.get("src") is not src:
        ref: dict[str, set] = {}
        for m in src.mods.values():
            for op, fname in m.constructors.items():
                r = src.resolve(m.mid, fname, "f")
                if r:
                    ref.setdefault(r[0], set()).add(r[1])
        _REF_CACHE["all"] = ref
        _REF_CACHE["src"] = src
    return _REF_CACHE["all"].get(mid, set())


if __name__ == "__main__":
    i = generate()
    print(len(i["pairs"]), "pairs;", len(i["problems"]), "problems")
    for p in i["problems"][:20]:
        print("  ", p)
