"""Inventory of process-wide mutable state in spox's core modules (C16, tie G) -> Generated/ModuleState.lean.

A scoped setting can leak without any write to its global: through a cache or registry that remembers something
computed while a block was active and is keyed without the setting (a memo of "this node signature cannot be
evaluated", an lru_cache on a function whose result depends on the backend ...). Listed, for every non-generated module
under src/spox: module-level and class-level names bound to a mutable container (literal or constructor call),
functions wrapped by a caching decorator, `global` re-bindings inside functions, and function attributes used as state
(`f.cache = ...`). `C16.module_state_inventory` pins the list; a new entry fails the obligation whatever is generated.
"""
import ast

from .common import GEN, HEADER, REPO, dotted, lean_list, lean_str, write_if_changed

MUTABLE_CALLS = {"dict", "list", "set", "defaultdict", "OrderedDict", "deque", "Counter", "WeakKeyDictionary",
                 "WeakValueDictionary", "WeakSet", "ChainMap", "bytearray", "local", "ContextVar"}
CACHE_DECOS = {"lru_cache", "cache", "cached_property", "memoize", "memoized", "singledispatch"}


def _mutable(v: ast.AST) -> str:
    if isinstance(v, (ast.Dict, ast.DictComp)):
        return "dict"
    if isinstance(v, (ast.List, ast.ListComp)):
        return "list"
    if isinstance(v, (ast.Set, ast.SetComp)):
        return "set"
    if isinstance(v, ast.Call):
        f = (dotted(v.func) or "").split(".")[-1]
        if f in MUTABLE_CALLS:
            return f
    return ""


def scan():
    out = []
    root = REPO / "src" / "spox"
    for path in sorted(root.rglob("*.py")):
        rel = str(path.relative_to(REPO))
        if "/opset/" in rel:
            continue
        try:
            tree = ast.parse(path.read_text(), filename=rel)
        except Exception:  # noqa: BLE001
            out.append((rel, "<module>", "opaque", "unparsable"))
            continue

        def visit(body, scope, in_func):
            for st in body:
                if isinstance(st, (ast.Assign, ast.AnnAssign)) and not in_func:
                    val = st.value
                    tgs = st.targets if isinstance(st, ast.Assign) else [st.target]
                    kind = _mutable(val) if val is not None else ""
                    for t in tgs:
                        if kind and isinstance(t, ast.Name) and t.id != "__all__":
                            out.append((rel, scope, t.id, kind))
                if isinstance(st, (ast.Assign, ast.AugAssign, ast.AnnAssign)):
                    tgs = st.targets if isinstance(st, ast.Assign) else [st.target]
                    for t in tgs:
                        # state kept on a function / class object from inside a function: `f.cache = ...`, `Cls.memo[...] = ...`
                        base = t.value if isinstance(t, ast.Subscript) else t
                        if in_func and isinstance(base, ast.Attribute) and isinstance(base.value, ast.Name) \
                                and base.value.id not in ("self", "cls") and base.value.id[:1].isupper() is False \
                                and base.attr.lstrip("_")[:5] in ("cache", "memo", "seen", "regis"):
                            out.append((rel, scope, f"{base.value.id}.{base.attr}", "attribute-state"))
                if isinstance(st, ast.Global):
                    for n in st.names:
                        out.append((rel, scope, n, "global"))
                if isinstance(st, (ast.FunctionDef, ast.AsyncFunctionDef)):
                    for d in st.decorator_list:
                        nm = (dotted(d.func) if isinstance(d, ast.Call) else dotted(d)) or ""
                        if nm.split(".")[-1] in CACHE_DECOS:
                            out.append((rel, scope, st.name, "@" + nm.split(".")[-1]))
                    visit(st.body, (scope + "." if scope != "<module>" else "") + st.name, True)
                elif isinstance(st, ast.ClassDef):
                    visit(st.body, (scope + "." if scope != "<module>" else "") + st.name, in_func)
                elif isinstance(st, (ast.If, ast.Try, ast.With, ast.For, ast.While)):
                    for sub in ("body", "orelse", "finalbody"):
                        visit(getattr(st, sub, []) or [], scope, in_func)
                    for h in getattr(st, "handlers", []) or []:
                        visit(h.body, scope, in_func)

        visit(tree.body, "<module>", False)
    return sorted(set(out))


def generate() -> dict:
    items = scan()
    lines = [HEADER.format(src="src/spox/**/*.py (opset modules excluded)", tool="translator/module_state.py"),
             "namespace Generated.ModuleState\n",
             "/-- (file, scope, name, kind): a name bound to a mutable container at module / class level, a caching\n    decorator, a `global` re-binding, state kept on a function object. -/",
             "def items : List (String × String × String × String) := [\n  " + ",\n  ".join(
                 f"({lean_str(a)}, {lean_str(b)}, {lean_str(c)}, {lean_str(d)})" for a, b, c, d in items) + "]\n",
             "end Generated.ModuleState\n"]
    write_if_changed(GEN / "ModuleState.lean", "\n".join(lines))
    return {"items": [list(i) for i in items]}


if __name__ == "__main__":
    import json
    print(json.dumps(generate(), indent=0))
