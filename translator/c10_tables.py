"""C10 tie G: tables regenerated from $SPOX_REPO on every run.

  Generated/TensorEnum.lean  numpy element type -> ONNX enum (spox._utils.dtype_to_tensor_type, executed)
                             and enum -> TensorProto storage field (onnx.helper.tensor_dtype_to_field)
  Generated/AttrKinds.lean   every Attr* class of _attributes.py -> its AttributeProto type, whether it
                             uses the generic Attr._validate, the guards in front of the validation
  Generated/Capture.lean     per constructor that receives a caller-owned mutable object: how the stored
                             value relates to the argument (alias / copy / freeze / deep), (a) read off
                             the source text (AST) and (b) observed as the sharing relation between the
                             argument and the stored object on probe calls of the real constructors.

`generate()` returns the same data as a dict for the harness.
"""
from __future__ import annotations

import ast

from .common import GEN, HEADER, REPO, lean_list, lean_str, parse, write_if_changed

DTYPES = [
    "bool", "int8", "int16", "int32", "int64", "uint8", "uint16", "uint32", "uint64",
    "float16", "bfloat16", "float32", "float64", "complex64", "complex128", "str",
]
CLASSES = {
    "AttrFloat32": "float32", "AttrInt64": "int64", "AttrString": "string", "AttrTensor": "tensor",
    "AttrType": "type_", "AttrDtype": "dtype", "AttrGraph": "graph", "AttrFloat32s": "float32s",
    "AttrInt64s": "int64s", "AttrStrings": "strings", "AttrTensors": "tensors",
}
FIELDS = {
    "int32_data": "int32Data", "int64_data": "int64Data", "uint64_data": "uint64Data",
    "float_data": "floatData", "double_data": "doubleData", "string_data": "stringData",
}


def np_dtype(name: str):
    import numpy as np

    if name == "bfloat16":
        import ml_dtypes

        return np.dtype(ml_dtypes.bfloat16)
    return np.dtype(name)


# ------------------------------------------------------------------------------------ TensorEnum
def tensor_enum() -> dict:
    import onnx

    from spox._utils import dtype_to_tensor_type

    out = {}
    for d in DTYPES:
        try:
            e = int(dtype_to_tensor_type(np_dtype(d)))
        except Exception:  # noqa: BLE001
            e = 0
        try:
            f = onnx.helper.tensor_dtype_to_field(e) if e else "none"
        except Exception:  # noqa: BLE001
            f = "none"
        out[d] = {"enum": e, "field": f}
    return out


ALIASES = [  # (spelling evaluated with numpy as np, canonical model dtype)
    ("int", "int64"), ("float", "float64"), ("bool", "bool"), ("str", "str"), ("np.longlong", "int64"), ("np.intc", "int32"),
    ("np.short", "int16"), ("np.byte", "int8"), ("np.ubyte", "uint8"), ("np.ushort", "uint16"), ("np.uintc", "uint32"),
    ("np.ulonglong", "uint64"), ("np.half", "float16"), ("np.single", "float32"), ("np.double", "float64"),
    ("np.csingle", "complex64"), ("np.cdouble", "complex128"), ("np.bool_", "bool"), ("np.str_", "str"),
    ("'i8'", "int64"), ("'>i4'", "int32"), ("'<f4'", "float32"), ("'>f8'", "float64"), ("'U3'", "str"), ("'<U1'", "str"),
    ("'?'", "bool"), ("'e'", "float16"), ("np.dtype('>u2')", "uint16"), ("np.zeros(1, np.int8).dtype", "int8"),
    ("np.float32(1).dtype", "float32"), ("np.int_", "int64"), ("np.uint", "uint64"),
]


def reverse_enum() -> dict:
    """`tensor_type_to_dtype(e)` executed for e = 0..31: the model dtype name, 'other' (a numpy dtype outside the 16 of
    the statement: float8 / int4 / float4 ...), or 'raises'.  And `dtype_to_tensor_type` on alias spellings."""
    import numpy as np

    from spox._utils import dtype_to_tensor_type, tensor_type_to_dtype

    names = {np_dtype(d): d for d in DTYPES}
    rev = {}
    for e in range(32):
        try:
            dt = np.dtype(tensor_type_to_dtype(e))
            rev[e] = names.get(dt, "other") if dt != np.dtype(object) else "other"
        except Exception:  # noqa: BLE001
            rev[e] = "raises"
    aliases = []
    for spelling, canon in ALIASES:
        try:
            aliases.append((spelling, canon, int(dtype_to_tensor_type(eval(spelling, {"np": np})))))  # noqa: S307
        except Exception:  # noqa: BLE001
            aliases.append((spelling, canon, 0))
    return {"rev": rev, "aliases": aliases}


def emit_tensor_enum(tab: dict) -> str:
    ls = [
        HEADER.format(src="src/spox/_utils.py", tool="translator/c10_tables.py").rstrip("\n"),
        "import SpoxModel.Model.TensorBase",
        "namespace Generated.TensorEnum",
        "open Tensor",
        "",
        "/-- `spox._utils.dtype_to_tensor_type(np.dtype(d))` as executed on this run (0 = raised). -/",
        "def enumOf : DType → Nat",
    ]
    ls += [f"  | .{d} => {tab[d]['enum']}" for d in DTYPES]
    ls += [
        "",
        "/-- `onnx.helper.tensor_dtype_to_field(enumOf d)` as executed on this run. -/",
        "def fieldOf : DType → Field",
    ]
    ls += [f"  | .{d} => .{FIELDS.get(tab[d]['field'], 'none')}" for d in DTYPES]
    rv = tab.get("_reverse") or {"rev": {}, "aliases": [("<not run>", "bool", 0)]}
    ls += [
        "",
        "/-- `spox._utils.tensor_type_to_dtype(e)` as executed on this run for e = 0..31 (`none`: raised, or a numpy",
        "    element type outside the 16 of the statement - those enums are listed in `otherEnums`). -/",
        "def dtypeOfEnum : Nat → Option DType",
    ]
    ls += [f"  | {e} => some .{d}" for e, d in sorted(rv["rev"].items()) if d in DTYPES]
    ls += ["  | _ => none", "",
           f"def otherEnums : List Nat := {lean_list([str(e) for e, d in sorted(rv['rev'].items()) if d == 'other'])}", "",
           "/-- `dtype_to_tensor_type(<spelling>)` as executed on this run: aliases, byte orders, string widths, Python",
           "    builtins (spelling, canonical element type, enum; 0 = raised). -/",
           "def aliases : List (String × DType × Nat) := [",
           ",\n".join(f"  ({lean_str(a)}, .{c}, {e})" for a, c, e in rv["aliases"]), "]"]
    ls += ["", "end Generated.TensorEnum", ""]
    return "\n".join(ls)


# ------------------------------------------------------------------------------------- AttrKinds
def _class_defs(mod: ast.Module) -> dict:
    return {n.name: n for n in mod.body if isinstance(n, ast.ClassDef)}


def _method(cls: ast.ClassDef, name: str):
    for n in cls.body:
        if isinstance(n, ast.FunctionDef) and n.name == name:
            return n
    return None


def _raises_typeerror_guard_before_copy(fn: ast.FunctionDef, param: str) -> bool:
    """Is every use `param.copy()` preceded by `if not isinstance(param, …): raise TypeError`?"""
    guarded = False
    for st in fn.body:
        if (
            isinstance(st, ast.If)
            and isinstance(st.test, ast.UnaryOp)
            and isinstance(st.test.op, ast.Not)
            and isinstance(st.test.operand, ast.Call)
            and getattr(st.test.operand.func, "id", None) == "isinstance"
            and getattr(st.test.operand.args[0], "id", None) == param
            and any(
                isinstance(s, ast.Raise)
                and isinstance(s.exc, ast.Call)
                and getattr(s.exc.func, "id", None) == "TypeError"
                for s in st.body
            )
        ):
            guarded = True
            continue
        for node in ast.walk(st):
            if (
                isinstance(node, ast.Call)
                and isinstance(node.func, ast.Attribute)
                and getattr(node.func.value, "id", None) == param
            ):
                return guarded
    return True


def _dtype_catches(callee: str = "np_dtype_to_tensor_dtype") -> list:
    """Exception classes turned into TypeError around the call of `callee` in dtype_to_tensor_type."""
    mod = parse("src/spox/_utils.py")
    out = []
    for fn in mod.body:
        if isinstance(fn, ast.FunctionDef) and fn.name == "dtype_to_tensor_type":
            for node in ast.walk(fn):
                if isinstance(node, ast.Try):
                    calls = {
                        (c.func.attr if isinstance(c.func, ast.Attribute) else getattr(c.func, "id", None))
                        for st in node.body for c in ast.walk(st) if isinstance(c, ast.Call)
                    }
                    if callee not in calls:
                        continue
                    for h in node.handlers:
                        reraises_type = any(
                            isinstance(s, ast.Raise)
                            and isinstance(s.exc, ast.Call)
                            and getattr(s.exc.func, "id", None) == "TypeError"
                            for s in h.body
                        )
                        if not reraises_type:
                            continue
                        if h.type is None:
                            out.append("BaseException")
                        elif isinstance(h.type, ast.Tuple):
                            out += [getattr(e, "id", "?") for e in h.type.elts]
                        else:
                            out.append(getattr(h.type, "id", "?"))
    return out


def attr_kinds() -> dict:
    import spox._attributes as A

    mod = parse("src/spox/_attributes.py")
    defs = _class_defs(mod)
    classes = {}
    for name, obj in vars(A).items():
        if (
            isinstance(obj, type)
            and issubclass(obj, A.Attr)
            and obj is not A.Attr
            and not name.startswith("_")
        ):
            classes[name] = obj
    rows = {}
    for name, obj in classes.items():
        if name not in CLASSES:
            continue
        kind = getattr(obj, "_attribute_proto_type", None)
        rows[name] = {
            "kind": int(kind) if isinstance(kind, int) else 0,
            "generic_validate": obj._validate is A.Attr._validate,
            "iterable": issubclass(obj, A._AttrIterable),
        }
    unknown = sorted(set(classes) - set(CLASSES))
    missing = sorted(set(CLASSES) - set(classes))
    init = _method(defs["AttrTensor"], "__init__") if "AttrTensor" in defs else None
    tensor_guard = bool(init and _raises_typeerror_guard_before_copy(init, "value"))
    # does the generic _validate turn *every* exception of the conversion into TypeError?
    val = _method(defs["Attr"], "_validate") if "Attr" in defs else None
    catch_all = False
    if val:
        for node in ast.walk(val):
            if isinstance(node, ast.Try):
                for h in node.handlers:
                    if h.type is None or getattr(h.type, "id", None) in ("Exception", "BaseException"):
                        if any(isinstance(s, ast.Raise) for s in h.body):
                            catch_all = True
    return {
        "rows": rows,
        "unknown": unknown,
        "missing": missing,
        "tensor_guard": tensor_guard,
        "validate_catch_all": catch_all,
        "dtype_catches": _dtype_catches(),
        "dtype_spec_catches": _dtype_catches("dtype"),
    }


def emit_attr_kinds(info: dict) -> str:
    rows = info["rows"]
    ls = [
        HEADER.format(src="src/spox/_attributes.py, _utils.py", tool="translator/c10_tables.py").rstrip("\n"),
        "import SpoxModel.Model.AttrBase",
        "namespace Generated.AttrKinds",
        "open Attr",
        "",
        "/-- `cls._attribute_proto_type` (introspection; 0 = class missing). -/",
        "def kindOf : Cls → Nat",
    ]
    for name, c in CLASSES.items():
        ls.append(f"  | .{c} => {rows.get(name, {}).get('kind', 0)}")
    ls += ["", "/-- `cls._validate is Attr._validate` -/", "def genericValidate : Cls → Bool"]
    for name, c in CLASSES.items():
        ls.append(f"  | .{c} => {'true' if rows.get(name, {}).get('generic_validate') else 'false'}")
    ls += ["", "/-- `issubclass(cls, _AttrIterable)` -/", "def iterable : Cls → Bool"]
    for name, c in CLASSES.items():
        ls.append(f"  | .{c} => {'true' if rows.get(name, {}).get('iterable') else 'false'}")
    ls += [
        "",
        "/-- public `Attr` subclasses of the module that the model does not know / that are gone -/",
        f"def unknownClasses : List String := {lean_list([lean_str(x) for x in info['unknown']])}",
        f"def missingClasses : List String := {lean_list([lean_str(x) for x in info['missing']])}",
        "",
        "/-- `AttrTensor.__init__` raises TypeError for a non-array before it calls `value.copy()` (AST) -/",
        f"def tensorGuard : Bool := {'true' if info['tensor_guard'] else 'false'}",
        "",
        "/-- `Attr._validate` re-raises every exception of the conversion as TypeError (AST) -/",
        f"def validateCatchAll : Bool := {'true' if info['validate_catch_all'] else 'false'}",
        "",
        "/-- exception classes `dtype_to_tensor_type` turns into TypeError around onnx's table lookup (AST) -/",
        f"def dtypeCatches : List String := {lean_list([lean_str(x) for x in info['dtype_catches']])}",
        "",
        "/-- … and around `np.dtype(dtype_like)` itself (malformed specifications such as `(int, -1)`) (AST) -/",
        f"def dtypeSpecCatches : List String := {lean_list([lean_str(x) for x in info['dtype_spec_catches']])}",
        "",
        "end Generated.AttrKinds",
        "",
    ]
    return "\n".join(ls)


# --------------------------------------------------------------------------------------- Capture
ORDER = {"alias": 0, "freeze": 1, "copy": 1, "deep": 2}
ARGKIND = ["flat"]  # kind of the caller's object the current classification is about (ndarray/list vs nested list)


def compose(first: str, then: str) -> str:
    """Mode of `then(first(x))`."""
    if "opaque" in (first, then):
        # an unclassified step in front of / behind a classified one: the classified one still holds
        other = then if first == "opaque" else first
        return other if other in ("copy", "freeze", "deep") else "opaque"
    if first == "alias":
        return then
    if then == "alias":
        return first
    return first if ORDER[first] >= ORDER[then] else then


def _is_name(e, name):
    return isinstance(e, ast.Name) and e.id == name


def classify(e: ast.AST, env: dict) -> str:
    """Relation between the value of expression `e` and the caller's object(s) named in `env`
    (`env`: local name -> mode already applied to the caller's object)."""
    if isinstance(e, ast.Name):
        return env.get(e.id, "fresh")
    if isinstance(e, ast.IfExp):
        # `x if isinstance(x, _Ref) else f(x)`: the _Ref branch is spox's own immutable reference
        t = e.test
        if isinstance(t, ast.Call) and getattr(t.func, "id", None) == "isinstance":
            cls = t.args[1]
            names = [getattr(c, "id", getattr(c, "attr", "")) for c in (cls.elts if isinstance(cls, ast.Tuple) else [cls])]
            if names == ["_Ref"]:
                return classify(e.orelse, env)
            if any(n in ("ndarray", "generic") for n in names):
                # items that are arrays take the body; anything else is rejected by the validation
                return classify(e.body, env)
        a, b = classify(e.body, env), classify(e.orelse, env)
        if "fresh" in (a, b):
            return b if a == "fresh" else a
        return a if ORDER.get(a, -1) <= ORDER.get(b, -1) else b
    if isinstance(e, ast.Call):
        f = e.func
        fname = f.id if isinstance(f, ast.Name) else (f.attr if isinstance(f, ast.Attribute) else None)
        owner = f.value if isinstance(f, ast.Attribute) else None
        kw = {k.arg: k.value for k in e.keywords}
        # method on the object itself
        if owner is not None and classify(owner, env) != "fresh" and not (
            isinstance(owner, ast.Name) and owner.id in ("np", "numpy", "copy")
        ):
            base = classify(owner, env)
            if fname == "copy":
                return compose(base, "copy")
            if fname in ("astype",):
                c = kw.get("copy")
                return compose(base, "alias" if isinstance(c, ast.Constant) and c.value is False else "copy")
            if fname in ("view", "reshape", "ravel", "squeeze", "transpose", "__getitem__"):
                return compose(base, "alias")
            if fname in ("flatten", "tolist", "tobytes"):
                return compose(base, "copy")
            return compose(base, "opaque")
        args = list(e.args) + [v for k, v in kw.items() if k in ("value", "a", "object")]
        inner = [classify(a, env) for a in args[:1]]
        base = inner[0] if inner else "fresh"
        if base == "fresh":
            return "fresh"
        if fname == "tuple" or fname == "frozenset":
            if args and isinstance(args[0], (ast.GeneratorExp, ast.ListComp)):
                return classify(args[0], env)
            return compose(base, "freeze")
        if fname in ("list", "sorted"):
            if args and isinstance(args[0], (ast.GeneratorExp, ast.ListComp)):
                return classify(args[0], env)
            return compose(base, "copy")
        if fname == "array" and isinstance(owner, ast.Name):
            c = kw.get("copy")
            if isinstance(c, ast.Constant) and c.value in (False, None):
                return compose(base, "alias")
            return compose(base, "deep")
        if fname in ("copy", "deepcopy") and isinstance(owner, ast.Name):
            return compose(base, "deep" if fname == "deepcopy" or owner.id in ("np", "numpy") else "copy")
        if fname in ("asarray", "asanyarray", "ascontiguousarray", "atleast_1d") and isinstance(owner, ast.Name):
            # an ndarray passes through; a (nested) list is converted into a new array
            return compose(base, "alias" if ARGKIND[0] == "flat" else "deep")
        return compose(base, "opaque")
    if isinstance(e, (ast.GeneratorExp, ast.ListComp)):
        gen = e.generators[0]
        src = classify(gen.iter, env)
        if src == "fresh":
            return "fresh"
        var = gen.target.id if isinstance(gen.target, ast.Name) else None
        elt = classify(e.elt, {**env, var: "alias"}) if var else "opaque"
        if elt in ("copy", "deep"):
            return compose(src, "deep")
        if elt == "alias":
            return compose(src, "freeze")
        return compose(src, "opaque")
    if isinstance(e, ast.Subscript):
        base = classify(e.value, env)
        return base if base == "fresh" else compose(base, "alias")
    if isinstance(e, ast.Attribute):
        base = classify(e.value, env)
        if base == "fresh":
            return "fresh"
        if e.attr in ("dtype", "shape", "ndim", "size"):
            return "fresh"  # immutable reads at call time
        return compose(base, "alias") if e.attr in ("T", "real", "imag", "flat") else compose(base, "opaque")
    return "fresh"


def _stored_mode(fn: ast.FunctionDef, param: str, sink) -> str:
    """Walk the statements of `fn`; track re-assignments of `param`; return the mode of the expression
    passed to the sink (a predicate on Call nodes returning the argument expression, or None)."""
    env = {param: "alias"}
    result = None

    def visit(stmts):
        nonlocal result
        for st in stmts:
            if isinstance(st, ast.Assign) and len(st.targets) == 1 and isinstance(st.targets[0], ast.Name):
                m = classify(st.value, env)
                if m != "fresh":
                    env[st.targets[0].id] = m
                elif st.targets[0].id in env and st.targets[0].id != param:
                    del env[st.targets[0].id]
            if isinstance(st, ast.If):
                visit(st.body)
                visit(st.orelse)
                continue
            if isinstance(st, (ast.For, ast.With, ast.Try)):
                visit(getattr(st, "body", []))
                continue
            for node in ast.walk(st):
                if isinstance(node, ast.Call):
                    arg = sink(node)
                    if arg is not None:
                        m = classify(arg, env)
                        if m != "fresh":
                            result = m if result is None else (m if ORDER.get(m, -1) < ORDER.get(result, -1) else result)

    visit(fn.body)
    return result or "opaque"


def _super_init_arg(node: ast.Call):
    f = node.func
    if (
        isinstance(f, ast.Attribute)
        and f.attr == "__init__"
        and isinstance(f.value, ast.Call)
        and getattr(f.value.func, "id", None) == "super"
    ):
        for k in node.keywords:
            if k.arg == "value":
                return k.value
        return node.args[0] if node.args else None
    return None


def _call_arg(names, argname="value"):
    def sink(node: ast.Call):
        f = node.func
        fname = f.id if isinstance(f, ast.Name) else (f.attr if isinstance(f, ast.Attribute) else None)
        if fname in names:
            for k in node.keywords:
                if k.arg == argname:
                    return k.value
            return node.args[0] if node.args else None
        return None

    return sink


def _assign_self_value(fn: ast.FunctionDef, param: str) -> str:
    env = {param: "alias"}
    for st in fn.body:
        if isinstance(st, ast.Assign) and len(st.targets) == 1:
            t = st.targets[0]
            if isinstance(t, ast.Attribute) and t.attr == "_value" and _is_name(t.value, "self"):
                return classify(st.value, env)
    return "opaque"


def capture_ast() -> dict:
    """site -> mode, from the source text."""
    A = _class_defs(parse("src/spox/_attributes.py"))
    out = {}
    base = _assign_self_value(_method(A["Attr"], "__init__"), "value")  # alias
    out["Attr.__init__"] = base

    def cls_mode(name: str) -> str:
        """Mode of `name(value, …)`: own __init__ (if any) composed with the inherited one."""
        c = A[name]
        init = _method(c, "__init__")
        parent = None
        for b in c.bases:
            bn = b.id if isinstance(b, ast.Name) else (b.value.id if isinstance(b, ast.Subscript) and isinstance(b.value, ast.Name) else None)
            if bn in A and bn not in ("ABC",):
                parent = bn
                break
        up = cls_mode(parent) if parent and parent != "Attr" else base
        if init is None or name == "Attr":
            return up
        own = _stored_mode(init, "value", _super_init_arg)
        return compose(own, up)

    for name in CLASSES:
        if name in A:
            out[name] = cls_mode(name)
    # _AttrIterable.maybe: cls(tuple(value), name)
    it = A.get("_AttrIterable")
    mb = _method(it, "maybe") if it else None
    if mb:
        out["_AttrIterable.maybe"] = _stored_mode(mb, "value", _call_arg({"cls"}))
    mb = _method(A["Attr"], "maybe")
    if mb:
        out["Attr.maybe"] = _stored_mode(mb, "value", _call_arg({"cls"}))
    # variadic input lists
    F = _class_defs(parse("src/spox/_fields.py"))
    post = _method(F["BaseVars"], "__post_init__")
    mode = "opaque"
    if post:
        for node in ast.walk(post):
            if isinstance(node, ast.Assign) and isinstance(node.value, ast.Call) and getattr(node.value.func, "id", None) == "getattr":
                pass
        # `value = getattr(self, field.name)` … `setattr(self, field.name, <expr>)` in the VARIADIC branch
        var = None
        for node in ast.walk(post):
            if (
                isinstance(node, ast.Assign)
                and isinstance(node.value, ast.Call)
                and getattr(node.value.func, "id", None) == "getattr"
                and isinstance(node.targets[0], ast.Name)
            ):
                var = node.targets[0].id
        found = []
        for node in ast.walk(post):
            if (
                isinstance(node, ast.If)
                and isinstance(node.test, ast.Compare)
                and any(getattr(c, "attr", None) == "VARIADIC" for c in node.test.comparators)
            ):
                env = {var: "alias"}
                for st in node.body:  # in order, following re-assignments of the local (`value = tuple(value)`)
                    if isinstance(st, ast.Assign) and len(st.targets) == 1 and isinstance(st.targets[0], ast.Name):
                        m = classify(st.value, env)
                        if m != "fresh":
                            env[st.targets[0].id] = m
                    for sub in ast.walk(st):
                        if isinstance(sub, ast.Call) and getattr(sub.func, "id", None) == "setattr" and len(sub.args) == 3:
                            found.append(classify(sub.args[2], env))
        mode = found[0] if found else "alias"  # no setattr: the caller's list stays in the field
    out["BaseVars.variadic"] = mode
    # Tensor(dtype, shape): the shape list is translated element by element into an immutable Shape
    try:
        TS = _class_defs(parse("src/spox/_type_system.py"))
        ti = _method(TS["Tensor"], "__init__")
        out["Tensor(shape)"] = _stored_mode(ti, "shape", lambda node: (
            node.args[2] if isinstance(node.func, ast.Attribute) and node.func.attr == "__setattr__" and len(node.args) == 3
            and isinstance(node.args[1], ast.Constant) and node.args[1].value == "_shape" else None))
    except Exception:  # noqa: BLE001
        out["Tensor(shape)"] = "opaque"
    # module-level constructors
    G = parse("src/spox/_graph.py")
    for fn in G.body:
        if isinstance(fn, ast.FunctionDef) and fn.name == "initializer":
            out["initializer"] = compose(_stored_mode(fn, fn.args.args[0].arg, _call_arg({"AttrTensor"})), out.get("AttrTensor", "opaque"))
        if isinstance(fn, ast.FunctionDef) and fn.name == "arguments_dict":
            m = "opaque"
            for node in ast.walk(fn):
                if isinstance(node, ast.For) and isinstance(node.target, ast.Tuple):
                    info = node.target.elts[1].id
                    m = _stored_mode(node, info, _call_arg({"AttrTensor"}))  # type: ignore[arg-type]
            out["arguments(default)"] = compose(m, out.get("AttrTensor", "opaque"))
    V = parse("src/spox/opset/ai/onnx/v17.py")
    for fn in V.body:
        if isinstance(fn, ast.FunctionDef) and fn.name == "constant":
            m = _stored_mode(fn, "value", _call_arg({"maybe"}, argname="value"))
            out["constant(value)"] = compose(compose(m, out.get("Attr.maybe", "opaque")), out.get("AttrTensor", "opaque"))
            m = _stored_mode(fn, "value_ints", _call_arg({"maybe"}, argname="value"))
            out["constant(value_ints)"] = compose(compose(m, out.get("_AttrIterable.maybe", "opaque")), out.get("AttrInt64s", "opaque"))
    Fu = parse("src/spox/_future.py")
    for kind, label in (("flat", "ndarray"), ("nest", "nested list")):
        ARGKIND[0] = kind
        for fn in V.body:
            if isinstance(fn, ast.FunctionDef) and fn.name == "const":
                m = _stored_mode(fn, "value", _call_arg({"constant"}))
                out[f"const({label})"] = compose(m, out.get("constant(value)", "opaque"))
        for fn in Fu.body:
            if isinstance(fn, ast.FunctionDef) and fn.name == "initializer":
                m = _stored_mode(fn, "value", _call_arg({"_initializer", "initializer"}))
                out[f"_future.initializer({label})"] = compose(m, out.get("initializer", "opaque"))
    ARGKIND[0] = "flat"
    return out


def _share(stored, arg) -> bool:
    import numpy as np

    if stored is arg:
        return True
    if isinstance(stored, np.ndarray) and isinstance(arg, np.ndarray):
        return bool(np.shares_memory(stored, arg))
    return False


def _observe_flat(stored, arg) -> str:
    if _share(stored, arg):
        return "alias"
    return "freeze" if isinstance(stored, tuple) else "copy"


def _observe_nest(stored, arg) -> str:
    import numpy as np

    if _share(stored, arg):
        return "alias"
    items_s = list(stored) if not isinstance(stored, np.ndarray) else None
    if items_s is None:
        return "deep"  # a new ndarray built from a nested list
    if any(_share(s, a) for s in items_s for a in arg):
        return "freeze" if isinstance(stored, tuple) else "copy"
    return "deep"


def compose_obs(a: str, b: str) -> str:
    """Two probes of one site: the weaker observation wins."""
    return a if ORDER.get(a, -1) <= ORDER.get(b, -1) else b


def capture_observed() -> dict:
    """site -> mode, from the sharing relation between argument and stored object on real calls."""
    import numpy as np

    import spox._attributes as A
    import spox._future as fut
    import spox.opset.ai.onnx.v17 as op
    from spox import Tensor, argument
    from spox._graph import arguments, initializer

    out = {}

    def attempt(site, fn):
        try:
            out[site] = fn()
        except Exception as e:  # noqa: BLE001
            out[site] = "opaque"
            out.setdefault("_errors", {})[site] = f"{type(e).__name__}: {e}"[:200]

    arr = np.arange(6, dtype=np.int64).reshape(2, 3)
    attempt("AttrTensor", lambda: _observe_flat(A.AttrTensor(arr, "v")._value, arr))
    for name, items in (("AttrFloat32s", [1.0, 2.5]), ("AttrInt64s", [1, 2, 3]), ("AttrStrings", ["a", "ü"])):
        attempt(name, lambda name=name, items=items: _observe_flat(getattr(A, name)(items, "v")._value, items))
    arrs = [np.arange(3), np.array([1.5])]
    attempt("AttrTensors", lambda: _observe_nest(A.AttrTensors(arrs, "v")._value, arrs))
    attempt("_AttrIterable.maybe", lambda: _observe_flat(A.AttrInt64s.maybe([4, 5], "v")._value, [4, 5]))
    lst = [7, 8]
    attempt("_AttrIterable.maybe", lambda: _observe_flat(A.AttrInt64s.maybe(lst, "v")._value, lst))
    attempt("Attr.maybe", lambda: _observe_flat(A.AttrTensor.maybe(arr, "v")._value, arr))
    for name, v in (("AttrFloat32", 1.5), ("AttrInt64", 3), ("AttrString", "s"), ("AttrDtype", np.dtype("int64")),
                    ("AttrType", Tensor(np.float32, (2,)))):
        attempt(name, lambda name=name, v=v: "alias" if getattr(A, name)(v, "v")._value is v else "copy")
    shp = [2, "N", None]
    attempt("Tensor(shape)", lambda: _observe_flat(Tensor(np.float32, shp).shape, shp))
    attempt("AttrGraph", lambda: "alias")  # a Graph is a frozen dataclass; nothing to observe by mutation
    attempt("Attr.__init__", lambda: "alias" if A.AttrInt64(12345678901, "v")._value is not None else "opaque")
    a, b = argument(Tensor(np.float32, (2,))), argument(Tensor(np.float32, (2,)))
    vs = [a, b]
    attempt("BaseVars.variadic", lambda: _observe_flat(op.concat(vs, axis=0)._op.inputs.inputs, vs))
    attempt("initializer", lambda: _observe_flat(initializer(arr)._op.attrs.value._value, arr))
    attempt("arguments(default)", lambda: _observe_flat(arguments(x=arr)[0]._op.attrs.default._value, arr))
    attempt("constant(value)", lambda: _observe_flat(op.constant(value=arr)._op.attrs.value._value, arr))
    il = [1, 2]
    attempt("constant(value_ints)", lambda: _observe_flat(op.constant(value_ints=il)._op.attrs.value_ints._value, il))
    nested = [[1, 2], [3, 4]]
    attempt("const(nested list)", lambda: _observe_nest(op.const(nested)._op.attrs.value._value, nested))
    attempt("_future.initializer(nested list)", lambda: _observe_nest(fut.initializer(nested)._op.attrs.value._value, nested))
    attempt("const(ndarray)", lambda: _observe_flat(op.const(arr)._op.attrs.value._value, arr))
    attempt("const(ndarray)", lambda: compose_obs(out["const(ndarray)"], _observe_flat(op.const(arr, arr.dtype)._op.attrs.value._value, arr)))
    attempt("_future.initializer(ndarray)", lambda: _observe_flat(fut.initializer(arr)._op.attrs.value._value, arr))
    attempt("_future.initializer(ndarray)", lambda: compose_obs(out["_future.initializer(ndarray)"], _observe_flat(fut.initializer(arr, arr.dtype)._op.attrs.value._value, arr)))
    return out


KINDS = {
    "Attr.__init__": "imm", "AttrFloat32": "imm", "AttrInt64": "imm", "AttrString": "imm", "AttrDtype": "imm",
    "AttrType": "imm", "AttrGraph": "imm",
    "AttrTensor": "flat", "AttrFloat32s": "flat", "AttrInt64s": "flat", "AttrStrings": "flat",
    "AttrTensors": "nest", "_AttrIterable.maybe": "flat", "BaseVars.variadic": "flat",
    "initializer": "flat", "arguments(default)": "flat", "constant(value)": "flat", "constant(value_ints)": "flat",
    "Tensor(shape)": "flat",
    "const(ndarray)": "flat", "const(nested list)": "nest",
    "_future.initializer(ndarray)": "flat", "_future.initializer(nested list)": "nest",
}


def capture_table(errors: dict) -> list:
    """Rows of the capture table. A source that no longer has the expected shape, or a constructor that can
    no longer be probed, gives `opaque` entries (the generated obligation then fails) - never an exception."""
    try:
        a = capture_ast()
    except Exception as e:  # noqa: BLE001
        errors["Capture(AST)"] = f"{type(e).__name__}: {e}"[:300]
        a = {}
    try:
        o = capture_observed()
    except Exception as e:  # noqa: BLE001
        errors["Capture(observed)"] = f"{type(e).__name__}: {e}"[:300]
        o = {}
    rows = []
    for site, kind in KINDS.items():
        rows.append({"site": site, "kind": kind, "ast": a.get(site, "opaque"), "observed": o.get(site, "opaque")})
    return rows, o.get("_errors", {})


def discovery() -> dict:
    try:
        sites = discover_sites()
    except Exception as e:  # noqa: BLE001
        sites = [f"<site discovery failed: {type(e).__name__}>"]
    try:
        direct = opset_direct_uses()
    except Exception as e:  # noqa: BLE001
        direct = [f"<operator-module scan failed: {type(e).__name__}>"]
    disc = [(x, COVERED.get(x) or ("internal" if x in INTERNAL else "")) for x in sites]
    return {"discovered": disc, "uncovered": [x for x, r in disc if not r], "opset_direct_uses": direct}


def emit_capture(rows: list, disc: dict = None) -> str:
    ls = [
        HEADER.format(
            src="src/spox/{_attributes,_fields,_graph,_future}.py, opset/ai/onnx/v17.py", tool="translator/c10_tables.py"
        ).rstrip("\n"),
        "import SpoxModel.Model.AttrBase",
        "namespace Generated.CaptureTable",
        "open _root_.Capture",
        "",
        "def table : List Entry := [",
    ]
    body = []
    for r in rows:
        body.append(
            f"  ⟨{lean_str(r['site'])}, .{r['kind']}, .{r['ast']}, .{r['observed']}⟩"
        )
    ls.append(",\n".join(body))
    ls += ["]", ""]
    disc = disc or {"discovered": [], "uncovered": ["<no discovery>"], "opset_direct_uses": []}
    ls += [
        "/-- Every place found by the AST scan of the core modules where a caller-provided mutable object could be",
        "    stored (every subclass of Attr; every __init__/__post_init__ storing a container-typed parameter or",
        "    field; every public function with an array parameter), with the table row that covers it",
        "    (\"internal\" = no caller-owned object can arrive there, reasons in translator/c10_tables.py). -/",
        "def discovered : List (String × String) := [",
        ",\n".join(f"  ({lean_str(a)}, {lean_str(b)})" for a, b in disc["discovered"]),
        "]",
        "",
        "/-- discovered sites without a row: a new class / constructor the table does not know -/",
        f"def uncoveredSites : List String := {lean_list([lean_str(x) for x in disc['uncovered']])}",
        "",
        "/-- operator-module constructor parameters (arrays / iterables) used otherwise than as an argument of an",
        "    Attr class, an Inputs dataclass or np.array -/",
        f"def opsetDirectUses : List String := {lean_list([lean_str(x) for x in disc['opset_direct_uses'][:20]])}",
        "",
        "end Generated.CaptureTable", ""]
    return "\n".join(ls)


def generate() -> dict:
    errors: dict = {}
    try:
        te = tensor_enum()
    except Exception as e:  # noqa: BLE001
        errors["TensorEnum"] = f"{type(e).__name__}: {e}"[:300]
        te = {d: {"enum": 0, "field": "none"} for d in DTYPES}
    try:
        te["_reverse"] = reverse_enum()
    except Exception as e:  # noqa: BLE001
        errors["TensorEnum(reverse)"] = f"{type(e).__name__}: {e}"[:300]
    write_if_changed(GEN / "TensorEnum.lean", emit_tensor_enum(te))
    te.pop("_reverse", None)
    try:
        ak = attr_kinds()
    except Exception as e:  # noqa: BLE001
        errors["AttrKinds"] = f"{type(e).__name__}: {e}"[:300]
        ak = {"rows": {}, "unknown": [], "missing": sorted(CLASSES), "tensor_guard": False,
              "validate_catch_all": False, "dtype_catches": [], "dtype_spec_catches": []}
    write_if_changed(GEN / "AttrKinds.lean", emit_attr_kinds(ak))
    rows, errs = capture_table(errors)
    disc = discovery()
    write_if_changed(GEN / "Capture.lean", emit_capture(rows, disc))
    return {"tensor_enum": te, "attr_kinds": ak, "capture": rows, "capture_probe_errors": errs, "errors": errors,
            "discovery": disc}


# ------------------------------------------------------------------ discovery of capture sites
ARRAY_MARK = ("ndarray", "ArrayLike")
CONTAINER_MARK = ARRAY_MARK + ("Iterable", "Sequence", "List", "list", "Dict", "dict", "Set", "SimpleShape")
CLASS_MODULES = ["_attributes.py", "_fields.py", "_type_system.py", "_var.py", "_value_prop.py", "_node.py",
                 "_internal_op.py", "_graph.py", "_standard.py"]
FUNC_MODULES = ["_graph.py", "_future.py", "_public.py", "_internal_op.py"]

# discovered site -> row of the capture table that covers it
COVERED = {
    "_attributes.Attr.__init__": "Attr.__init__",
    "_attributes.AttrTensor.__init__": "AttrTensor",
    "_attributes._AttrIterable.__init__": "AttrInt64s",
    "_attributes.AttrTensors.__init__": "AttrTensors",
    "_fields.BaseVars.__post_init__": "BaseVars.variadic",
    "_graph.initializer(arr)": "initializer",
    "_graph.arguments_dict(kwargs)": "arguments(default)",
    "_graph.arguments(kwargs)": "arguments(default)",
    "_graph.enum_arguments(infos)": "arguments(default)",
    "_future.initializer(value)": "_future.initializer(ndarray)",
    "_type_system.Tensor.__init__": "Tensor(shape)",
}
for _c in CLASSES:
    COVERED[f"_attributes.{_c}"] = _c
# discovered site -> why no caller-owned mutable object can arrive there
INTERNAL = {
    "_attributes._AttrIterable": "abstract base of the list attribute classes (each subclass has its own row)",
    "_graph.Graph.__post_init__": "the results dict is made by results(**kwargs) / dataclasses.replace, never handed over by the caller; arguments are a tuple",
    "_node.Node.__init__": "receives spox's own Attributes/Inputs dataclasses (their fields are the sites)",
    "_var.Var.__init__": "constructed by Node only",
    "_value_prop.PropValue.__post_init__": "values come from spox's own stored copies or from the backend, not from the caller",
    "_standard.StandardNode.__init__": "same as Node.__init__",
    "_attributes._Ref.__init__": "built by spox's function machinery around an existing Attr (already captured)",
}


def _ann(a):
    return ast.unparse(a.annotation) if getattr(a, "annotation", None) is not None else None


def _bases(c: ast.ClassDef):
    out = []
    for b in c.bases:
        if isinstance(b, ast.Name):
            out.append(b.id)
        elif isinstance(b, ast.Subscript) and isinstance(b.value, ast.Name):
            out.append(b.value.id)
        elif isinstance(b, ast.Attribute):
            out.append(b.attr)
    return out


def discover_sites() -> dict:
    """Every place of the core modules where a caller-provided mutable could be stored:
    (1) every subclass of Attr; (2) every __init__ with a container-typed / untyped / TypeVar parameter that it
    stores, every dataclass __post_init__ of a class with container-typed fields; (3) every module-level
    function with an array-typed parameter; (4) in the operator modules, every array/iterable-typed constructor
    parameter must flow only into Attr classes, Inputs dataclasses or np.array."""
    sites = []
    for rel in CLASS_MODULES:
        try:
            mod = parse("src/spox/" + rel)
        except Exception:  # noqa: BLE001
            continue
        stem = rel[:-3]
        classes = {n.name: n for n in ast.walk(mod) if isinstance(n, ast.ClassDef)}
        if rel == "_attributes.py":
            def is_attr(name, seen=()):
                if name == "Attr":
                    return True
                c = classes.get(name)
                return bool(c) and name not in seen and any(is_attr(b, seen + (name,)) for b in _bases(c))
            for name in classes:
                if name != "Attr" and is_attr(name):
                    sites.append(f"{stem}.{name}")
        for name, c in classes.items():
            fields = [(n.target.id, ast.unparse(n.annotation)) for n in c.body
                      if isinstance(n, ast.AnnAssign) and isinstance(n.target, ast.Name)]
            for m in c.body:
                if not isinstance(m, ast.FunctionDef):
                    continue
                if m.name == "__init__":
                    params = [a for a in m.args.args[1:] + m.args.kwonlyargs]
                    cand = [a.arg for a in params
                            if _ann(a) is None or any(k in _ann(a) for k in CONTAINER_MARK) or "[T" in (_ann(a) or "") or "Optional[Base" in (_ann(a) or "")]
                    stores = False
                    cand = list(cand)
                    for node in ast.walk(m):  # locals computed from a candidate carry it on
                        if isinstance(node, ast.Assign) and len(node.targets) == 1 and isinstance(node.targets[0], ast.Name) \
                                and any(isinstance(x, ast.Name) and x.id in cand for x in ast.walk(node.value)):
                            cand.append(node.targets[0].id)
                    for node in ast.walk(m):
                        if isinstance(node, (ast.Assign, ast.AnnAssign)):
                            tgts = node.targets if isinstance(node, ast.Assign) else [node.target]
                            if any(isinstance(t, ast.Attribute) and _is_name(t.value, "self") for t in tgts) and node.value is not None \
                                    and any(isinstance(x, ast.Name) and x.id in cand for x in ast.walk(node.value)):
                                stores = True
                        if isinstance(node, ast.Call) and any(isinstance(x, ast.Name) and x.id in cand for a in list(node.args) + [k.value for k in node.keywords] for x in ast.walk(a)):
                            f = node.func
                            if (isinstance(f, ast.Attribute) and f.attr in ("__init__", "__setattr__")) or getattr(f, "id", None) == "setattr":
                                stores = True
                    if cand and stores:
                        sites.append(f"{stem}.{name}.__init__")
                if m.name == "__post_init__":
                    if any(any(k in t for k in CONTAINER_MARK) for _, t in fields) or any(
                            isinstance(x, ast.Call) and getattr(x.func, "id", None) == "getattr" for x in ast.walk(m)):
                        sites.append(f"{stem}.{name}.__post_init__")
    for rel in FUNC_MODULES:
        try:
            mod = parse("src/spox/" + rel)
        except Exception:  # noqa: BLE001
            continue
        for fn in mod.body:
            if isinstance(fn, ast.FunctionDef) and not fn.name.startswith("_"):
                ps = fn.args.args + fn.args.kwonlyargs + ([fn.args.vararg] if fn.args.vararg else []) + ([fn.args.kwarg] if fn.args.kwarg else [])
                for a in ps:
                    if _ann(a) and any(k in _ann(a) for k in ARRAY_MARK):
                        sites.append(f"{rel[:-3]}.{fn.name}({a.arg})")
    return sites


OK_SINKS = ("Inputs", "maybe", "array", "isinstance", "len", "subgraph")


def opset_direct_uses() -> list:
    """Operator-module constructor parameters typed as arrays / iterables that are used otherwise than as an
    argument of an Attr class, an Inputs dataclass or np.array (where a caller's object could be kept)."""
    bad = []
    root = REPO / "src" / "spox" / "opset"
    import hashlib
    import json

    cache_file = GEN.parent.parent.parent / ".work" / "c10_opset_scan.json"  # keyed by file *content* hash only
    try:
        cache = json.loads(cache_file.read_text())
    except Exception:  # noqa: BLE001
        cache = {}
    new_cache = {}
    for path in sorted(root.rglob("v*.py")):
        text = path.read_text()
        key = hashlib.sha1((SCAN_VERSION + text).encode()).hexdigest()
        if key in cache:
            new_cache[key] = cache[key]
            bad += cache[key]
            continue
        found = _scan_opset_module(path, root, text)
        new_cache[key] = found
        bad += found
    try:
        cache_file.parent.mkdir(exist_ok=True)
        cache_file.write_text(json.dumps(new_cache))
    except Exception:  # noqa: BLE001
        pass
    return bad


SCAN_VERSION = "2"


def _scan_opset_module(path, root, text) -> list:
    bad = []
    if True:
        try:
            mod = ast.parse(text)
        except Exception:  # noqa: BLE001
            return [f"{path.name}: unparsable"]
        for fn in mod.body:
            if not isinstance(fn, ast.FunctionDef):
                continue
            ps = {a.arg for a in fn.args.args + fn.args.kwonlyargs
                  if _ann(a) and any(k in _ann(a) for k in ARRAY_MARK + ("Iterable", "Sequence", "List"))}
            if not ps:
                continue
            parent = {}
            for node in ast.walk(fn):
                for ch in ast.iter_child_nodes(node):
                    parent[ch] = node
            for node in ast.walk(fn):
                if isinstance(node, ast.Name) and node.id in ps and isinstance(node.ctx, ast.Load):
                    p = parent.get(node)
                    while isinstance(p, (ast.keyword, ast.Starred)):
                        p = parent.get(p)
                    ok = False
                    # read at the call only: iterated by a comprehension (possibly a slice of it) to compute types
                    q = p
                    if isinstance(q, ast.Subscript) and q.value is node:
                        q = parent.get(q)
                    if isinstance(q, ast.comprehension) and (q.iter is node or q.iter is p):
                        ok = True
                    if isinstance(p, ast.Call):
                        f = p.func
                        fname = f.attr if isinstance(f, ast.Attribute) else getattr(f, "id", "")
                        ok = ok or fname.startswith("Attr") or fname in OK_SINKS
                    if not ok:
                        rel = path.relative_to(root)
                        bad.append(f"{rel}:{fn.name}({node.id}) line {node.lineno}")
    return bad


if __name__ == "__main__":
    import json

    from harness import core

    core.use_repo_on_path()
    print(json.dumps(generate(), indent=1))
