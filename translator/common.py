"""Helpers shared by the translators (Python source of /repo -> Lean files under lean/SpoxModel/Generated)."""
import ast
import os
from pathlib import Path

VERIF = Path(__file__).resolve().parent.parent
REPO = Path(os.environ.get("SPOX_REPO", "/repo"))
GEN = VERIF / "lean" / "SpoxModel" / "Generated"

HEADER = "-- GENERATED from {src} by {tool} on every run; do not edit.\n"


def parse(rel: str) -> ast.Module:
    return ast.parse((REPO / rel).read_text(), filename=rel)


def write_if_changed(path: Path, text: str) -> bool:
    path.parent.mkdir(parents=True, exist_ok=True)
    if path.exists() and path.read_text() == text:
        return False
    path.write_text(text)
    return True


def lean_str(s: str) -> str:
    out = ['"']
    for ch in s:
        if ch == '"':
            out.append('\\"')
        elif ch == "\\":
            out.append("\\\\")
        elif ch == "\n":
            out.append("\\n")
        elif ch == "\t":
            out.append("\\t")
        elif ord(ch) < 32 or ord(ch) == 127:
            out.append("\\x%02x" % ord(ch))
        else:
            out.append(ch)
    out.append('"')
    return "".join(out)


def lean_list(items) -> str:
    return "[" + ", ".join(items) + "]"


def lean_bool(b: bool) -> str:
    return "true" if b else "false"


def lean_opt(x) -> str:
    return "none" if x is None else f"(some {x})"


def dotted(node: ast.AST):
    """`a.b.c` -> 'a.b.c' for Name/Attribute chains, else None."""
    if isinstance(node, ast.Name):
        return node.id
    if isinstance(node, ast.Attribute):
        base = dotted(node.value)
        return None if base is None else base + "." + node.attr
    return None
