"""Extract the statement-level IR of `spox._public.build` (C03, C12).

Emits `Generated/BuildFrontIR.lean` with `def ir : List FrontIR.Stmt` — the guards with the exception
each raises, the `with _temporary_renames(**inputs):` block (`results(**outputs)`, the
`drop_unused_inputs` option deciding whether `with_arguments(*inputs.values())` is called,
`to_onnx_model()`), the "additional inputs" test, the re-listing of the surviving inputs, `return` —
and a normalised-AST digest of every function the front-end model covers (evidence only: a changed
digest makes the checks run with larger counts, it is not an obligation).

The classification is syntactic but normalises harmless variation (docstrings, comments, messages
of the exceptions, the helper variable `seen_types`, an optional `onnx.checker.check_model(model_proto)`
after the re-listing). Anything else becomes `.opaque`, which the accepted shape does not contain;
the driver runs *this* list next to the real `spox.build` on every request of the C03/C12 checks.
"""
import ast
import hashlib

from .common import GEN, HEADER, REPO, lean_list, parse, write_if_changed

SRC = "src/spox/_public.py"
FUNC = "build"

# functions whose behaviour Model/Front.lean, Model/FrontIR.lean, Model/Renames.lean, Model/Memo.lean describe
COVERED = [
    ("src/spox/_public.py", "build"), ("src/spox/_public.py", "_temporary_renames"), ("src/spox/_public.py", "argument"),
    ("src/spox/_build.py", "Builder.discover"), ("src/spox/_build.py", "Builder.get_intro_results"),
    ("src/spox/_build.py", "Builder.build_main"), ("src/spox/_build.py", "Builder.compile_graph"),
    ("src/spox/_graph.py", "results"), ("src/spox/_graph.py", "Graph.with_arguments"),
    ("src/spox/_graph.py", "Graph.to_onnx"), ("src/spox/_graph.py", "Graph.to_onnx_model"),
    ("src/spox/_graph.py", "Graph._get_build_result"), ("src/spox/_graph.py", "Graph.get_arguments"),
    ("src/spox/_graph.py", "Graph.get_results"), ("src/spox/_var.py", "Var._rename"),
]


def _u(n) -> str:
    return ast.unparse(n)


def _raises(body):
    """Name of the exception class raised by the last statement of `body` (earlier statements may
    only prepare the message), else None."""
    if not body or not isinstance(body[-1], ast.Raise) or body[-1].exc is None:
        return None
    for s in body[:-1]:
        if not (isinstance(s, ast.Assign) and len(s.targets) == 1 and isinstance(s.targets[0], ast.Name)):
            return None
    e = body[-1].exc
    e = e.func if isinstance(e, ast.Call) else e
    return e.id if isinstance(e, ast.Name) else None


ERR = {"TypeError": "type", "ValueError": "value", "KeyError": "key"}


class Extract:
    def __init__(self, fn: ast.FunctionDef):
        a = fn.args
        self.ok = len(a.args) == 2 and len(a.kwonlyargs) == 1 and not a.vararg and not a.kwarg and not a.posonlyargs
        if self.ok:
            self.inputs, self.outputs, self.drop = a.args[0].arg, a.args[1].arg, a.kwonlyargs[0].arg
            d = a.kw_defaults[0]
            self.ok = isinstance(d, ast.Constant) and d.value is False
        self.graph = self.model = None

    # -- predicates
    def pred(self, t):
        i, o = self.inputs, self.outputs
        src = _u(t)
        for d, name in ((i, "inputs"), (o, "outputs")):
            if src == f"not all((isinstance(var, Var) for var in {d}.values()))":
                return f".notAllVar .{name}"
        if src == f"not all((isinstance(var._op, Argument) for var in {i}.values()))":
            return ".notAllArg"
        if src == f"not {o}":
            return ".emptyOutputs"
        if self.model and src == f"any((inp.name not in {i} for inp in {self.model}.graph.input))":
            return ".extraInput"
        return None

    def wstmt(self, s):
        i, o, dr = self.inputs, self.outputs, self.drop
        if isinstance(s, ast.Assign) and len(s.targets) == 1 and isinstance(s.targets[0], ast.Name):
            t, v = s.targets[0].id, _u(s.value)
            if v == f"results(**{o})" and self.graph in (None, t):
                self.graph = t
                return ".results"
            if self.graph and v == f"{self.graph}.to_onnx_model()" and self.model in (None, t):
                self.model = t
                return ".toModel"
        if (isinstance(s, ast.If) and not s.orelse and len(s.body) == 1 and self.graph and _u(s.test) == f"not {dr}"
                and _u(s.body[0]) == f"{self.graph} = {self.graph}.with_arguments(*{i}.values())"):
            return ".withArgsUnlessDrop"
        return ".opaque"

    def relist(self, body):
        m, i = self.model, self.inputs
        want = [f"used = {{info.name: info for info in {m}.graph.input}}",
                f"ordered = [used[name] for name in {i} if name in used]",
                f"del {m}.graph.input[:]",
                f"{m}.graph.input.extend(ordered)"]
        got = [_u(x) for x in body if not (isinstance(x, ast.Expr) and isinstance(x.value, ast.Constant))]
        # (since the second drop-order fix) the default values of the surviving inputs are put in the same order
        inits = [f"position = {{info.name: i for i, info in enumerate(ordered)}}",
                 f"defaults = sorted({m}.graph.initializer, key=lambda init: position.get(init.name, len(position)))",
                 f"del {m}.graph.initializer[:]",
                 f"{m}.graph.initializer.extend(defaults)"]
        check = [f"onnx.checker.check_model({m})"]
        return got in (want, want + check, want + inits, want + inits + check)

    def stmt(self, s):
        if isinstance(s, ast.If) and not s.orelse:
            p = self.pred(s.test)
            exc = _raises(s.body)
            if p is not None and exc in ERR:
                return f".guard ({p}) .{ERR[exc]}" if " " in p else f".guard {p} .{ERR[exc]}"
            if self.model and _u(s.test) == self.drop and self.relist(s.body):
                return ".relistIfDrop"
            return ".opaque"
        if isinstance(s, ast.With) and len(s.items) == 1 and s.items[0].optional_vars is None:
            if _u(s.items[0].context_expr) == f"_temporary_renames(**{self.inputs})":
                return ".withRenames " + lean_list([self.wstmt(x) for x in s.body
                                                     if not (isinstance(x, ast.Expr) and isinstance(x.value, ast.Constant))])
            return ".opaque"
        if isinstance(s, ast.Return) and s.value is not None and self.model and _u(s.value) == self.model:
            return ".ret"
        return ".opaque"

    def stmts(self, body):
        out = []
        for s in body:
            if isinstance(s, ast.Expr) and isinstance(s.value, ast.Constant):
                continue  # docstring
            out.append(self.stmt(s))
        return out


def extract():
    try:
        mod = parse(SRC)
    except Exception:  # noqa: BLE001
        return [".opaque"]
    for fn in mod.body:
        if isinstance(fn, ast.FunctionDef) and fn.name == FUNC:
            ex = Extract(fn)
            if not ex.ok or fn.decorator_list:
                return [".opaque"]
            return ex.stmts(fn.body)
    return [".opaque"]


def _find(mod, qual):
    cur = mod.body
    node = None
    for part in qual.split("."):
        node = next((n for n in cur if isinstance(n, (ast.FunctionDef, ast.ClassDef, ast.AsyncFunctionDef)) and n.name == part), None)
        if node is None:
            return None
        cur = node.body
    return node


def digests():
    """{`file::function`: sha1 of the function's AST without docstrings} for the covered functions."""
    out = {}
    for rel, qual in COVERED:
        try:
            mod = ast.parse((REPO / rel).read_text())
            fn = _find(mod, qual)
            if fn is None:
                out[f"{rel}::{qual}"] = "missing"
                continue
            for n in ast.walk(fn):
                if isinstance(n, (ast.FunctionDef, ast.ClassDef, ast.AsyncFunctionDef)) and n.body and isinstance(n.body[0], ast.Expr) \
                        and isinstance(n.body[0].value, ast.Constant) and isinstance(n.body[0].value.value, str):
                    n.body = n.body[1:] or [ast.Pass()]
            out[f"{rel}::{qual}"] = hashlib.sha1(ast.dump(fn, annotate_fields=False).encode()).hexdigest()[:16]
        except Exception as e:  # noqa: BLE001
            out[f"{rel}::{qual}"] = "unreadable:" + type(e).__name__
    return out


def generate() -> dict:
    ir = extract()
    text = "\n".join([
        HEADER.format(src=SRC, tool="translator/build_front_ir.py"),
        "import SpoxModel.Model.FrontIR\n",
        "namespace Generated.BuildFrontIR\nopen FrontIR\n",
        f"/-- `{FUNC}` -/",
        f"def ir : List Stmt := {lean_list(ir)}\n",
        "end Generated.BuildFrontIR\n",
    ])
    write_if_changed(GEN / "BuildFrontIR.lean", text)
    return {"ir": ir, "digests": digests()}


if __name__ == "__main__":
    import json
    print(json.dumps(generate(), indent=1))
