"""tie G (C07): every class under src/spox that defines (or is assigned) `propagate_values`.

The value-propagation model covers exactly the overrides listed in `C07.modelledOverride`
(Node's default, StandardNode, _Inline, _Initializer, the opsets' _Constant). A new override - say a
`_Loop.propagate_values` - is a new source of propagated constants the model knows nothing about:
the generated list then contains an entry for which the obligation `generated_overrides_modelled`
no longer holds. Unparseable files degrade to an `<unparsed>` entry (which is not modelled either).
"""
import ast

from translator.common import GEN, HEADER, REPO, lean_str, write_if_changed


def extract():
    root = REPO / "src" / "spox"
    out = []
    for path in sorted(root.rglob("*.py")):
        rel = path.relative_to(root).as_posix()
        area = "opset" if rel.startswith("opset/") else "core"
        try:
            tree = ast.parse(path.read_text(), filename=str(path))
        except Exception:  # noqa: BLE001 - degrade, never raise
            out.append((area, rel, "<unparsed>"))
            continue
        for node in ast.walk(tree):
            if isinstance(node, ast.ClassDef):
                for item in node.body:
                    if isinstance(item, (ast.FunctionDef, ast.AsyncFunctionDef)) and item.name == "propagate_values":
                        out.append((area, rel, node.name))
                    elif isinstance(item, (ast.Assign, ast.AnnAssign)):
                        targets = item.targets if isinstance(item, ast.Assign) else [item.target]
                        if any(isinstance(t, ast.Name) and t.id == "propagate_values" for t in targets):
                            out.append((area, rel, node.name))
            elif isinstance(node, (ast.Assign, ast.AugAssign)):
                targets = node.targets if isinstance(node, ast.Assign) else [node.target]
                for t in targets:
                    if isinstance(t, ast.Attribute) and t.attr == "propagate_values":
                        out.append((area, rel, "<assigned:" + (ast.unparse(t.value)[:40]) + ">"))
            elif isinstance(node, ast.Call) and isinstance(node.func, ast.Name) and node.func.id == "setattr":
                if len(node.args) >= 2 and isinstance(node.args[1], ast.Constant) and node.args[1].value == "propagate_values":
                    out.append((area, rel, "<setattr>"))
    return sorted(set(out))


def generate():
    entries = extract()
    body = ",\n   ".join(f"({lean_str(a)}, {lean_str(f)}, {lean_str(c)})" for a, f, c in entries)
    text = (
        HEADER.format(src="src/spox/**/*.py", tool="translator/vp_overrides.py")
        + "/-! Every class that overrides `propagate_values` (area, file relative to src/spox, class). -/\n"
        + "namespace Generated.VPOverrides\n\n"
        + "def overrides : List (String × String × String) :=\n  [" + body + "]\n\n"
        + "end Generated.VPOverrides\n"
    )
    write_if_changed(GEN / "VPOverrides.lean", text)
    return entries


if __name__ == "__main__":
    for e in generate():
        print(e)
