"""Regenerate every Generated/*.lean file from /repo's working tree."""
import importlib
import sys
import traceback

MODULES = ["ctx_ir"]


def main() -> int:
    rc = 0
    for m in MODULES:
        try:
            importlib.import_module(f"translator.{m}").generate()
        except Exception:
            traceback.print_exc()
            rc = 1
    return rc


if __name__ == "__main__":
    sys.exit(main())
