"""Regenerate every Generated/*.lean file from /repo's working tree (used by setup.sh).

Every module in this package that defines `generate()` is a translator.
"""
import importlib
import pkgutil
import sys
import traceback

import translator


def main() -> int:
    rc = 0
    for m in sorted(pkgutil.iter_modules(translator.__path__), key=lambda m: m.name):
        if m.name in ("all", "common"):
            continue
        mod = importlib.import_module(f"translator.{m.name}")
        if hasattr(mod, "generate"):
            try:
                mod.generate()
                print(f"translator.{m.name}: ok")
            except Exception:
                traceback.print_exc()
                rc = 1
    return rc


if __name__ == "__main__":
    sys.exit(main())
