"""Extract every state-writing site of the hand-written spox modules (C12 purity).

`Generated/Writes.lean`:
  * `sites`        — every statement in `src/spox/_*.py` that writes to state that can outlive the
                     statement's own frame: attribute assignment / augmented assignment / deletion
                     (`x.a = v`, `x.a[i] = v`, `del x.a[:]`), `setattr`, `object.__setattr__`,
                     `_rename(...)` calls, item writes into module-level containers, `global` rebinding,
                     in-place mutator calls (`add`, `update`, `setdefault`, `append`, `CopyFrom` …) on an
                     attribute chain rooted at `self`, a parameter or a global (`self.x.add(v)`,
                     `node.__dict__.setdefault(…)`, `vars(node).update(…)`: kind `mutate-attr`).
                     Each with: file, enclosing qualified function, receiver root, attribute,
                     kind, whether it is a constructor write to `self`, whether it sits in a
                     `finally` clause, and whether it sits in the body of a `try … finally`.
  * `inlineEvents` — what `_public.inline` does with its `model` parameter, in source order:
                     `read`, `copy` (`model = _copy_model(model)`), `mutate`, `closure`
                     (definition of the returned callback).
  * `moduleMutables` — module-level assignments of a container literal / comprehension / call result
                     (candidates for a cache that outlives a build): [file, name, constructor].
  * `decorators`   — every decorator of a function or class (memoising decorators — `lru_cache`, `cache`,
                     `cached_property` — keep state without any write site): [file, qualified name, decorator].
  * `dictAccess`   — every use of `x.__dict__` / `vars(x)` (the back door around attribute assignment).
The Lean side (`Model/Purity.lean`) states which sites are allowed; `Props/C12.lean` proves that the
extracted table contains nothing else. Local-variable and parameter rebinding is not state.
"""
import ast

from .common import GEN, HEADER, REPO, dotted, lean_bool, lean_list, lean_str, write_if_changed

CTORS = {"__init__", "__post_init__", "post_init", "pre_init", "__new__", "__init_subclass__"}
MUTATORS = {"CopyFrom", "MergeFrom", "extend", "append", "reverse", "clear", "pop", "remove", "insert",
            "sort", "ClearField", "ParseFromString", "update", "add", "discard", "setdefault"}


def _root(node):
    """Root Name of an attribute/subscript/call chain, and the dotted receiver (sans last attr)."""
    n = node
    while isinstance(n, (ast.Attribute, ast.Subscript, ast.Call)):
        n = n.value if not isinstance(n, ast.Call) else n.func
    return n.id if isinstance(n, ast.Name) else None


class Visitor(ast.NodeVisitor):
    def __init__(self, file, module_names):
        self.file = file
        self.module_names = module_names
        self.stack = []  # qualname parts
        self.fin = 0
        self.tryf = 0
        self.locals = [set()]
        self.params = [set()]
        self.sites = []
        self.dict_access = []

    # -- scopes
    def visit_ClassDef(self, node):
        self.stack.append(node.name)
        self.generic_visit(node)
        self.stack.pop()

    def _func(self, node):
        self.stack.append(node.name)
        loc = {a.arg for a in node.args.args + node.args.kwonlyargs + node.args.posonlyargs}
        if node.args.vararg:
            loc.add(node.args.vararg.arg)
        if node.args.kwarg:
            loc.add(node.args.kwarg.arg)
        globs = set()
        for sub in ast.walk(node):
            if isinstance(sub, ast.Global):
                globs |= set(sub.names)
        for sub in ast.walk(node):
            if isinstance(sub, ast.Name) and isinstance(sub.ctx, ast.Store) and sub.id not in globs:
                loc.add(sub.id)
        self.params.append({a.arg for a in node.args.args + node.args.kwonlyargs + node.args.posonlyargs}
                           | ({node.args.vararg.arg} if node.args.vararg else set())
                           | ({node.args.kwarg.arg} if node.args.kwarg else set()))
        self.locals.append(loc)
        saved = (self.fin, self.tryf)
        self.fin = self.tryf = 0
        self.generic_visit(node)
        self.fin, self.tryf = saved
        self.locals.pop()
        self.params.pop()
        self.stack.pop()

    visit_FunctionDef = _func
    visit_AsyncFunctionDef = _func

    def visit_Try(self, node):
        if node.finalbody:
            self.tryf += 1
        for s in node.body + node.orelse:
            self.visit(s)
        for h in node.handlers:
            self.visit(h)
        if node.finalbody:
            self.tryf -= 1
            self.fin += 1
            for s in node.finalbody:
                self.visit(s)
            self.fin -= 1

    # -- sites
    def add(self, recv, attr, kind):
        func = ".".join(self.stack) or "<module>"
        ctor = recv == "self" and bool(self.stack) and self.stack[-1] in CTORS
        self.sites.append({"file": self.file, "func": func, "recv": recv or "?", "attr": attr, "kind": kind,
                           "ctor": ctor, "fin": self.fin > 0, "tryf": self.tryf > 0})

    def target(self, t, kind):
        if isinstance(t, (ast.Tuple, ast.List)):
            for e in t.elts:
                self.target(e, kind)
            return
        if isinstance(t, ast.Starred):
            return self.target(t.value, kind)
        base = t
        item = False
        while isinstance(base, ast.Subscript):
            base, item = base.value, True
        if isinstance(base, ast.Attribute):
            self.add(dotted(base.value) or _root(base), base.attr, kind + ("-item" if item else ""))
        elif isinstance(base, ast.Call) and dotted(base.func) == "vars" and base.args:
            self.add(dotted(base.args[0]) or _root(base.args[0]), "__dict__", kind + "-item")
        elif isinstance(base, ast.Name) and item:
            # item write into a module-level container (a cache)
            if self.stack and base.id in self.module_names and base.id not in self.locals[-1]:
                self.add("<global>", base.id, kind + "-item")
            elif not self.stack and base.id in self.module_names:
                pass  # module initialisation
        elif isinstance(base, ast.Name) and not item and self.stack:
            if base.id in self.module_names and base.id not in self.locals[-1]:
                self.add("<global>", base.id, kind + "-global")

    def visit_Assign(self, node):
        for t in node.targets:
            self.target(t, "assign")
        self.generic_visit(node)

    def visit_AugAssign(self, node):
        self.target(node.target, "assign")
        self.generic_visit(node)

    def visit_AnnAssign(self, node):
        if node.value is not None:
            self.target(node.target, "assign")
        self.generic_visit(node)

    def visit_Delete(self, node):
        for t in node.targets:
            self.target(t, "del")
        self.generic_visit(node)

    def visit_Call(self, node):
        f = node.func
        name = dotted(f)
        if name == "setattr" and node.args:
            self.add(dotted(node.args[0]) or _root(node.args[0]), "<dynamic>", "setattr")
        elif name == "object.__setattr__" and node.args:
            a = node.args[1].value if len(node.args) > 1 and isinstance(node.args[1], ast.Constant) else "<dynamic>"
            self.add(dotted(node.args[0]) or _root(node.args[0]), str(a), "setattr")
        elif isinstance(f, ast.Attribute) and f.attr == "_rename":
            self.add(dotted(f.value) or _root(f.value), "_name", "rename")
        elif isinstance(f, ast.Attribute) and f.attr in MUTATORS and self.stack:
            # in-place mutation of a module-level container
            r = f.value
            if isinstance(r, ast.Name) and r.id in self.module_names and r.id not in self.locals[-1]:
                self.add("<global>", r.id, "mutate-global")
            elif isinstance(r, (ast.Attribute, ast.Subscript, ast.Call)):
                # … or of something reached through an attribute chain from `self`, a parameter or a global
                base = r
                through_vars = None
                while isinstance(base, (ast.Subscript, ast.Call)):
                    if isinstance(base, ast.Call):
                        if dotted(base.func) == "vars" and base.args:
                            through_vars = base.args[0]
                        base = base.func
                    else:
                        base = base.value
                root = _root(through_vars if through_vars is not None else r)
                lasting = root is not None and (root in self.params[-1] or root not in self.locals[-1])
                if through_vars is not None and lasting:
                    self.add(dotted(through_vars) or root, "__dict__", "mutate-attr")
                elif isinstance(base, ast.Attribute) and lasting:
                    self.add(dotted(base.value) or root, base.attr, "mutate-attr")
        if dotted(f) == "vars":
            self.dict_access.append([self.file, ".".join(self.stack) or "<module>"])
        self.generic_visit(node)

    def visit_Attribute(self, node):
        if node.attr == "__dict__":
            self.dict_access.append([self.file, ".".join(self.stack) or "<module>"])
        self.generic_visit(node)


def module_level_names(mod):
    names = set()
    for s in mod.body:
        for t in (s.targets if isinstance(s, ast.Assign) else [s.target] if isinstance(s, (ast.AnnAssign, ast.AugAssign)) else []):
            if isinstance(t, ast.Name):
                names.add(t.id)
    return names


def extract_sites(with_dict_access=False):
    sites = []
    dict_access = []
    for path in sorted((REPO / "src" / "spox").glob("_*.py")):
        if path.name in ("__init__.py", "_version.py"):
            continue
        mod = ast.parse(path.read_text(), filename=str(path))
        v = Visitor(path.name, module_level_names(mod))
        v.visit(mod)
        sites.extend(v.sites)
        dict_access.extend(v.dict_access)
    return (sites, dict_access) if with_dict_access else sites


def extract_module_mutables():
    """Module-level `name = <container literal | comprehension | call>`: [file, name, constructor]
    (constructor = 'literal' or the dotted name of the called function)."""
    out = []
    for path in sorted((REPO / "src" / "spox").glob("_*.py")):
        if path.name in ("__init__.py", "_version.py"):
            continue
        mod = ast.parse(path.read_text(), filename=str(path))
        stmts = list(mod.body)
        for st in list(stmts):  # also inside module-level if/try blocks
            if isinstance(st, (ast.If, ast.Try)):
                stmts.extend(st.body + st.orelse + (st.finalbody if isinstance(st, ast.Try) else []))
                for h in getattr(st, "handlers", []):
                    stmts.extend(h.body)
        for st in stmts:
            tgs, val = [], None
            if isinstance(st, ast.Assign):
                tgs, val = st.targets, st.value
            elif isinstance(st, ast.AnnAssign) and st.value is not None:
                tgs, val = [st.target], st.value
            if val is None:
                continue
            if isinstance(val, (ast.Dict, ast.List, ast.Set, ast.ListComp, ast.DictComp, ast.SetComp)):
                ctor = "literal"
            elif isinstance(val, ast.Call):
                ctor = dotted(val.func) or "<call>"
            else:
                continue
            for t in tgs:
                out.append([path.name, dotted(t) or "?", ctor])
    return out


def extract_decorators():
    """[file, qualified name of the decorated function/class, decorator (dotted name of what is applied)]."""
    out = []
    for path in sorted((REPO / "src" / "spox").glob("_*.py")):
        if path.name in ("__init__.py", "_version.py"):
            continue
        mod = ast.parse(path.read_text(), filename=str(path))

        def rec(node, stack):
            for ch in ast.iter_child_nodes(node):
                if isinstance(ch, (ast.FunctionDef, ast.AsyncFunctionDef, ast.ClassDef)):
                    for d in ch.decorator_list:
                        out.append([path.name, ".".join(stack + [ch.name]),
                                    (dotted(d.func) if isinstance(d, ast.Call) else dotted(d)) or "<expr>"])
                    rec(ch, stack + [ch.name])
                else:
                    rec(ch, stack)

        rec(mod, [])
    return out


def extract_inline_events():
    """Source-order events on the `model` parameter of `_public.inline`."""
    mod = ast.parse((REPO / "src/spox/_public.py").read_text())
    fn = next((f for f in mod.body if isinstance(f, ast.FunctionDef) and f.name == "inline"), None)
    if fn is None or not fn.args.args:
        return ["missing"]
    param = fn.args.args[0].arg
    events = []

    def mentions(node):
        return any(isinstance(n, ast.Name) and n.id == param for n in ast.walk(node))

    def is_mutation(s):
        # assignment/deletion through the parameter, or a mutating method call on something reached from it
        for n in ast.walk(s):
            if isinstance(n, (ast.Assign, ast.AugAssign, ast.AnnAssign, ast.Delete)):
                tg = n.targets if isinstance(n, (ast.Assign, ast.Delete)) else [n.target]
                for t in tg:
                    b = t
                    while isinstance(b, (ast.Subscript, ast.Attribute)):
                        if isinstance(b, ast.Attribute) and _root(b) == param:
                            return True
                        b = b.value
            if isinstance(n, ast.Call) and isinstance(n.func, ast.Attribute) and n.func.attr in MUTATORS:
                if _root(n.func.value) == param:
                    return True
        return False

    def loop_vars_from_param(s):
        return isinstance(s, ast.For) and mentions(s.iter)

    for s in fn.body:
        if isinstance(s, ast.Expr) and isinstance(s.value, ast.Constant):
            continue
        if isinstance(s, ast.FunctionDef):
            events.append("closure" if mentions(s) else "closure-free")
            continue
        if (isinstance(s, ast.Assign) and len(s.targets) == 1 and isinstance(s.targets[0], ast.Name)
                and s.targets[0].id == param):
            v = s.value
            if (isinstance(v, ast.Call) and dotted(v.func) in ("_copy_model", "copy.deepcopy")
                    and len(v.args) == 1 and isinstance(v.args[0], ast.Name) and v.args[0].id == param):
                events.append("copy")
            else:
                events.append("rebind")
            continue
        if is_mutation(s):
            events.append("mutate")
        elif loop_vars_from_param(s):
            # `for info in chain(model.graph.input, …): info.type.CopyFrom(…)` mutates through the loop variable
            muts = any(isinstance(n, ast.Call) and isinstance(n.func, ast.Attribute) and n.func.attr in MUTATORS
                       for n in ast.walk(s))
            events.append("mutate" if muts else "read")
        elif mentions(s):
            events.append("read")
    return events


MUTABLE_CALLS = {"set", "dict", "list", "defaultdict", "OrderedDict", "collections.defaultdict",
                 "collections.OrderedDict", "Counter", "collections.Counter", "deque", "collections.deque", "bytearray"}


def _is_mutable_literal(v):
    if isinstance(v, (ast.Dict, ast.List, ast.Set, ast.ListComp, ast.DictComp, ast.SetComp)):
        return True
    return isinstance(v, ast.Call) and dotted(v.func) in MUTABLE_CALLS


def extract_class_mutables():
    """Class-body assignments of mutable containers (`x: Set[...] = set()`, `cache = {}`): one object
    shared by every instance — state that outlives a build. [file, class, attribute]."""
    out = []
    for path in sorted((REPO / "src" / "spox").glob("_*.py")):
        if path.name in ("__init__.py", "_version.py"):
            continue
        mod = ast.parse(path.read_text(), filename=str(path))
        for cls in [n for n in ast.walk(mod) if isinstance(n, ast.ClassDef)]:
            for st in cls.body:
                tg, val = None, None
                if isinstance(st, ast.Assign) and len(st.targets) == 1 and isinstance(st.targets[0], ast.Name):
                    tg, val = st.targets[0].id, st.value
                elif isinstance(st, ast.AnnAssign) and isinstance(st.target, ast.Name) and st.value is not None:
                    tg, val = st.target.id, st.value
                if tg is not None and _is_mutable_literal(val):
                    out.append([path.name, cls.name, tg])
    return out


def site_lean(s):
    return ("⟨" + ", ".join([lean_str(s["file"]), lean_str(s["func"]), lean_str(s["recv"]), lean_str(s["attr"]),
                             lean_str(s["kind"]), lean_bool(s["ctor"]), lean_bool(s["fin"]), lean_bool(s["tryf"])]) + "⟩")


def _triples(name, rows):
    return (f"def {name} : List (String × String × String) := " + lean_list(
        ["(" + ", ".join(lean_str(x) for x in m) + ")" for m in rows]) + "\n")


def generate() -> dict:
    sites, dict_access = extract_sites(with_dict_access=True)
    extra = {}
    for key, fn in (("module_mutables", extract_module_mutables), ("decorators", extract_decorators)):
        try:
            extra[key] = fn()
        except Exception as e:  # noqa: BLE001 - degrade to an entry whose obligation fails
            extra[key] = [["<unreadable>", type(e).__name__, "<unreadable>"]]
    events = extract_inline_events()
    try:
        mutables = extract_class_mutables()
    except Exception as e:  # noqa: BLE001
        mutables = [["<unreadable>", type(e).__name__, "?"]]
    lines = [HEADER.format(src="src/spox/_*.py", tool="translator/writes.py"),
             "import SpoxModel.Model.Purity\n",
             "namespace Generated.Writes\nopen Purity\n",
             "def sites : List Site := ["]
    lines.append(",\n".join("  " + site_lean(s) for s in sites))
    lines.append("]\n")
    lines.append(f"def inlineEvents : List Ev := {lean_list(['.' + e.replace('-', '_') for e in events])}\n")
    lines.append("def classMutables : List (String × String × String) := " + lean_list(
        ["(" + ", ".join(lean_str(x) for x in m) + ")" for m in mutables]) + "\n")
    lines.append(_triples("moduleMutables", extra["module_mutables"]))
    lines.append(_triples("decorators", extra["decorators"]))
    lines.append("def dictAccess : List (String × String) := " + lean_list(
        ["(" + ", ".join(lean_str(x) for x in m) + ")" for m in dict_access]) + "\n")
    lines.append("end Generated.Writes\n")
    write_if_changed(GEN / "Writes.lean", "\n".join(lines))
    return {"sites": sites, "inline_events": events, "class_mutables": mutables, "dict_access": dict_access, **extra}


if __name__ == "__main__":
    import json
    d = generate()
    for s in d["sites"]:
        print(s["file"], s["func"], s["recv"], s["attr"], s["kind"], "ctor" if s["ctor"] else "", "fin" if s["fin"] else "", "tryf" if s["tryf"] else "")
    print(d["inline_events"])
