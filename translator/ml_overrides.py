"""C06 tie G: which operator classes override `infer_output_types`, regenerated from the source.

Walks every module under src/spox/opset/ (AST, nothing imported) and lists the `StandardNode`
subclasses that define their own `infer_output_types`, with the operator identity from `op_type`.
The list is written to Generated/MLOverrides.lean; `Props/C06.lean` proves it equal to the list of
routines the model covers (`C06M.modelledOverrides`), so an added / removed / moved override breaks a
proof obligation. A normalised-AST hash per routine is returned for the evidence file (a changed
hash is not a violation; it is reported so a reader sees which routine moved).
"""
import ast
import hashlib

from .common import GEN, HEADER, REPO, lean_list, lean_str, write_if_changed

OPSET_DIR = "src/spox/opset"


def _op_type(cls: ast.ClassDef):
    for st in cls.body:
        if isinstance(st, ast.Assign) and any(isinstance(t, ast.Name) and t.id == "op_type" for t in st.targets):
            v = st.value
            if isinstance(v, ast.Call) and len(v.args) == 3 and all(isinstance(a, ast.Constant) for a in v.args):
                return tuple(a.value for a in v.args)
    return None


def scan() -> list[dict]:
    out = []
    root = REPO / OPSET_DIR
    for path in sorted(root.rglob("*.py")):
        rel = str(path.relative_to(REPO))
        try:
            mod = ast.parse(path.read_text(), filename=rel)
        except Exception:  # noqa: BLE001 - unreadable module: an entry that no modelled list contains
            out.append({"module": rel, "cls": "<unparsable>", "op": "?", "domain": "?", "version": 0, "hash": ""})
            continue
        for cls in mod.body:
            if not isinstance(cls, ast.ClassDef):
                continue
            for st in cls.body:
                if isinstance(st, ast.FunctionDef) and st.name == "infer_output_types":
                    ot = _op_type(cls) or ("?", "?", 0)
                    h = hashlib.sha1(ast.dump(st, include_attributes=False).encode()).hexdigest()[:12]
                    out.append(
                        {"module": rel[len(OPSET_DIR) + 1 : -3].replace("/", "."), "cls": cls.name, "op": ot[0],
                         "domain": ot[1], "version": ot[2], "hash": h}
                    )
    return out


def scan_value() -> list[dict]:
    """Every class anywhere under src/spox that defines `propagate_values` (a propagated value ends up
    in reported shapes through ONNX's data propagation, so a new definition is a new way for a
    reported type to depend on a value)."""
    out = []
    root = REPO / "src/spox"
    for path in sorted(root.rglob("*.py")):
        rel = str(path.relative_to(root))[:-3].replace("/", ".")
        try:
            mod = ast.parse(path.read_text(), filename=rel)
        except Exception:  # noqa: BLE001
            out.append({"module": rel, "cls": "<unparsable>", "hash": ""})
            continue
        for cls in ast.walk(mod):
            if isinstance(cls, ast.ClassDef):
                for st in cls.body:
                    if isinstance(st, ast.FunctionDef) and st.name == "propagate_values":
                        h = hashlib.sha1(ast.dump(st, include_attributes=False).encode()).hexdigest()[:12]
                        out.append({"module": rel, "cls": cls.name, "hash": h})
    return out


GLUE = {
    "src/spox/_standard.py": ["StandardNode.to_singleton_onnx_model", "StandardNode.infer_output_types_onnx",
                              "StandardNode.propagate_values_onnx", "StandardNode.infer_output_types",
                              "StandardNode.propagate_values", "StandardNode._is_non_deterministic",
                              "_strip_dim_symbol_shape", "_strip_dim_symbol", "_make_dummy_subgraph"],
    "src/spox/_inline.py": ["_Inline.infer_output_types", "_Inline.propagate_values"],
    "src/spox/_node.py": ["Node.inference", "Node.subgraphs"],
    "src/spox/_function.py": ["Function.infer_output_types"],
}


def scan_glue() -> list[dict]:
    """Normalised-AST hash of every glue function the reported types pass through (not an obligation:
    a changed hash makes the harness escalate its counts, see harness/props/c06.py)."""
    out = []
    for rel, names in GLUE.items():
        try:
            mod = ast.parse((REPO / rel).read_text(), filename=rel)
        except Exception:  # noqa: BLE001
            out += [{"file": rel, "name": n, "hash": "unparsable"} for n in names]
            continue
        found = {}
        for node in mod.body:
            if isinstance(node, (ast.FunctionDef, ast.AsyncFunctionDef)):
                found[node.name] = node
            elif isinstance(node, ast.ClassDef):
                for st in node.body:
                    if isinstance(st, (ast.FunctionDef, ast.AsyncFunctionDef)):
                        found[f"{node.name}.{st.name}"] = st
        for n in names:
            st = found.get(n)
            h = hashlib.sha1(ast.dump(st, include_attributes=False).encode()).hexdigest()[:12] if st is not None else "missing"
            out.append({"file": rel, "name": n, "hash": h})
    return out


def scan_sampling_guard() -> list[str]:
    """The operator names in `_standard._NON_DETERMINISTIC_OPS` (no value propagation for them), and only
    if `propagate_values_onnx` still consults `_is_non_deterministic`; [] otherwise."""
    try:
        mod = ast.parse((REPO / "src/spox/_standard.py").read_text())
    except Exception:  # noqa: BLE001
        return []
    names: list[str] = []
    for node in mod.body:
        if isinstance(node, ast.Assign) and any(isinstance(t, ast.Name) and t.id == "_NON_DETERMINISTIC_OPS" for t in node.targets):
            names = sorted({c.value for c in ast.walk(node.value) if isinstance(c, ast.Constant) and isinstance(c.value, str)})
    consulted = False
    for node in ast.walk(mod):
        if isinstance(node, ast.FunctionDef) and node.name == "propagate_values_onnx":
            consulted = any(isinstance(c, ast.Call) and isinstance(c.func, ast.Attribute) and c.func.attr == "_is_non_deterministic"
                            for c in ast.walk(node))
    return names if consulted else []


def generate() -> dict:
    rows = scan()
    vrows = scan_value()
    vitems = [f"({lean_str(r['module'])}, {lean_str(r['cls'])})" for r in vrows]
    guard = scan_sampling_guard()
    items = [f"({lean_str(r['module'])}, {lean_str(r['op'])})" for r in rows]
    text = (
        HEADER.format(src=OPSET_DIR + "/**/*.py", tool="translator/ml_overrides.py")
        + "/-! Operator classes that define their own `infer_output_types` (module, operator). -/\n"
        + "namespace Generated.MLOverrides\n\n"
        + "def overrides : List (String × String) :=\n  "
        + lean_list(items).replace("), (", "),\n   (")
        + "\n\n/-- Classes that define their own `propagate_values` (module under src/spox, class). -/\n"
        + "def valueOverrides : List (String × String) :=\n  "
        + lean_list(vitems).replace("), (", "),\n   (")
        + "\n\n/-- Operators excluded from value propagation (`_NON_DETERMINISTIC_OPS`, consulted by\n"
        + "    `propagate_values_onnx`; empty when the guard is gone). -/\n"
        + "def samplingGuard : List String :=\n  "
        + lean_list([lean_str(n) for n in guard])
        + "\n\nend Generated.MLOverrides\n"
    )
    write_if_changed(GEN / "MLOverrides.lean", text)
    return {"rows": rows, "value_rows": vrows, "glue": scan_glue(), "sampling_guard": guard}


if __name__ == "__main__":
    import json

    print(json.dumps(generate(), indent=1))
