"""tie G (C15): every place under src/spox that reads or writes a Var's propagated value (`<expr>._value`,
`<expr>._get_value()`), with the enclosing function; for the BUILD path (`_adapt.py`) also the exact expression.

The property's last clause ("switching propagation off changes no built model's behaviour") holds because nothing
on the build path looks at propagated values: `adapt_node` mentions `var._value` only in a test that is never true
(`isinstance(var._value, np.ndarray)` - `_value` is a PropValue or None). `C15.generated_value_readers_modelled`
lists the readers the model accounts for; a new reader (or a changed expression in `_adapt.py`) breaks it whatever
inputs are generated. `self._value` inside classes other than `Var` (attributes, cached build results) is not a Var's value.
"""
import ast

from translator.common import GEN, HEADER, REPO, lean_str, write_if_changed

EXACT_FILES = {"_adapt.py", "_build.py", "_graph.py", "_scope.py", "_function.py"}


def extract():
    root = REPO / "src" / "spox"
    out = set()
    for path in sorted(root.rglob("*.py")):
        rel = path.relative_to(root).as_posix()
        try:
            tree = ast.parse(path.read_text())
        except Exception:  # noqa: BLE001
            out.add((rel, "<unparsed>", ""))
            continue
        parents = {}
        for n in ast.walk(tree):
            for c in ast.iter_child_nodes(n):
                parents[c] = n

        def scope_of(n):
            names, cls = [], None
            while n in parents:
                n = parents[n]
                if isinstance(n, (ast.FunctionDef, ast.AsyncFunctionDef, ast.ClassDef)):
                    names.append(n.name)
                    if isinstance(n, ast.ClassDef) and cls is None:
                        cls = n.name
            return ".".join(reversed(names)) or "<module>", cls

        for n in ast.walk(tree):
            hit = None
            if isinstance(n, ast.Attribute) and n.attr == "_value":
                qual, cls = scope_of(n)
                if isinstance(n.value, ast.Name) and n.value.id == "self" and cls != "Var":
                    continue  # some other class's private field
                if isinstance(n.value, ast.Name) and n.value.id in ("_key", "_value"):
                    continue
                hit = qual
            elif isinstance(n, ast.Attribute) and n.attr == "_get_value":
                hit = scope_of(n)[0]
            if hit is None:
                continue
            detail = ""
            if rel in EXACT_FILES:
                p = parents.get(n)
                while p is not None and not isinstance(p, (ast.Call, ast.Compare, ast.stmt)):
                    p = parents.get(p)
                detail = ast.unparse(p)[:120] if p is not None else ast.unparse(n)
            out.add((rel, hit, detail))
    return sorted(out)


def generate():
    try:
        entries = extract()
    except Exception:  # noqa: BLE001 - degrade, never raise
        entries = [("<unavailable>", "<unavailable>", "")]
    body = ",\n   ".join(f"({lean_str(a)}, {lean_str(b)}, {lean_str(c)})" for a, b, c in entries)
    text = (
        HEADER.format(src="src/spox/**/*.py", tool="translator/vp_value_readers.py")
        + "/-! Every (file, function, expression on the build path) that touches a Var's propagated value. -/\n"
        + "namespace Generated.VPValueReaders\n\n"
        + "def readers : List (String × String × String) :=\n  [" + body + "]\n\n"
        + "end Generated.VPValueReaders\n"
    )
    write_if_changed(GEN / "VPValueReaders.lean", text)
    return entries


if __name__ == "__main__":
    for e in generate():
        print(e)
