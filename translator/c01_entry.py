"""C01 tie G: the inventory of build routes and options the C01 check exercises.

From the source on every run (signatures only — bodies may be rewritten freely):

  * `buildOptions`    keyword options of `spox.build` beyond (inputs, outputs), with their defaults
  * `toModelOptions`  keyword options of `Graph.to_onnx_model`, with their defaults
  * `graphSetters`    the public `with_*` methods of `Graph`
  * `buildPositional` the positional parameters of `spox.build`

`Props/C01.lean` proves (by `decide`) that every listed option is one the harness varies
(`generated_entry_options_exercised`) and that `drop_unused_inputs` defaults to `False` (the default
build lists every caller input: the main graph of `valid_sound`; `True` is `dropUnused`).  A new
option, setter or a changed default — a new way to build — fails the obligation whatever programs
are generated.  What cannot be read degrades to an `<unrecognised …>` entry, which fails it too.
Generated: lean/SpoxModel/Generated/C01Entry.lean.
"""
import ast

from .common import GEN, HEADER, lean_list, lean_str, parse, write_if_changed


def _options(fn: ast.FunctionDef, skip=()):
    a = fn.args
    out = []
    pos = list(a.posonlyargs) + list(a.args)
    defaults = [None] * (len(pos) - len(a.defaults)) + list(a.defaults)
    for p, d in zip(pos, defaults):
        if p.arg in skip or d is None:
            continue
        out.append((p.arg, ast.unparse(d)))
    for p, d in zip(a.kwonlyargs, a.kw_defaults):
        out.append((p.arg, "<required>" if d is None else ast.unparse(d)))
    if a.vararg is not None:
        out.append(("*" + a.vararg.arg, "<varargs>"))
    if a.kwarg is not None:
        out.append(("**" + a.kwarg.arg, "<kwargs>"))
    return out


def extract() -> dict:
    info = {"buildOptions": [("<unrecognised spox.build>", "?")], "buildPositional": ["<unrecognised>"],
            "toModelOptions": [("<unrecognised Graph.to_onnx_model>", "?")], "graphSetters": ["<unrecognised Graph>"]}
    try:
        mod = parse("src/spox/_public.py")
        fn = next(f for f in mod.body if isinstance(f, ast.FunctionDef) and f.name == "build")
        info["buildOptions"] = _options(fn)
        a = fn.args
        n_def = len(a.defaults)
        pos = list(a.posonlyargs) + list(a.args)
        info["buildPositional"] = [p.arg for p in (pos[: len(pos) - n_def] if n_def else pos)]
    except Exception:  # noqa: BLE001 - degrade: the obligation fails
        pass
    try:
        mod = parse("src/spox/_graph.py")
        cls = next(c for c in mod.body if isinstance(c, ast.ClassDef) and c.name == "Graph")
        fns = {f.name: f for f in cls.body if isinstance(f, ast.FunctionDef)}
        info["toModelOptions"] = _options(fns["to_onnx_model"], skip=("self",))
        info["graphSetters"] = sorted(n for n in fns if n.startswith("with_"))
    except Exception:  # noqa: BLE001
        pass
    return info


def generate() -> dict:
    info = extract()

    def pairs(xs):
        return lean_list([f"({lean_str(a)}, {lean_str(b)})" for a, b in xs])

    text = HEADER.format(src="src/spox/_public.py (build), src/spox/_graph.py (Graph)", tool="translator/c01_entry.py")
    text += "\nnamespace Generated.C01Entry\n\n"
    text += "/-- positional parameters of `spox.build` -/\n"
    text += f"def buildPositional : List String := {lean_list([lean_str(x) for x in info['buildPositional']])}\n\n"
    text += "/-- keyword options of `spox.build` with their defaults -/\n"
    text += f"def buildOptions : List (String × String) := {pairs(info['buildOptions'])}\n\n"
    text += "/-- keyword options of `Graph.to_onnx_model` with their defaults -/\n"
    text += f"def toModelOptions : List (String × String) := {pairs(info['toModelOptions'])}\n\n"
    text += "/-- the public `with_*` methods of `Graph` -/\n"
    text += f"def graphSetters : List String := {lean_list([lean_str(x) for x in info['graphSetters']])}\n\n"
    text += "end Generated.C01Entry\n"
    write_if_changed(GEN / "C01Entry.lean", text)
    return info


if __name__ == "__main__":
    print(generate())
