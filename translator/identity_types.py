"""Tie G for C02: from which opset version on does ONNX's `Identity` accept a tensor / a sequence / an optional?
Read from `onnx.defs` (all schema versions of Identity in the default domain) on every run.

spox forwards values with Identity nodes of its own (`build`'s wrapping of requested outputs, `intros`, the
pass-through of an inlined model whose output is directly an input); the internal operators' `opset_req` has to
be at least these versions. Generated: lean/SpoxModel/Generated/IdentityTypes.lean.
"""
from .common import GEN, HEADER, write_if_changed

KINDS = [("tensor", "tensor("), ("seq", "seq("), ("optional", "optional(")]


def extract() -> dict:
    import onnx

    schemas = [s for s in onnx.defs.get_all_schemas_with_history() if s.name == "Identity" and s.domain in ("", "ai.onnx")]
    out = {}
    for kind, prefix in KINDS:
        ok = sorted(s.since_version for s in schemas
                    if any(t.startswith(prefix) for tc in s.type_constraints for t in tc.allowed_type_strs))
        # 10**6 = never accepted (the generated obligation then fails)
        out[kind] = ok[0] if ok else 10**6
        later = [s.since_version for s in schemas if ok and s.since_version > ok[0]]
        if ok and any(v not in ok for v in later):
            out[kind] = 10**6  # accepted once and dropped again: not a plain lower bound
    out["versions"] = sorted(s.since_version for s in schemas)
    return out


def generate() -> dict:
    t = extract()
    text = (HEADER.format(src="onnx.defs (Identity, all versions)", tool="translator/identity_types.py")
            + "\nnamespace Generated.IdentityTypes\n\n"
            + "/-- smallest opset version whose `Identity` accepts a tensor / seq(...) / optional(...) input; "
              "1000000 = none. -/\n"
            + f"def minTensor : Nat := {t['tensor']}\n"
            + f"def minSeq : Nat := {t['seq']}\n"
            + f"def minOptional : Nat := {t['optional']}\n"
            + f"def identityVersions : List Nat := [{', '.join(map(str, t['versions']))}]\n"
            + "\nend Generated.IdentityTypes\n")
    write_if_changed(GEN / "IdentityTypes.lean", text)
    return t
