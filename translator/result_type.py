"""Tie G for C17: tabulate numpy's promotion rules and ONNX's operator type constraints.

Executed on every run:
  * `np.result_type(x, y)` and `np.result_type(x)` over every pair of *target kinds* the dispatcher
    can hand to it: the 12 dtypes (11 numeric + bool, as `np.dtype` objects = Vars), a Python int,
    a Python float, a Python bool, and a numpy scalar of each of the 12 dtypes;
  * the dtype numpy itself gives to `a <op> b` (arrays for Vars, the scalars themselves otherwise)
    for + - * / // and unary -  — the specification side of `result_dtype_matches`;
  * `issubclass(dtype.type, np.floating / np.integer / np.signedinteger)`, item sizes;
  * the input type constraints of the ONNX operators the dispatcher emits (onnx.defs, the opset
    version of the opset module the harness uses).
"""
from __future__ import annotations

import operator
import warnings

from .common import GEN, HEADER, lean_bool, lean_list, lean_opt, lean_str, write_if_changed

DTYPES = ["int8", "int16", "int32", "int64", "uint8", "uint16", "uint32", "uint64",
          "float16", "float32", "float64", "bool"]
N = len(DTYPES)
K_PYINT, K_PYFLOAT, K_PYBOOL, K_NPSCALAR = N, N + 1, N + 2, N + 3
NKINDS = K_NPSCALAR + N
BIN_OPS = ["add", "sub", "mul", "truediv", "floordiv"]
ONNX_OPS = ["Add", "Sub", "Mul", "Div", "Neg", "Floor", "And", "Or", "Xor", "Not", "Equal", "Less", "Cast"]
OPSET = 17


def kind_name(k):
    if k < N:
        return f"Var[{DTYPES[k]}]"
    if k == K_PYINT:
        return "int"
    if k == K_PYFLOAT:
        return "float"
    if k == K_PYBOOL:
        return "bool"
    return f"np.{DTYPES[k - K_NPSCALAR]}"


def target(k):
    """What `_promote` puts in `targets` for an operand of kind k."""
    import numpy as np

    if k < N:
        return np.dtype(DTYPES[k])
    if k == K_PYINT:
        return 3
    if k == K_PYFLOAT:
        return 2.5
    if k == K_PYBOOL:
        return True
    return np.dtype(DTYPES[k - K_NPSCALAR]).type(1)


def np_operand(k):
    """The numpy counterpart of an operand of kind k (a Var is an array)."""
    import numpy as np

    if k < N:
        return np.ones((2,), dtype=DTYPES[k])
    return target(k)


def code(dt):
    import numpy as np

    name = np.dtype(dt).name
    return DTYPES.index(name) if name in DTYPES else None


def tabulate() -> dict:
    import numpy as np
    import onnx

    fn = {"add": operator.add, "sub": operator.sub, "mul": operator.mul,
          "truediv": operator.truediv, "floordiv": operator.floordiv}
    with warnings.catch_warnings(), np.errstate(all="ignore"):
        warnings.simplefilter("ignore")
        rt2 = []
        for a in range(NKINDS):
            row = []
            for b in range(NKINDS):
                try:
                    row.append(code(np.result_type(target(a), target(b))))
                except Exception:  # noqa: BLE001
                    row.append(None)
            rt2.append(row)
        rt1 = []
        for a in range(NKINDS):
            try:
                rt1.append(code(np.result_type(target(a))))
            except Exception:  # noqa: BLE001
                rt1.append(None)
        np_binary = []
        for op in BIN_OPS:
            tab = []
            for a in range(NKINDS):
                row = []
                for b in range(NKINDS):
                    if a >= N and b >= N:
                        row.append(None)
                        continue
                    try:
                        r = fn[op](np_operand(a), np_operand(b))
                        row.append(code(r.dtype))
                    except Exception:  # noqa: BLE001
                        row.append(None)
                tab.append(row)
            np_binary.append(tab)
        np_neg = []
        for a in range(N):
            try:
                np_neg.append(code((-np_operand(a)).dtype))
            except Exception:  # noqa: BLE001
                np_neg.append(None)
    floating = [issubclass(np.dtype(d).type, np.floating) for d in DTYPES]
    integer = [issubclass(np.dtype(d).type, np.integer) for d in DTYPES]
    signed = [issubclass(np.dtype(d).type, np.signedinteger) for d in DTYPES]
    bits = [np.dtype(d).itemsize * 8 for d in DTYPES]
    allowed = {}
    for name in ONNX_OPS:
        schema = onnx.defs.get_schema(name, OPSET, "")
        first = schema.inputs[0].type_str
        ok = []
        for tc in schema.type_constraints:
            if tc.type_param_str == first:
                for s in tc.allowed_type_strs:
                    if s.startswith("tensor(") and s.endswith(")"):
                        nm = {"float": "float32", "double": "float64"}.get(s[7:-1], s[7:-1])
                        if nm in DTYPES:
                            ok.append(DTYPES.index(nm))
        allowed[name] = sorted(ok)
    # Python floats are judged by TYPE, not by value: np.result_type must give the same answers for whole-number,
    # signed-zero, huge, tiny and non-finite floats as for the 2.5 the tables above are made with
    float_samples = []
    for v in [2.5, 2.0, -3.0, 0.0, -0.0, 1.0, 1e300, 5e-324, float("inf"), float("-inf"), float("nan"), float(2 ** 53)]:
        try:
            one = code(np.result_type(v))
        except Exception:  # noqa: BLE001
            one = None
        row = []
        for d in range(N):
            try:
                row.append(code(np.result_type(np.dtype(DTYPES[d]), v)))
            except Exception:  # noqa: BLE001
                row.append(None)
        float_samples.append({"repr": repr(v), "whole": bool(v == v and abs(v) != float("inf") and float(v).is_integer()),
                              "constlike": isinstance(v, (np.generic, int, float)), "rt1": one, "row": row})
    oo_defaults = [None, None]
    try:
        import ast

        from .common import parse

        for fn in parse("src/spox/_future.py").body:
            if isinstance(fn, ast.FunctionDef) and fn.name == "operator_overloading":
                names = [a.arg for a in fn.args.args]
                dfl = dict(zip(names[len(names) - len(fn.args.defaults):], fn.args.defaults))
                for a, d in zip(fn.args.kwonlyargs, fn.args.kw_defaults):
                    dfl[a.arg] = d
                oo_defaults = [dfl[k].value if k in dfl and isinstance(dfl[k], ast.Constant) else None
                               for k in ("type_promotion", "constant_promotion")]
    except Exception:  # noqa: BLE001
        pass
    return {"float_samples": float_samples, "oo_defaults": oo_defaults,
            "rt2": rt2, "rt1": rt1, "np_binary": np_binary, "np_neg": np_neg, "floating": floating,
            "integer": integer, "signed": signed, "bits": bits, "allowed": allowed,
            "dtypes": DTYPES, "numpy": np.__version__}


def render(t: dict) -> str:
    def row(r):
        return lean_list([lean_opt(x) for x in r])

    L = [HEADER.format(src="numpy (np.result_type, the operators themselves) and onnx.defs (executed)",
                       tool="translator/result_type.py"),
         "import SpoxModel.Model.Dispatch\n",
         "namespace Generated.ResultType\nopen Dispatch\n",
         "def dtypeNames : List String := " + lean_list([lean_str(d) for d in t["dtypes"]]) + "\n",
         "/-- `np.result_type(x, y)` by target kind (0-11 dtype, 12 int, 13 float, 14 bool, 15-26 numpy scalar). -/",
         "def rt2 : List (List (Option Nat)) := [\n  " + ",\n  ".join(row(r) for r in t["rt2"]) + "]\n",
         "/-- `np.result_type(x)`. -/",
         "def rt1 : List (Option Nat) := " + row(t["rt1"]) + "\n",
         "def floating : List Bool := " + lean_list([lean_bool(b) for b in t["floating"]]),
         "def integer : List Bool := " + lean_list([lean_bool(b) for b in t["integer"]]),
         "def signed : List Bool := " + lean_list([lean_bool(b) for b in t["signed"]]),
         "def bits : List Nat := " + lean_list([str(b) for b in t["bits"]]) + "\n",
         "/-- dtype numpy gives to `a <op> b` itself (op 0 add, 1 sub, 2 mul, 3 truediv, 4 floordiv). -/",
         "def npBinary : List (List (List (Option Nat))) := ["]
    L.append(",\n".join(" [\n  " + ",\n  ".join(row(r) for r in tab) + "]" for tab in t["np_binary"]) + "]\n")
    L.append("/-- dtype numpy gives to `-a`. -/")
    L.append("def npNeg : List (Option Nat) := " + row(t["np_neg"]) + "\n")
    L.append(f"/-- input type constraints of the ONNX operators the dispatcher emits (opset {OPSET}). -/")
    L.append("def opAllowed : List (String × List Nat) := " + lean_list(
        [f"({lean_str(k)}, {lean_list([str(x) for x in v])})" for k, v in t["allowed"].items()]) + "\n")
    L.append("/-- Python float samples (repr, whole-number?, isinstance(v, (np.generic, int, float)), `np.result_type(v)`,\n"
             "    `np.result_type(dtype d, v)` for the 12 dtypes). -/")
    L.append("def floatSamples : List (String × Bool × Bool × Option Nat × List (Option Nat)) := [\n  " + ",\n  ".join(
        f"({lean_str(f['repr'])}, {lean_bool(f['whole'])}, {lean_bool(f['constlike'])}, {lean_opt(f['rt1'])}, {row(f['row'])})"
        for f in t.get("float_samples", [])) + "]\n")
    L.append("/-- defaults of `operator_overloading(op, type_promotion=…, constant_promotion=…)` (read from the source). -/")
    L.append(f"def ooDefaults : Bool × Bool := ({lean_bool(t.get('oo_defaults', [None, None])[0] is True)}, {lean_bool(t.get('oo_defaults', [None, None])[1] is True)})")
    L.append(f"def ooDefaultsKnown : Bool := {lean_bool(all(isinstance(x, bool) for x in t.get('oo_defaults', [None, None])))}\n")
    L.append("def info : NpInfo where\n"
             "  rt2 := fun a b => ((rt2.getD a []).getD b none)\n"
             "  rt1 := fun a => rt1.getD a none\n"
             "  floating := fun d => floating.getD d false\n"
             "  integer := fun d => integer.getD d false\n"
             "  signed := fun d => signed.getD d false\n"
             "  bits := fun d => bits.getD d 0\n"
             "  allowed := fun op d => match opAllowed.find? (fun p => p.1 == op) with\n"
             "    | some p => p.2.contains d\n    | none => false\n")
    L.append("end Generated.ResultType\n")
    return "\n".join(L)


def generate() -> dict:
    t = tabulate()
    write_if_changed(GEN / "ResultType.lean", render(t))
    return t
