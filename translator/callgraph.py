"""C19 (tie G, part 2): a conservative, name-based call graph of `src/spox`, the functions that
invoke a *stored* callback ("sinks"), the entry points of everything that can happen to a finished
control-flow node (builds, inference, value propagation, inspection, copying / pickling hooks, Graph
methods, inlining, Var methods), and the set of functions reachable from those entry points
->  `Generated/CallGraphData.lean`.

Lean does not trust the reachable set computed here: it checks (by evaluation) that the emitted set
contains the entry points, is closed under *all* emitted edges and contains no sink, and proves
generally that every function reachable in the edge relation then lies in the set.

Over-approximations (each only adds edges, so "unreachable" stays sound w.r.t. the source):
  * `f(...)`, and any load of a name `f` that is not a local of the function  -> every function or
    class named `f` (in any module);
  * `x.m(...)` and any attribute load `x.m`  -> every function / method / property named `m`;
  * a class reference  -> `__init__`, `__post_init__`, `__new__`, `pre_init`, `post_init`,
    `__init_subclass__` of the class and of all its (name-resolved) ancestors;
  * operators, subscripts, iteration, comparison, hashing containers, f-strings, `len/repr/str/hash/
    bool/iter/next/copy/deepcopy/replace/sorted/...`  -> every method with the corresponding dunder name
    (`replace`/`copy` also -> every `__post_init__` / `__init__`);
  * nested functions, lambdas and comprehensions belong to the enclosing function;
  * the ~190 plain operator constructors and the node-class methods of the generated opset modules are
    collapsed into a few nodes per kind (merging nodes only adds reachability).
Not covered: calls through `getattr` with computed names, `eval`/`exec` (reported in `dynamic`).
"""
import ast

from .common import GEN, HEADER, REPO, lean_list, lean_str, write_if_changed

CTORS = ("if_", "loop", "scan", "sequence_map")
INIT_LIKE = ("__init__", "__post_init__", "__new__", "pre_init", "post_init", "__init_subclass__")
BINOPS = {
    ast.Add: "add", ast.Sub: "sub", ast.Mult: "mul", ast.Div: "truediv", ast.FloorDiv: "floordiv",
    ast.Mod: "mod", ast.Pow: "pow", ast.BitAnd: "and", ast.BitOr: "or", ast.BitXor: "xor",
    ast.LShift: "lshift", ast.RShift: "rshift", ast.MatMult: "matmul",
}
CMPOPS = {ast.Eq: ["__eq__"], ast.NotEq: ["__ne__", "__eq__"], ast.Lt: ["__lt__", "__gt__"],
          ast.LtE: ["__le__", "__ge__"], ast.Gt: ["__gt__", "__lt__"], ast.GtE: ["__ge__", "__le__"],
          ast.In: ["__contains__", "__iter__", "__eq__", "__hash__"],
          ast.NotIn: ["__contains__", "__iter__", "__eq__", "__hash__"], ast.Is: [], ast.IsNot: []}
BUILTIN_DUNDERS = {
    "len": ["__len__"], "repr": ["__repr__"], "str": ["__str__", "__repr__"], "hash": ["__hash__"],
    "bool": ["__bool__", "__len__"], "iter": ["__iter__"], "next": ["__next__"],
    "copy": ["__copy__", "__reduce__", "__reduce_ex__", "__getstate__", "__setstate__"],
    "deepcopy": ["__deepcopy__", "__reduce__", "__reduce_ex__", "__getstate__", "__setstate__", "__copy__"],
    "replace": ["__post_init__", "__init__", "__replace__"],
    "sorted": ["__lt__", "__iter__"], "min": ["__lt__", "__iter__"], "max": ["__gt__", "__lt__", "__iter__"],
    "list": ["__iter__", "__len__"], "tuple": ["__iter__", "__len__"], "set": ["__iter__", "__hash__", "__eq__"],
    "dict": ["__iter__", "__hash__", "__eq__", "keys", "__getitem__"], "sum": ["__iter__", "__add__", "__radd__"],
    "any": ["__iter__", "__bool__"], "all": ["__iter__", "__bool__"], "zip": ["__iter__"], "map": ["__iter__"],
    "enumerate": ["__iter__"], "filter": ["__iter__", "__bool__"], "isinstance": ["__instancecheck__"],
    "print": ["__str__", "__repr__"], "format": ["__format__", "__str__"], "abs": ["__abs__"],
    "int": ["__int__", "__index__"], "float": ["__float__"], "getattr": ["__getattr__", "__getattribute__"],
    "setattr": ["__setattr__"], "dumps": ["__reduce__", "__reduce_ex__", "__getstate__"],
    "loads": ["__setstate__"],
}
HOOKS = ("__copy__", "__deepcopy__", "__reduce__", "__reduce_ex__", "__getstate__", "__setstate__",
         "__getnewargs__", "__getnewargs_ex__", "__replace__")


class Fn:
    def __init__(self, qual, module, cls, name, node, is_prop):
        self.qual, self.module, self.cls, self.name, self.node, self.is_prop = qual, module, cls, name, node, is_prop


def _decorators(fn):
    out = []
    for d in fn.decorator_list:
        if isinstance(d, ast.Name):
            out.append(d.id)
        elif isinstance(d, ast.Attribute):
            out.append(d.attr)
        elif isinstance(d, ast.Call):
            f = d.func
            out.append(f.id if isinstance(f, ast.Name) else getattr(f, "attr", "?"))
    return out


def collect():
    """All functions of src/spox (top-level and methods; nested ones belong to their parent)."""
    src = REPO / "src"
    fns, classes = [], {}  # classes: name -> list of base names
    for p in sorted((src / "spox").rglob("*.py")):
        modname = ".".join(p.relative_to(src).with_suffix("").parts)
        try:
            tree = ast.parse(p.read_text())
        except SyntaxError:
            continue

        def walk(body, cls):
            for st in body:
                if isinstance(st, (ast.FunctionDef, ast.AsyncFunctionDef)):
                    q = f"{modname}.{cls + '.' if cls else ''}{st.name}"
                    decs = _decorators(st)
                    fns.append(Fn(q, modname, cls, st.name, st, any("property" in d for d in decs)))
                elif isinstance(st, ast.ClassDef):
                    bases = []
                    for b in st.bases:
                        if isinstance(b, ast.Name):
                            bases.append(b.id)
                        elif isinstance(b, ast.Attribute):
                            bases.append(b.attr)
                    classes.setdefault(st.name, [])
                    classes[st.name] += bases
                    walk(st.body, (cls + "." if cls else "") + st.name)
                elif isinstance(st, (ast.If, ast.Try, ast.With)):
                    for fld in ("body", "orelse", "finalbody", "handlers"):
                        for sub in getattr(st, fld, []) or []:
                            if isinstance(sub, ast.ExceptHandler):
                                walk(sub.body, cls)
                            elif isinstance(sub, ast.stmt):
                                walk([sub], cls)

        walk(tree.body, "")
        # module-level code (imports executed once; class bodies) is not part of any later step
    return fns, classes


def ancestors(cls_simple, classes):
    seen, todo = [], [cls_simple]
    while todo:
        c = todo.pop()
        if c in seen:
            continue
        seen.append(c)
        todo += classes.get(c, [])
    return seen


def local_names(fn):
    """Parameters and names assigned anywhere inside the function (incl. nested scopes)."""
    out = set()
    for n in ast.walk(fn):
        if isinstance(n, ast.arg):
            out.add(n.arg)
        elif isinstance(n, ast.Name) and isinstance(n.ctx, (ast.Store, ast.Del)):
            out.add(n.id)
        elif isinstance(n, (ast.FunctionDef, ast.AsyncFunctionDef)) and n is not fn:
            out.add(n.name)
    return out


def callback_fields():
    """Names of class fields annotated as callables in the hand-written modules (`Graph._constructor`):
    the attributes under which a callback may be *stored*."""
    out = {"_constructor"}
    src = REPO / "src"
    for p in sorted((src / "spox").glob("*.py")):
        try:
            tree = ast.parse(p.read_text())
        except SyntaxError:
            continue
        for cls in ast.walk(tree):
            if isinstance(cls, ast.ClassDef):
                for st in cls.body:
                    if isinstance(st, ast.AnnAssign) and isinstance(st.target, ast.Name):
                        if "Callable" in ast.unparse(st.annotation):
                            out.add(st.target.id)
    return out


CB_FIELDS = {"_constructor"}


def referenced(fn: Fn, by_name, class_names, classes):
    """Bare names of everything the function may call, plus sink facts."""
    names = set()
    sink = []
    dynamic = []
    node = fn.node
    params = {a.arg for a in ast.walk(node.args) if isinstance(a, ast.arg)}
    own_params = {a.arg for a in node.args.args + node.args.kwonlyargs + node.args.posonlyargs}
    if node.args.vararg:
        own_params.add(node.args.vararg.arg)
    if node.args.kwarg:
        own_params.add(node.args.kwarg.arg)
    locs = local_names(node)

    def cls_ref(c):
        for a in ancestors(c, classes):
            for m in INIT_LIKE:
                names.add(("cls", a, m))

    for n in ast.walk(node):
        if isinstance(n, ast.Call):
            f = n.func
            if isinstance(f, ast.Name):
                if f.id in BUILTIN_DUNDERS and f.id not in locs:
                    names.update(("any", d) for d in BUILTIN_DUNDERS[f.id])
                if f.id in ("eval", "exec", "__import__"):
                    dynamic.append(f.id)
                if fn.module == "spox._graph" and f.id in own_params:
                    sink.append(f"calls its parameter `{f.id}`")
                if f.id in ("getattr", "setattr", "hasattr") and len(n.args) >= 2:
                    a1 = n.args[1]
                    if isinstance(a1, ast.Constant) and isinstance(a1.value, str):
                        names.add(("any", a1.value))
                        if a1.value in CB_FIELDS or a1.value == "_reconstruct":
                            sink.append(f"{f.id}(…, '{a1.value}')")
                    else:
                        dynamic.append("getattr with a computed name")
            elif isinstance(f, ast.Attribute):
                if f.attr in CB_FIELDS:
                    sink.append(f"calls `.{f.attr}(…)`")
                if f.attr in BUILTIN_DUNDERS:
                    names.update(("any", d) for d in BUILTIN_DUNDERS[f.attr])
        elif isinstance(n, ast.Attribute):
            names.add(("any", n.attr))
            if n.attr in class_names:
                cls_ref(n.attr)
            if n.attr in CB_FIELDS and isinstance(n.ctx, ast.Load):
                sink.append(f"reads `.{n.attr}`")
        elif isinstance(n, ast.Name) and isinstance(n.ctx, ast.Load):
            if n.id not in locs or n.id in by_name and n.id == fn.name:
                if n.id in by_name:
                    names.add(("any", n.id))
                if n.id in class_names:
                    cls_ref(n.id)
        elif isinstance(n, ast.BinOp) or isinstance(n, ast.AugAssign):
            nm = BINOPS.get(type(n.op))
            if nm:
                names.update({("any", f"__{nm}__"), ("any", f"__r{nm}__"), ("any", f"__i{nm}__")})
        elif isinstance(n, ast.UnaryOp):
            names.update({("any", "__neg__"), ("any", "__pos__"), ("any", "__invert__"), ("any", "__bool__")})
        elif isinstance(n, ast.Compare):
            for o in n.ops:
                names.update(("any", d) for d in CMPOPS.get(type(o), []))
        elif isinstance(n, ast.Subscript):
            names.update({("any", "__getitem__"), ("any", "__setitem__"), ("any", "__delitem__"),
                          ("any", "__class_getitem__"), ("any", "__hash__"), ("any", "__eq__")})
        elif isinstance(n, (ast.For, ast.comprehension, ast.Starred, ast.YieldFrom)):
            names.update({("any", "__iter__"), ("any", "__next__")})
        elif isinstance(n, (ast.Dict, ast.Set, ast.DictComp, ast.SetComp)):
            names.update({("any", "__hash__"), ("any", "__eq__")})
        elif isinstance(n, (ast.JoinedStr, ast.FormattedValue)):
            names.update({("any", "__format__"), ("any", "__str__"), ("any", "__repr__")})
        elif isinstance(n, (ast.If, ast.While, ast.IfExp, ast.BoolOp, ast.Assert)):
            names.update({("any", "__bool__"), ("any", "__len__")})
        elif isinstance(n, ast.With):
            names.update({("any", "__enter__"), ("any", "__exit__")})
    # the `_constructor` reads that are plumbing, not escapes: storing it back through replace()
    del params
    return names, sorted(set(sink)), sorted(set(dynamic))


def group_of(fn: Fn):
    """Collapse the bulk of the generated opset modules (sound: merging nodes only adds reachability)."""
    if not fn.module.startswith("spox.opset."):
        return fn.qual
    if fn.cls:
        return f"spox.opset:*.{fn.name}"  # node-class methods, by method name
    if fn.name in CTORS:
        return fn.qual
    return None  # decided by the caller (needs to know whether it calls subgraph)


ENTRY_KINDS = ["build", "infer", "valueProp", "inspect", "copy", "graphMethod", "inline", "varMethod"]


def entry_kind(fn: Fn):
    """Which kinds of later step start in this function (possibly several)."""
    kinds = []
    q, nm, cls = fn.qual, fn.name, fn.cls
    if q in ("spox._public.build", "spox._public.argument") or (cls == "Graph" and nm in ("to_onnx", "to_onnx_model")) \
            or fn.module == "spox._build" or (nm == "to_onnx" and cls and not fn.module.startswith("spox.opset.")):
        kinds.append("build")
    if nm in ("inference", "infer_output_types", "infer_output_types_onnx", "validate_types", "to_singleton_onnx_model"):
        kinds.append("infer")
    if nm in ("propagate_values", "propagate_values_onnx") or fn.module == "spox._value_prop":
        kinds.append("valueProp")
    if nm in ("__repr__", "__str__", "__format__", "__eq__", "__hash__", "__iter__", "__len__", "__bool__") or \
            (cls == "Graph" and (fn.is_prop or nm.startswith("get_") or nm.startswith("_get_"))) or \
            (cls and nm in ("subgraphs", "dependencies", "incident", "get_fields", "get_vars")):
        kinds.append("inspect")
    if nm in HOOKS:
        kinds.append("copy")
    if cls == "Graph" and nm in ("with_name", "with_doc", "with_arguments", "with_opset", "_inject_build_result",
                                 "_with_constructor", "__post_init__"):
        kinds.append("graphMethod")
    if q == "spox._public.inline" or fn.module == "spox._inline":
        kinds.append("inline")
    if fn.module == "spox._var" and cls in ("Var",):
        kinds.append("varMethod")
    return kinds


def extract():
    global CB_FIELDS
    CB_FIELDS = callback_fields()
    fns, classes = collect()
    class_names = set(classes)
    by_name = {}
    for f in fns:
        by_name.setdefault(f.name, []).append(f)
    by_cls_meth = {}
    for f in fns:
        if f.cls:
            by_cls_meth.setdefault((f.cls.rsplit(".", 1)[-1], f.name), []).append(f)

    refs, sinks_why, dynamic = {}, {}, {}
    for f in fns:
        names, sink, dyn = referenced(f, by_name, class_names, classes)
        refs[f.qual] = names
        if sink:
            sinks_why[f.qual] = sink
        if dyn:
            dynamic[f.qual] = dyn

    # groups
    group = {}
    for f in fns:
        g = group_of(f)
        if g is None:
            calls_sub = ("any", "subgraph") in refs[f.qual]
            g = f.qual if calls_sub else "spox.opset:<operator constructors>"
        group[f.qual] = g
    nodes = sorted(set(group.values()))
    idx = {g: i for i, g in enumerate(nodes)}

    edges = set()
    for f in fns:
        u = idx[group[f.qual]]
        for r in refs[f.qual]:
            if r[0] == "any":
                for t in by_name.get(r[1], []):
                    edges.add((u, idx[group[t.qual]]))
            else:
                for t in by_cls_meth.get((r[1], r[2]), []):
                    edges.add((u, idx[group[t.qual]]))
    sinks = sorted({idx[group[q]] for q in sinks_why})
    entries = {k: [] for k in ENTRY_KINDS}
    for f in fns:
        for k in entry_kind(f):
            i = idx[group[f.qual]]
            if i not in entries[k]:
                entries[k].append(i)
    # reachable set (Lean re-checks that it is closed; it is not trusted)
    adj = {}
    for u, v in edges:
        adj.setdefault(u, []).append(v)
    all_entries = sorted({i for v in entries.values() for i in v})
    parent = {e: None for e in all_entries}
    todo = list(all_entries)
    while todo:
        u = todo.pop()
        for v in adj.get(u, []):
            if v not in parent:
                parent[v] = u
                todo.append(v)
    reach = sorted(parent)
    paths = {}
    for s in sinks:
        if s in parent:
            p, cur = [], s
            while cur is not None:
                p.append(nodes[cur])
                cur = parent[cur]
            paths[nodes[s]] = list(reversed(p))
    return {
        "nodes": nodes, "edges": sorted(edges), "sinks": sinks, "entries": entries, "reach": reach,
        "sinks_why": sinks_why, "dynamic": dynamic, "sink_paths": paths,
        "n_functions": len(fns), "callback_fields": sorted(CB_FIELDS),
    }


def generate() -> dict:
    g = extract()
    reach = set(g["reach"])
    mask = 0
    for i in reach:
        mask |= 1 << i
    # only edges that start in the reachable set matter for the closedness check
    edges = [(u, v) for u, v in g["edges"] if u in reach]
    lines = [
        HEADER.format(src="src/spox/**/*.py", tool="translator/callgraph.py"),
        "import SpoxModel.Model.CallGraph\n",
        "namespace Generated.CallGraphData\nopen _root_.CallGraph\n",
        f"/-- {g['n_functions']} functions of src/spox in {len(g['nodes'])} nodes (bulk of the opset modules collapsed) -/",
        f"def names : List String :=\n  {lean_list([lean_str(n) for n in g['nodes']])}\n",
        f"/-- call edges leaving the functions reachable from the entry points ({len(edges)} of {len(g['edges'])}) -/",
        "def edges : List (Nat × Nat) :=\n  " + lean_list([f"({u}, {v})" for u, v in edges]) + "\n",
        "/-- functions that invoke (or let escape) a stored callback -/",
        f"def sinks : List Nat := {lean_list([str(s) for s in g['sinks']])}\n",
        "/-- entry points of everything that can happen to a finished node, by kind of step -/",
        "def entries : List (String × List Nat) :=\n  "
        + lean_list([f"({lean_str(k)}, {lean_list([str(i) for i in v])})" for k, v in g["entries"].items()]) + "\n",
        "/-- bit i set: function i is reachable from some entry point (computed by the translator; checked\n    to be closed under `edges` by `Props/C19.lean`) -/",
        f"def reachMask : Nat := {mask}\n",
        f"def graph : Graph := ⟨{len(g['nodes'])}, edges, sinks, entries⟩\n",
        "end Generated.CallGraphData\n",
    ]
    write_if_changed(GEN / "CallGraphData.lean", "\n".join(lines))
    g["edges_emitted"] = len(edges)
    return g


if __name__ == "__main__":
    import json

    r = generate()
    print(json.dumps({k: (v if k not in ("edges", "nodes", "reach") else len(v)) for k, v in r.items()}, indent=1))
