"""Extract what C12's `cache_transparent` needs from `src/spox/_graph.py` and `_build.py`:

  * `setters`      — every method of `Graph` that returns `replace(self, f=…, …)`: the fields it replaces
  * `memoGuarded`  — `_get_build_result` has the shape
                         if self._build_result._value is None: self._build_result.value = <compute>
                         return self._build_result.value
  * `builderReads` — attribute names `_build.py` reads from Graph objects (receivers named
                     graph / subgraph / self.main / main)
Anything that does not have the expected shape degrades to a value that makes the Lean obligation
fail (an extra setter named "<unrecognised …>" replacing `_results`, `memoGuarded = false`).
"""
import ast

from .common import GEN, HEADER, dotted, lean_bool, lean_list, lean_str, parse, write_if_changed


def _replace_call(node):
    """`replace(self, a=…, b=…)` -> ['a', 'b'] else None."""
    if (isinstance(node, ast.Call) and dotted(node.func) in ("replace", "dataclasses.replace") and node.args
            and isinstance(node.args[0], ast.Name) and node.args[0].id == "self" and len(node.args) == 1):
        if any(k.arg is None for k in node.keywords):
            return None
        return [k.arg for k in node.keywords]
    return None


def extract():
    mod = parse("src/spox/_graph.py")
    cls = next((c for c in mod.body if isinstance(c, ast.ClassDef) and c.name == "Graph"), None)
    setters, memo = [], False
    if cls is None:
        return {"setters": [["<unrecognised: no class Graph>", ["_results"]]], "memoGuarded": False, "builderReads": ["<unknown>"]}
    for fn in cls.body:
        if not isinstance(fn, ast.FunctionDef):
            continue
        for node in ast.walk(fn):
            if isinstance(node, ast.Call) and dotted(node.func) in ("replace", "dataclasses.replace"):
                fields = _replace_call(node)
                if fields is None:
                    setters.append([f"<unrecognised replace in {fn.name}>", ["_results"]])
                else:
                    setters.append([fn.name, fields])
        if fn.name == "_get_build_result":
            body = [s for s in fn.body if not (isinstance(s, ast.Expr) and isinstance(s.value, ast.Constant))]
            if (len(body) == 2 and isinstance(body[0], ast.If) and not body[0].orelse and len(body[0].body) == 1
                    and isinstance(body[1], ast.Return)):
                t = body[0].test
                guard = (isinstance(t, ast.Compare) and len(t.ops) == 1 and isinstance(t.ops[0], ast.Is)
                         and dotted(t.left) in ("self._build_result._value", "self._build_result.value")
                         and isinstance(t.comparators[0], ast.Constant) and t.comparators[0].value is None)
                a = body[0].body[0]
                assign = (isinstance(a, ast.Assign) and len(a.targets) == 1
                          and dotted(a.targets[0]) in ("self._build_result.value", "self._build_result._value"))
                ret = dotted(body[1].value) in ("self._build_result.value", "self._build_result._value")
                memo = bool(guard and assign and ret)
    reads = set()
    bmod = parse("src/spox/_build.py")
    for node in ast.walk(bmod):
        if isinstance(node, ast.Attribute):
            recv = dotted(node.value)
            if recv in ("graph", "subgraph", "self.main", "main"):
                reads.add(node.attr)
    return {"setters": setters, "memoGuarded": memo, "builderReads": sorted(reads)}


def generate() -> dict:
    try:
        d = extract()
    except Exception as e:  # noqa: BLE001 - unreadable source: make the obligations fail, do not raise
        d = {"setters": [[f"<unreadable: {type(e).__name__}>", ["_results"]]], "memoGuarded": False, "builderReads": ["<unknown>"]}
    lines = [HEADER.format(src="src/spox/_graph.py, _build.py", tool="translator/graph_setters.py"),
             "import SpoxModel.Model.Memo\n", "namespace Generated.GraphSetters\nopen Memo\n",
             "def setters : List Setter := " + lean_list(
                 ["⟨" + lean_str(n) + ", " + lean_list([lean_str(f) for f in fs]) + "⟩" for n, fs in d["setters"]]) + "\n",
             f"def memoGuarded : Bool := {lean_bool(d['memoGuarded'])}\n",
             "def builderReads : List String := " + lean_list([lean_str(r) for r in d["builderReads"]]) + "\n",
             "end Generated.GraphSetters\n"]
    write_if_changed(GEN / "GraphSetters.lean", "\n".join(lines))
    return d


if __name__ == "__main__":
    import json
    print(json.dumps(generate(), indent=1))
