"""C10 tie G (round 6): the inventory of EVERY attribute of every shipped operator constructor.

For each of the 8 shipped opset modules (5 x ai.onnx, 3 x ai.onnx.ml) and each constructor function *defined* there,
the keywords of its `_Op.Attributes(...)` call are read off the source:

    kernel_shape=AttrInt64s(kernel_shape, name="kernel_shape")        form "direct"  (required attribute)
    pads=AttrInt64s.maybe(pads, name="pads")                          form "maybe"   (optional attribute)

A row = (module, constructor, operator class, field, parameter, ONNX name, Attr class, form, required, annotation,
number of times the parameter is read in the constructor body).  Anything that is not of one of the two forms
(a parameter wrapped in `list(...)`, pre-iterated, an attribute built from an expression) is *irregular*; an
iterable-typed attribute parameter that is read more than once in the constructor is a *multi-use* (a one-shot
iterable would be exhausted by the first reader).

Emitted: `Generated/AttrSites.lean` -- the distinct shapes (class, form, required, name = parameter) with their
counts, the irregular and multi-use lists, the row count per module -- consumed by `Props/C10.lean`
(`generated_attr_sites_ok`); the full rows go to the harness (oracle: every row is exercised) and to the evidence.
Nothing here raises: a module that cannot be read becomes an irregular entry (the obligation then fails).
"""
from __future__ import annotations

import ast
import hashlib
import json

from .common import GEN, HEADER, REPO, lean_bool, lean_list, lean_str, write_if_changed

MODULES = [
    ("v17", "ai/onnx/v17.py", "spox.opset.ai.onnx.v17"),
    ("v18", "ai/onnx/v18.py", "spox.opset.ai.onnx.v18"),
    ("v19", "ai/onnx/v19.py", "spox.opset.ai.onnx.v19"),
    ("v20", "ai/onnx/v20.py", "spox.opset.ai.onnx.v20"),
    ("v21", "ai/onnx/v21.py", "spox.opset.ai.onnx.v21"),
    ("ml_v3", "ai/onnx/ml/v3.py", "spox.opset.ai.onnx.ml.v3"),
    ("ml_v4", "ai/onnx/ml/v4.py", "spox.opset.ai.onnx.ml.v4"),
    ("ml_v5", "ai/onnx/ml/v5.py", "spox.opset.ai.onnx.ml.v5"),
]
LIST_CLASSES = ("AttrInt64s", "AttrFloat32s", "AttrStrings", "AttrTensors")
ALL_CLASSES = ("AttrFloat32", "AttrInt64", "AttrString", "AttrTensor", "AttrGraph", "AttrType", "AttrDtype") + LIST_CLASSES
ITERABLE_MARK = ("Iterable", "Sequence", "List", "Tuple", "list", "tuple")
SCAN_VERSION = "5"


def _scan_module(mid: str, text: str) -> dict:
    rows, irregular, multi, variadics = [], [], [], []
    try:
        mod = ast.parse(text)
    except Exception as e:  # noqa: BLE001
        return {"rows": [], "irregular": [f"{mid}: unparsable ({type(e).__name__})"], "multi": [], "variadics": []}
    for fn in mod.body:
        if not isinstance(fn, ast.FunctionDef):
            continue
        params = {a.arg: a for a in fn.args.args + fn.args.kwonlyargs}
        n_pos = len(fn.args.args) - len(fn.args.defaults)
        required = {a.arg for a in fn.args.args[:n_pos]} | {
            a.arg for a, d in zip(fn.args.kwonlyargs, fn.args.kw_defaults) if d is None}
        defaults = {a.arg: d for a, d in zip(fn.args.args[n_pos:], fn.args.defaults)}
        defaults.update({a.arg: d for a, d in zip(fn.args.kwonlyargs, fn.args.kw_defaults) if d is not None})
        loads: dict = {}
        for node in ast.walk(fn):
            if isinstance(node, ast.Name) and isinstance(node.ctx, ast.Load) and node.id in params:
                loads[node.id] = loads.get(node.id, 0) + 1
        for call in ast.walk(fn):
            if isinstance(call, ast.Call) and isinstance(call.func, ast.Attribute) and call.func.attr == "Inputs" \
                    and isinstance(call.func.value, ast.Name):
                for kw in call.keywords:
                    pa = params.get(kw.value.id) if isinstance(kw.value, ast.Name) else None
                    ann = ast.unparse(pa.annotation) if pa is not None and pa.annotation is not None else ""
                    if "Sequence[Var]" in ann:
                        variadics.append({"mod": mid, "ctor": fn.name, "opcls": call.func.value.id, "field": kw.arg,
                                          "param": kw.value.id, "loads": loads.get(kw.value.id, 0), "bare": True})
                    elif kw.arg is not None and not isinstance(kw.value, ast.Name):
                        inner = [n.id for n in ast.walk(kw.value) if isinstance(n, ast.Name) and n.id in params
                                 and params[n.id].annotation is not None and "Sequence[Var]" in ast.unparse(params[n.id].annotation)]
                        for q in inner:  # a variadic parameter that is transformed before it reaches the Inputs dataclass
                            variadics.append({"mod": mid, "ctor": fn.name, "opcls": call.func.value.id, "field": kw.arg,
                                              "param": q, "loads": loads.get(q, 0), "bare": False})
        seqvars = {a for a, pa in params.items() if pa.annotation is not None and "Sequence[Var]" in ast.unparse(pa.annotation)}
        for q in sorted(seqvars - {v["param"] for v in variadics if v["ctor"] == fn.name}):
            variadics.append({"mod": mid, "ctor": fn.name, "opcls": "", "field": "", "param": q, "loads": loads.get(q, 0), "bare": False})
        for call in ast.walk(fn):
            if not (isinstance(call, ast.Call) and isinstance(call.func, ast.Attribute) and call.func.attr == "Attributes"
                    and isinstance(call.func.value, ast.Name)):
                continue
            opcls = call.func.value.id
            if call.args:
                irregular.append(f"{mid}.{fn.name}: positional arguments of {opcls}.Attributes")
            for kw in call.keywords:
                where = f"{mid}.{fn.name}.{kw.arg}"
                v = kw.value
                if kw.arg is None or not isinstance(v, ast.Call):
                    irregular.append(f"{where}: not a call ({ast.unparse(v)[:60]})")
                    continue
                f = v.func
                if isinstance(f, ast.Name):
                    cls, form = f.id, "direct"
                elif isinstance(f, ast.Attribute) and isinstance(f.value, ast.Name) and f.attr == "maybe":
                    cls, form = f.value.id, "maybe"
                else:
                    irregular.append(f"{where}: built by {ast.unparse(f)[:60]}")
                    continue
                name_kw = next((k.value for k in v.keywords if k.arg == "name"), v.args[1] if len(v.args) > 1 else None)
                onnx_name = name_kw.value if isinstance(name_kw, ast.Constant) and isinstance(name_kw.value, str) else None
                arg0 = v.args[0] if v.args else next((k.value for k in v.keywords if k.arg == "value"), None)
                extra = [k.arg for k in v.keywords if k.arg not in ("name", "value")]
                if cls not in ALL_CLASSES:
                    irregular.append(f"{where}: class {cls}")
                    continue
                if onnx_name is None or extra or len(v.args) > 2:
                    irregular.append(f"{where}: {ast.unparse(v)[:80]}")
                    continue
                if cls == "AttrGraph":
                    # subgraph attributes are built by `subgraph(...)` from a callback at the call: not a caller value
                    rows.append({"mod": mid, "ctor": fn.name, "opcls": opcls, "field": kw.arg, "param": None,
                                 "name": onnx_name, "cls": cls, "form": form, "required": True, "ann": "callback",
                                 "loads": 1, "default": None})
                    continue
                if not (isinstance(arg0, ast.Name) and arg0.id in params):
                    irregular.append(f"{where}: value is {ast.unparse(arg0)[:60] if arg0 is not None else None}, not a parameter")
                    # keep a row all the same (so that the oracle exercises it) if a parameter of that name feeds it
                    inner = [n.id for n in ast.walk(arg0) if isinstance(n, ast.Name) and n.id in params] if arg0 is not None else []
                    if kw.arg in inner or onnx_name in inner:
                        arg0 = ast.Name(id=kw.arg if kw.arg in inner else onnx_name, ctx=ast.Load())
                    elif inner:
                        arg0 = ast.Name(id=inner[0], ctx=ast.Load())
                    else:
                        continue
                p = arg0.id
                ann = ast.unparse(params[p].annotation) if params[p].annotation is not None else ""
                d = defaults.get(p)
                row = {"mod": mid, "ctor": fn.name, "opcls": opcls, "field": kw.arg, "param": p, "name": onnx_name,
                       "cls": cls, "form": form, "required": p in required, "ann": ann, "loads": loads.get(p, 0),
                       "default": None if d is None else ast.unparse(d)[:60]}
                rows.append(row)
                if (cls in LIST_CLASSES or any(k in ann for k in ITERABLE_MARK)) and loads.get(p, 0) != 1:
                    multi.append(f"{where}: parameter read {loads.get(p, 0)} times")
    return {"rows": rows, "irregular": irregular, "multi": multi, "variadics": variadics}


def scan() -> dict:
    """All rows (cached by file-content hash under .work/)."""
    cache_file = GEN.parent.parent.parent / ".work" / "c10_attrsites_scan.json"
    try:
        cache = json.loads(cache_file.read_text())
    except Exception:  # noqa: BLE001
        cache = {}
    new_cache, rows, irregular, multi, per_mod, variadics = {}, [], [], [], {}, []
    root = REPO / "src" / "spox" / "opset"
    for mid, rel, _ in MODULES:
        try:
            text = (root / rel).read_text()
        except Exception as e:  # noqa: BLE001
            irregular.append(f"{mid}: unreadable ({type(e).__name__})")
            per_mod[mid] = 0
            continue
        key = hashlib.sha1((SCAN_VERSION + mid + text).encode()).hexdigest()
        res = cache.get(key) or _scan_module(mid, text)
        new_cache[key] = res
        rows += res["rows"]
        irregular += res["irregular"]
        multi += res["multi"]
        variadics += res.get("variadics", [])
        per_mod[mid] = len(res["rows"])
    try:
        cache_file.parent.mkdir(exist_ok=True)
        cache_file.write_text(json.dumps(new_cache))
    except Exception:  # noqa: BLE001
        pass
    return {"rows": rows, "irregular": irregular, "multi": multi, "per_mod": per_mod, "variadics": variadics}


def shapes(rows) -> list:
    """Distinct (class, form, required, name = parameter = field) with counts."""
    tab: dict = {}
    for r in rows:
        same = r["cls"] == "AttrGraph" or (r["name"] == r["param"] == r["field"])
        k = (r["cls"], r["form"], bool(r["required"]), same)
        tab[k] = tab.get(k, 0) + 1
    return [{"cls": k[0], "form": k[1], "required": k[2], "same_name": k[3], "count": n} for k, n in sorted(tab.items())]


# ------------------------------------------------------------ how often the caller's iterable is iterated
class _Probe:
    """A re-iterable caller object without __len__/__getitem__ that records every pass made over it."""

    def __init__(self, items):
        self.items = list(items)
        self.passes = []

    def __iter__(self):
        rec = {"n": 0, "end": False}
        self.passes.append(rec)
        for x in self.items:
            rec["n"] += 1
            yield x
        rec["end"] = True

    def summary(self):
        return [("full", 0) if r["end"] else ("partial", r["n"]) for r in self.passes]


def iter_passes() -> list:
    """Observed on this run: the passes each list-attribute entry point (and the variadic input field) makes over the
    caller's iterable.  [(site, form, passes)]; a site that cannot be probed gives [('partial', 0)] (obligation fails)."""
    import numpy as np

    out = []
    try:
        import spox._attributes as A
    except Exception:  # noqa: BLE001
        A = None
    samples = {"AttrInt64s": [3, 1, 2], "AttrFloat32s": [0.5, 1.5], "AttrStrings": ["a", "b"],
               "AttrTensors": [np.array([1]), np.array([2.0])]}
    for cname, items in samples.items():
        for form in ("direct", "maybe"):
            try:
                pr = _Probe(items)
                cls = getattr(A, cname)
                a = cls(pr, "k") if form == "direct" else cls.maybe(pr, "k")
                a._to_onnx()
                out.append((cname, form, pr.summary()))
            except Exception:  # noqa: BLE001
                out.append((cname, form, [("partial", 0)]))
    try:
        import spox.opset.ai.onnx.v17 as op
        from spox import Tensor, argument

        x = argument(Tensor(np.float32, (2,)))
        pr = _Probe([x, x])
        op.concat(pr, axis=0)
        out.append(("BaseVars.variadic", "direct", pr.summary()))
    except Exception:  # noqa: BLE001
        out.append(("BaseVars.variadic", "direct", [("partial", 0)]))
    return out


def maybe_keeps_ref() -> list:
    """Observed on this run: every list class accepts a reference (`_Ref`) to a list attribute of its own kind through
    both entry points and keeps it as its value.  [(class, form, ok)]"""
    out = []
    try:
        import numpy as np

        import spox._attributes as A
    except Exception:  # noqa: BLE001
        return [("<spox._attributes>", "direct", False)]
    samples = {"AttrInt64s": [3, 1], "AttrFloat32s": [0.5], "AttrStrings": ["a"], "AttrTensors": [np.array([1])]}
    for cname, items in samples.items():
        for form in ("direct", "maybe"):
            try:
                cls = getattr(A, cname)
                ref = A._Ref(cls(items, "outer"), "outer", "inner")
                a = cls(ref, "inner") if form == "direct" else cls.maybe(ref, "inner")
                p = a._to_onnx()
                out.append((cname, form, a._value is ref and p.ref_attr_name == "outer" and p.name == "inner"))
            except Exception:  # noqa: BLE001
                out.append((cname, form, False))
    return out


def _max_loads(stmts, name: str, live: bool = True):
    """Path-sensitive upper bound of the number of times the *caller's object* bound to `name` is read:
    -> list of (count, still bound to the caller's object) over the paths.  `isinstance(name, …)` does not read
    the items; after `name = …` the name is spox's own object."""

    def expr(e, live):
        if e is None or not live:
            return 0
        if isinstance(e, ast.IfExp):
            return expr(e.test, live) + max(expr(e.body, live), expr(e.orelse, live))
        if isinstance(e, ast.Call) and isinstance(e.func, ast.Name) and e.func.id == "isinstance":
            return sum(expr(a, live) for a in e.args[1:])
        if isinstance(e, ast.Compare) and all(isinstance(o, (ast.Is, ast.IsNot)) for o in e.ops):
            return 0  # identity tests do not iterate
        if isinstance(e, ast.Name):
            return 1 if e.id == name and isinstance(e.ctx, ast.Load) else 0
        return sum(expr(c, live) for c in ast.iter_child_nodes(e) if isinstance(c, (ast.expr, ast.comprehension, ast.keyword)) or True)

    states = [(0, live)]
    for st in stmts:
        nxt = []
        for cnt, lv in states:
            if isinstance(st, ast.If):
                t = expr(st.test, lv)
                for br in (st.body, st.orelse):
                    for c2, l2 in _max_loads(br, name, lv):
                        nxt.append((cnt + t + c2, l2))
            elif isinstance(st, (ast.Assign, ast.AnnAssign)):
                c = expr(st.value, lv)
                tg = st.targets if isinstance(st, ast.Assign) else [st.target]
                rebinds = any(isinstance(t, ast.Name) and t.id == name for t in tg)
                nxt.append((cnt + c, lv and not rebinds))
            elif isinstance(st, ast.Return):
                nxt.append((cnt + expr(st.value, lv), lv))
            elif isinstance(st, ast.Expr):
                nxt.append((cnt + expr(st.value, lv), lv))
            else:
                nxt.append((cnt + sum(expr(c, lv) for c in ast.walk(st) if isinstance(c, ast.Name)), lv))
        states = nxt
    return states or [(0, live)]


def caller_loads() -> list:
    """Tie G: in `_AttrIterable.__init__`, `_AttrIterable.maybe`, `AttrTensors.__init__` the caller's `value` is read
    at most once on every path (so a one-shot iterable is iterated once)."""
    out = []
    try:
        mod = ast.parse((REPO / "src" / "spox" / "_attributes.py").read_text())
    except Exception:  # noqa: BLE001
        return [("_attributes.py", 99)]
    classes = {n.name: n for n in mod.body if isinstance(n, ast.ClassDef)}
    for cname, fname in (("_AttrIterable", "__init__"), ("_AttrIterable", "maybe"), ("AttrTensors", "__init__")):
        c = classes.get(cname)
        fn = next((m for m in (c.body if c else []) if isinstance(m, ast.FunctionDef) and m.name == fname), None)
        if fn is None:
            if cname == "AttrTensors":
                continue  # inherits: nothing of its own to read
            out.append((f"{cname}.{fname}", 99))
            continue
        body = [s for s in fn.body if not (isinstance(s, ast.Expr) and isinstance(s.value, ast.Constant))]
        out.append((f"{cname}.{fname}", max(c for c, _ in _max_loads(body, "value"))))
    # any further __init__/maybe override among the list classes
    for cname, c in classes.items():
        bases = [getattr(b, "id", getattr(getattr(b, "value", None), "id", None)) for b in c.bases]
        if "_AttrIterable" in bases and cname != "AttrTensors":
            for m in c.body:
                if isinstance(m, ast.FunctionDef) and m.name in ("__init__", "maybe"):
                    body = [s for s in m.body if not (isinstance(s, ast.Expr) and isinstance(s.value, ast.Constant))]
                    out.append((f"{cname}.{m.name}", max(c2 for c2, _ in _max_loads(body, "value"))))
    return out


def emit(info: dict) -> str:
    sh = info["shapes"]
    ls = [
        HEADER.format(src="src/spox/opset/ai/onnx/{v17..v21,ml/v3..v5}.py", tool="translator/c10_attrsites.py").rstrip("\n"),
        "import SpoxModel.Model.AttrSite",
        "namespace Generated.AttrSites",
        "open _root_.AttrSite",
        "",
        "/-- distinct shapes of the attribute arguments of all shipped constructors: class, how it is called",
        "    (`AttrX(p, name=…)` / `AttrX.maybe(p, name=…)`), whether the parameter is required, whether",
        "    field = parameter = ONNX name, and how many constructor attributes have that shape -/",
        "def shapes : List Shape := [",
        ",\n".join(f"  ⟨{lean_str(s['cls'])}, .{s['form']}, {lean_bool(s['required'])}, {lean_bool(s['same_name'])}, {s['count']}⟩" for s in sh),
        "]",
        "",
        "/-- attribute arguments that are not of one of the two forms (wrapped, pre-iterated, computed) -/",
        f"def irregular : List String := {lean_list([lean_str(x) for x in info['irregular'][:20]])}",
        "",
        "/-- list-attribute parameters read more than once in a constructor body (a one-shot iterable would be",
        "    exhausted by the first reader) -/",
        f"def multiUse : List String := {lean_list([lean_str(x) for x in info['multi'][:20]])}",
        "",
        "/-- attribute rows per module (5 x ai.onnx, 3 x ai.onnx.ml; only what the module itself defines) -/",
        "def perModule : List (String × Nat) := " + lean_list([f"({lean_str(m)}, {n})" for m, n in info["per_mod"].items()]),
        "",
        "/-- every constructor parameter typed `Sequence[Var]` (variadic input) of the 8 modules: (module.constructor.parameter,",
        "    handed to the `Inputs` dataclass as a bare parameter) - a bare one lands in `BaseVars.__post_init__` (capture row",
        "    `BaseVars.variadic`); anything else (wrapped, filtered, not handed on) is listed with `false` -/",
        "def variadics : List (String × Bool) := [",
        ",\n".join(f"  ({lean_str(v['mod'] + '.' + v['ctor'] + '.' + v['param'])}, {lean_bool(v['bare'])})" for v in info.get("variadics", [{"mod": "<none>", "ctor": "", "param": "", "bare": False}])),
        "]",
        "",
        "/-- live cross-check (inspect.signature + dataclass fields of the imported modules) disagreements -/",
        f"def liveMismatches : List String := {lean_list([lean_str(x) for x in info.get('live_mismatches', ['<not run>'])[:20]])}",
        "",
        "/-- observed on this run with an instrumented re-iterable caller object: the passes each list-attribute entry",
        "    point (class, form) and the variadic input field make over the caller's iterable -/",
        "def iterPasses : List IterRow := [",
        ",\n".join(f"  ⟨{lean_str(c)}, .{f}, [" + ", ".join(".full" if k == "full" else f".upto {n}" for k, n in ps) + "]⟩"
                   for c, f, ps in info.get("iter_passes", [("<not probed>", "direct", [("partial", 0)])])),
        "]",
        "",
        "/-- from the source text: upper bound over all paths of the reads of the caller's `value` in the list-attribute",
        "    constructors (reads after `value = …`, inside `isinstance(value, …)` and `value is None` do not count) -/",
        "def callerLoads : List (String × Nat) := " + lean_list([f"({lean_str(a)}, {n})" for a, n in info.get("caller_loads", [("<not read>", 99)])]),
        "",
        "/-- observed on this run: the list classes keep a reference (`_Ref`) handed to `AttrX(...)` / `AttrX.maybe(...)` -/",
        "def keepsRef : List (String × Form × Bool) := " + lean_list([f"({lean_str(c)}, .{f}, {lean_bool(ok)})" for c, f, ok in info.get("keeps_ref", [("<not probed>", "direct", False)])]),
        "",
        "end Generated.AttrSites", ""]
    return "\n".join(ls)


def live_check(rows) -> list:
    """Compare the extraction with the imported modules: the constructor exists, the parameter is in its signature
    with the same required/optional status, the operator class has the Attributes field, and the field's declared
    type is the class (Optional[...] iff the `maybe` form)."""
    import importlib
    import inspect
    import typing

    bad = []
    mods = {}
    for mid, _, pymod in MODULES:
        try:
            mods[mid] = importlib.import_module(pymod)
        except Exception as e:  # noqa: BLE001
            bad.append(f"{mid}: import failed ({type(e).__name__})")
    sigs: dict = {}
    hints: dict = {}
    for r in rows:
        m = mods.get(r["mod"])
        if m is None:
            continue
        key = (r["mod"], r["ctor"])
        try:
            if key not in sigs:
                sigs[key] = inspect.signature(getattr(m, r["ctor"]))
            hk = (r["mod"], r["opcls"])
            if hk not in hints:
                hints[hk] = typing.get_type_hints(getattr(m, r["opcls"]).Attributes)
            if r["param"] is not None:
                p = sigs[key].parameters[r["param"]]
                if (p.default is inspect.Parameter.empty) != bool(r["required"]):
                    bad.append(f"{r['mod']}.{r['ctor']}.{r['param']}: required differs from the live signature")
            t = hints[hk][r["field"]]
            opt = typing.get_origin(t) is typing.Union and type(None) in typing.get_args(t)
            base = next(a for a in typing.get_args(t) if a is not type(None)) if opt else t
            if getattr(base, "__name__", None) != r["cls"]:
                bad.append(f"{r['mod']}.{r['opcls']}.{r['field']}: declared {getattr(base, '__name__', base)}, constructed {r['cls']}")
            if opt != (r["form"] == "maybe"):
                bad.append(f"{r['mod']}.{r['opcls']}.{r['field']}: declared {'Optional' if opt else 'required'}, form {r['form']}")
        except Exception as e:  # noqa: BLE001
            bad.append(f"{r['mod']}.{r['ctor']}.{r['field']}: {type(e).__name__}: {e}"[:120])
    # the other direction: every Attributes field of every operator class of the module is in the table
    seen = {(r["mod"], r["opcls"], r["field"]) for r in rows}
    ctor_classes = {(r["mod"], r["opcls"]) for r in rows}
    for mid, m in mods.items():
        for nm, obj in vars(m).items():
            if isinstance(obj, type) and hasattr(obj, "Attributes") and getattr(obj, "__module__", None) == m.__name__ and nm.startswith("_"):
                try:
                    fields = list(typing.get_type_hints(obj.Attributes))
                except Exception:  # noqa: BLE001
                    continue
                for f in fields:
                    if (mid, nm, f) not in seen:
                        bad.append(f"{mid}.{nm}.{f}: field without a constructor row")
                if fields and (mid, nm) not in ctor_classes:
                    pass
    return bad


def generate(live: bool = True) -> dict:
    try:
        info = scan()
    except Exception as e:  # noqa: BLE001
        info = {"rows": [], "irregular": [f"<scan failed: {type(e).__name__}: {e}>"[:200]], "multi": [], "per_mod": {}}
    info["shapes"] = shapes(info["rows"])
    if live:
        try:
            info["live_mismatches"] = live_check(info["rows"])
        except Exception as e:  # noqa: BLE001
            info["live_mismatches"] = [f"<live check failed: {type(e).__name__}: {e}>"[:200]]
    else:
        info["live_mismatches"] = []
    try:
        info["iter_passes"] = iter_passes() if live else []
    except Exception:  # noqa: BLE001
        info["iter_passes"] = [("<probe failed>", "direct", [("partial", 0)])]
    try:
        info["keeps_ref"] = maybe_keeps_ref() if live else []
    except Exception:  # noqa: BLE001
        info["keeps_ref"] = [("<probe failed>", "direct", False)]
    try:
        info["caller_loads"] = caller_loads()
    except Exception:  # noqa: BLE001
        info["caller_loads"] = [("<scan failed>", 99)]
    write_if_changed(GEN / "AttrSites.lean", emit(info))
    return info


if __name__ == "__main__":
    from harness import core

    core.use_repo_on_path()
    out = generate()
    print(json.dumps({k: v for k, v in out.items() if k != "rows"}, indent=1))
    print(len(out["rows"]), "rows;", sum(1 for r in out["rows"] if r["cls"] in LIST_CLASSES), "list attributes;",
          sum(1 for r in out["rows"] if r["cls"] in LIST_CLASSES and r["form"] == "direct"), "direct list attributes")
