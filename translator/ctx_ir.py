"""Extract the statement-level IR of spox's generator context managers (C16, C12).

For each `@contextmanager` function we emit a list of `Ctx.Stmt`:
  savePrev      local := <global G>
  setArg        G := <anything that is not the saved local>   (directly or through a one-line setter)
  restorePrev   G := <the saved local>
  yield_        yield
  tryFinally b f
  opaque        anything else that is not provably irrelevant to G

`G` must be the same global in all three roles, otherwise the statement becomes `opaque`.
The extraction is syntactic but normalises the harmless variations (setter function vs. direct
assignment, docstrings, type annotations, `pass`).
"""
import ast

from .common import GEN, HEADER, dotted, lean_list, lean_str, parse, write_if_changed

MANAGERS = ["type_warning_level", "value_prop_backend", "operator_overloading"]


def _setters(mod: ast.Module) -> dict:
    """Module-level `def f(x): G = x` one-line setters: name -> target global (dotted)."""
    out = {}
    for fn in mod.body:
        if not isinstance(fn, ast.FunctionDef) or len(fn.args.args) != 1:
            continue
        body = [s for s in fn.body if not (isinstance(s, ast.Expr) and isinstance(s.value, ast.Constant))]
        if len(body) == 1 and isinstance(body[0], ast.Assign) and len(body[0].targets) == 1:
            tgt = dotted(body[0].targets[0])
            val = body[0].value
            if tgt and "." in tgt and isinstance(val, ast.Name) and val.id == fn.args.args[0].arg:
                out[fn.name] = tgt
    return out


class Extract:
    def __init__(self, fn: ast.FunctionDef, setters: dict):
        self.fn = fn
        self.setters = setters
        self.saved_local = None
        self.glob = None

    def stmts(self, body) -> list:
        out = []
        for s in body:
            out.extend(self.stmt(s))
        return out

    def _assign_global(self, target: str, value: ast.AST) -> list:
        if self.glob is not None and target != self.glob:
            return ["opaque"]
        if self.glob is None:
            # setting a global before it was saved: remember it, the order is what the IR records
            self.glob = target
        if isinstance(value, ast.Name) and value.id == self.saved_local:
            return ["restorePrev"]
        return ["setArg"]

    def stmt(self, s: ast.stmt) -> list:
        if isinstance(s, ast.Expr) and isinstance(s.value, ast.Constant):
            return []  # docstring
        if isinstance(s, ast.Pass):
            return []
        if isinstance(s, ast.AnnAssign) and s.value is None:
            return []
        if isinstance(s, ast.Expr) and isinstance(s.value, ast.Yield) and s.value.value is None:
            return ["yield_"]
        if isinstance(s, ast.Assign) and len(s.targets) == 1:
            tgt = s.targets[0]
            if isinstance(tgt, ast.Name):
                src = dotted(s.value)
                if src and "." in src and self.saved_local is None:
                    if self.glob is not None and src != self.glob:
                        return ["opaque"]
                    self.saved_local, self.glob = tgt.id, src
                    return ["savePrev"]
                return ["opaque"]
            t = dotted(tgt)
            if t and "." in t:
                return self._assign_global(t, s.value)
            return ["opaque"]
        if isinstance(s, ast.Expr) and isinstance(s.value, ast.Call):
            f = dotted(s.value.func)
            if f in self.setters and len(s.value.args) == 1 and not s.value.keywords:
                return self._assign_global(self.setters[f], s.value.args[0])
            return ["opaque"]
        if isinstance(s, ast.Try) and not s.handlers and not s.orelse and s.finalbody:
            return [("tryFinally", self.stmts(s.body), self.stmts(s.finalbody))]
        return ["opaque"]


def render(st) -> str:
    if isinstance(st, tuple):
        return f".tryFinally {lean_list([render(x) for x in st[1]])} {lean_list([render(x) for x in st[2]])}"
    return "." + st


def extract(rel="src/spox/_future.py"):
    mod = parse(rel)
    setters = _setters(mod)
    found = {}
    for fn in mod.body:
        if isinstance(fn, ast.FunctionDef) and any(
            (dotted(d) or "").endswith("contextmanager") for d in fn.decorator_list
        ):
            ex = Extract(fn, setters)
            found[fn.name] = (ex.stmts(fn.body), ex.glob)
    return found


def generate() -> dict:
    found = extract()
    lines = [HEADER.format(src="src/spox/_future.py", tool="translator/ctx_ir.py"),
             "import SpoxModel.Model.Ctx\n",
             "namespace Generated.CtxIR\nopen Ctx\n"]
    info = {}
    for i, name in enumerate(MANAGERS):
        ir, glob = found.get(name, (["opaque"], None))
        info[name] = {"ir": ir, "global": glob}
        lines.append(f"/-- `{name}` (global `{glob}`) -/")
        lines.append(f"def ir{i} : List Stmt := {lean_list([render(s) for s in ir])}\n")
    others = sorted(set(found) - set(MANAGERS))
    lines.append(f"def managerNames : List String := {lean_list([lean_str(n) for n in MANAGERS])}")
    lines.append(f"def otherContextManagers : List String := {lean_list([lean_str(n) for n in others])}")
    lines.append("def managers : Managers := ⟨fun i => match i with | 0 => ir0 | 1 => ir1 | 2 => ir2⟩")
    lines.append("\nend Generated.CtxIR\n")
    write_if_changed(GEN / "CtxIR.lean", "\n".join(lines))
    return info


if __name__ == "__main__":
    import json
    print(json.dumps(generate(), indent=1))
