"""Extract the statement-level IR of `spox._public._temporary_renames` (C12, C03).

Emits `Generated/RenamesIR.lean` with `def ir : List Renames.Stmt`. The classification is syntactic
but normalises the harmless variations (annotations, docstrings, comments, `setdefault` vs.
`if arg not in pre`, `_rename(x)` vs. `._name = x`). Anything else becomes `.opaque`, which no
accepted shape contains; the name-store correspondence of the C12 check validates the classifier
on every run.
"""
import ast

from .common import GEN, HEADER, lean_list, parse, write_if_changed

SRC = "src/spox/_public.py"
FUNC = "_temporary_renames"


def _is_name(n, name):
    return isinstance(n, ast.Name) and n.id == name


def _items_loop(s: ast.For, over: str):
    """`for a, b in <over>.items():` -> (a, b) names, else None."""
    it = s.iter
    if not (isinstance(it, ast.Call) and not it.args and not it.keywords
            and isinstance(it.func, ast.Attribute) and it.func.attr == "items"
            and _is_name(it.func.value, over)):
        return None
    t = s.target
    if isinstance(t, ast.Tuple) and len(t.elts) == 2 and all(isinstance(e, ast.Name) for e in t.elts) and not s.orelse:
        return t.elts[0].id, t.elts[1].id
    return None


def _is_private_name_of(n, var):
    return isinstance(n, ast.Attribute) and n.attr == "_name" and _is_name(n.value, var)


def _rename_stmt(s, var, to):
    """`var._rename(to)` or `var._name = to`."""
    if isinstance(s, ast.Expr) and isinstance(s.value, ast.Call):
        c = s.value
        if (isinstance(c.func, ast.Attribute) and c.func.attr == "_rename" and _is_name(c.func.value, var)
                and len(c.args) == 1 and not c.keywords and _is_name(c.args[0], to)):
            return True
    if isinstance(s, ast.Assign) and len(s.targets) == 1 and _is_private_name_of(s.targets[0], var) and _is_name(s.value, to):
        return True
    return False


class Extract:
    def __init__(self, fn: ast.FunctionDef):
        self.fn = fn
        self.kw = fn.args.kwarg.arg if fn.args.kwarg else None
        self.pre = None

    def _skip(self, s):
        if isinstance(s, ast.Expr) and isinstance(s.value, ast.Constant):
            return True
        if isinstance(s, ast.Pass):
            return True
        if isinstance(s, ast.AnnAssign) and s.value is None:
            return True
        return False

    def stmts(self, body):
        out = []
        for s in body:
            if not self._skip(s):
                out.append(self.stmt(s))
        return out

    def _empty_dict(self, v):
        return (isinstance(v, ast.Dict) and not v.keys) or (
            isinstance(v, ast.Call) and _is_name(v.func, "dict") and not v.args and not v.keywords)

    def stmt(self, s):
        tgt = val = None
        if isinstance(s, ast.AnnAssign) and isinstance(s.target, ast.Name):
            tgt, val = s.target.id, s.value
        elif isinstance(s, ast.Assign) and len(s.targets) == 1 and isinstance(s.targets[0], ast.Name):
            tgt, val = s.targets[0].id, s.value
        if tgt is not None:
            if self._empty_dict(val) and self.pre in (None, tgt):
                self.pre = tgt
                return "initPre"
            return "opaque"
        if isinstance(s, ast.Expr) and isinstance(s.value, ast.Yield) and s.value.value is None:
            return "yield_"
        if isinstance(s, ast.Try) and not s.handlers and not s.orelse and s.finalbody:
            return ("tryFinally", self.stmts(s.body), self.stmts(s.finalbody))
        if isinstance(s, ast.For):
            if self.kw and (kv := _items_loop(s, self.kw)):
                return ("forKw", [self.kw_stmt(x, *kv) for x in s.body if not self._skip(x)])
            if self.pre and (kv := _items_loop(s, self.pre)):
                return ("forPre", [("renameToSaved" if _rename_stmt(x, kv[0], kv[1]) else "opaque")
                                   for x in s.body if not self._skip(x)])
        return "opaque"

    def _record_always(self, s, arg):
        if isinstance(s, ast.Assign) and len(s.targets) == 1:
            t = s.targets[0]
            return (isinstance(t, ast.Subscript) and _is_name(t.value, self.pre) and _is_name(t.slice, arg)
                    and _is_private_name_of(s.value, arg))
        return False

    def kw_stmt(self, s, key, arg):
        if self.pre is None:
            return "opaque"
        if self._record_always(s, arg):
            return "recordAlways"
        if isinstance(s, ast.Expr) and isinstance(s.value, ast.Call):
            c = s.value
            if (isinstance(c.func, ast.Attribute) and c.func.attr == "setdefault" and _is_name(c.func.value, self.pre)
                    and len(c.args) == 2 and not c.keywords and _is_name(c.args[0], arg)
                    and _is_private_name_of(c.args[1], arg)):
                return "recordFirst"
        if isinstance(s, ast.If) and not s.orelse and len(s.body) == 1 and self._record_always(s.body[0], arg):
            t = s.test
            if (isinstance(t, ast.Compare) and len(t.ops) == 1 and isinstance(t.ops[0], ast.NotIn)
                    and _is_name(t.left, arg) and _is_name(t.comparators[0], self.pre)):
                return "recordFirst"
        if _rename_stmt(s, arg, key):
            return "renameToKey"
        return "opaque"


def render(st) -> str:
    if isinstance(st, tuple):
        if st[0] == "tryFinally":
            return f".tryFinally {lean_list([render(x) for x in st[1]])} {lean_list([render(x) for x in st[2]])}"
        return f".{st[0]} {lean_list(['.' + x for x in st[1]])}"
    return "." + st


def extract():
    mod = parse(SRC)
    for fn in mod.body:
        if isinstance(fn, ast.FunctionDef) and fn.name == FUNC:
            is_cm = any("contextmanager" in ast.unparse(d) for d in fn.decorator_list)
            ir = Extract(fn).stmts(fn.body)
            return ir if is_cm else ["opaque"]
    return ["opaque"]


def generate() -> dict:
    ir = extract()
    text = "\n".join([
        HEADER.format(src=SRC, tool="translator/renames_ir.py"),
        "import SpoxModel.Model.Renames\n",
        "namespace Generated.RenamesIR\nopen Renames\n",
        f"/-- `{FUNC}` -/",
        f"def ir : List Stmt := {lean_list([render(s) for s in ir])}\n",
        "end Generated.RenamesIR\n",
    ])
    write_if_changed(GEN / "RenamesIR.lean", text)
    return {"ir": ir}


if __name__ == "__main__":
    import json
    print(json.dumps(generate(), indent=1))
