"""Extract the "is the returned model checked?" IR of `Graph.to_onnx_model` and `spox.build` (C02).

For every statement we only record what it does to the *checked* status of local variables:

  check v        `onnx.checker.check_model(v, ...)`                (v a local name, first argument)
  assign v       `v = <anything>`                                  (v becomes unchecked)
  assignCallee v `v = <obj>.to_onnx_model(...)`   (in `build`; the callee is the other extracted body)
  touch v        v passed as an argument to another call, a method called on v or on an attribute chain
                 of v, an attribute/subscript of v assigned or deleted      (v may have been changed)
  ifKnown c B    `if <param>:` where <param> is a parameter of `to_onnx_model` whose value is known:
                 its default, unless the call in `build` passes a constant for it
  ifUnknown T E  every other `if`; loops (`T` = body, `E` = orelse); exception handlers
  ret v / raise / other

Reading attributes of v (`v.graph.input` in a comprehension) is not a touch.
Generated: lean/SpoxModel/Generated/BuildFlags.lean.
"""
import ast

from .common import GEN, HEADER, dotted, lean_bool, lean_list, parse, write_if_changed

CHECK_FUNCS = {"onnx.checker.check_model"}


class Fn:
    def __init__(self, fn: ast.FunctionDef, known: dict, callee_names=(), siblings=None, base=0, depth=0):
        self.fn = fn
        self.known = known  # parameter name -> python constant (value at the call site)
        self.vars: dict[str, int] = {}
        self.callee_names = set(callee_names)
        self.siblings = siblings or {}  # methods of the same class: name -> FunctionDef (for tail calls)
        self.base = base  # variable ids of an inlined helper live in their own range
        self.depth = depth

    def vid(self, name: str) -> int:
        return self.base + self.vars.setdefault(name, len(self.vars))

    def tail_call(self, call: ast.Call):
        """`return self.helper(...)`: the helper's own paths are the caller's paths (inlined one level per
        helper, at most 3 deep). Parameters bound to constants / known parameters stay known."""
        if not (isinstance(call.func, ast.Attribute) and isinstance(call.func.value, ast.Name)
                and call.func.value.id == "self" and call.func.attr in self.siblings and self.depth < 3):
            return None
        callee = self.siblings[call.func.attr]
        known = _defaults(callee)
        params = [a.arg for a in callee.args.posonlyargs + callee.args.args]
        if params and params[0] == "self":
            params = params[1:]
        bound = dict(zip(params, call.args))
        for kw in call.keywords:
            if kw.arg is None:
                return None
            bound[kw.arg] = kw.value
        for name, val in bound.items():
            if isinstance(val, ast.Constant):
                known[name] = val.value
            elif isinstance(val, ast.Name) and val.id in self.known:
                known[name] = self.known[val.id]
            else:
                known.pop(name, None)
        sub = Fn(callee, known, self.callee_names, self.siblings, base=self.base + 100, depth=self.depth + 1)
        return sub.extract()

    # -- which local names does an expression possibly change?
    def touched(self, e: ast.AST, skip_check=True) -> list[str]:
        out = []
        for node in ast.walk(e):
            if isinstance(node, ast.Call):
                f = dotted(node.func)
                args = list(node.args) + [k.value for k in node.keywords]
                for a in args:
                    if isinstance(a, ast.Name):
                        out.append(a.id)
                    elif isinstance(a, ast.Starred) and isinstance(a.value, ast.Name):
                        out.append(a.value.id)
                # a method called on v or on an attribute chain rooted at v
                if isinstance(node.func, ast.Attribute):
                    base = node.func.value
                    while isinstance(base, (ast.Attribute, ast.Subscript)):
                        base = base.value
                    if isinstance(base, ast.Name) and (f is None or f.split(".")[0] == base.id):
                        out.append(base.id)
        return out

    def test_value(self, test: ast.AST):
        """Constant truth value of an `if` test when it only involves known parameters; else None."""
        try:
            names = {n.id for n in ast.walk(test) if isinstance(n, ast.Name)}
            if not names or not names <= set(self.known):
                return None
            if any(isinstance(n, (ast.Call, ast.Attribute, ast.Subscript)) for n in ast.walk(test)):
                return None
            return bool(eval(compile(ast.Expression(test), "<test>", "eval"), {"__builtins__": {}}, dict(self.known)))  # noqa: S307
        except Exception:  # noqa: BLE001
            return None

    def block(self, body) -> list:
        out = []
        for s in body:
            out.extend(self.stmt(s))
        return out

    def is_local(self, name):
        return name in self.vars or name in self.assigned

    def stmt(self, s: ast.stmt) -> list:
        if isinstance(s, ast.Expr) and isinstance(s.value, ast.Constant):
            return []
        if isinstance(s, ast.Pass):
            return []
        if isinstance(s, ast.Return):
            if isinstance(s.value, ast.Call):
                inl = self.tail_call(s.value)
                if inl is not None:
                    return inl
            pre = [("touch", self.vid(n)) for n in self.touched(s.value) if self.is_local(n)] if s.value else []
            if isinstance(s.value, ast.Name):
                return pre + [("ret", self.vid(s.value.id))]
            return pre + [("ret", None)]
        if isinstance(s, ast.Raise):
            return [("raise",)]
        if isinstance(s, ast.Expr) and isinstance(s.value, ast.Call):
            f = dotted(s.value.func)
            if f in CHECK_FUNCS and s.value.args and isinstance(s.value.args[0], ast.Name):
                return [("check", self.vid(s.value.args[0].id))]
            ts = [("touch", self.vid(n)) for n in self.touched(s.value) if self.is_local(n)]
            return ts or [("other",)]
        if isinstance(s, (ast.Assign, ast.AnnAssign, ast.AugAssign)):
            targets = s.targets if isinstance(s, ast.Assign) else [s.target]
            value = s.value
            pre = []
            if value is not None:
                pre = [("touch", self.vid(n)) for n in self.touched(value) if self.is_local(n)]
            out = list(pre)
            for t in targets:
                for el in (t.elts if isinstance(t, (ast.Tuple, ast.List)) else [t]):
                    if isinstance(el, ast.Name):
                        is_callee = (
                            isinstance(value, ast.Call)
                            and isinstance(value.func, ast.Attribute)
                            and value.func.attr in self.callee_names
                            and len(targets) == 1
                            and not isinstance(t, (ast.Tuple, ast.List))
                        )
                        out.append(("assignCallee" if is_callee else "assign", self.vid(el.id)))
                    else:
                        base = el
                        while isinstance(base, (ast.Attribute, ast.Subscript, ast.Starred)):
                            base = base.value
                        if isinstance(base, ast.Name) and self.is_local(base.id):
                            out.append(("touch", self.vid(base.id)))
            return out or [("other",)]
        if isinstance(s, ast.Delete):
            out = []
            for t in s.targets:
                base = t
                while isinstance(base, (ast.Attribute, ast.Subscript)):
                    base = base.value
                if isinstance(base, ast.Name) and self.is_local(base.id):
                    out.append(("touch", self.vid(base.id)))
            return out or [("other",)]
        if isinstance(s, ast.If):
            pre = [("touch", self.vid(n)) for n in self.touched(s.test) if self.is_local(n)]
            tv = self.test_value(s.test)
            if tv is not None and not s.orelse:
                return pre + [("ifKnown", tv, self.block(s.body))]
            if tv is not None:
                return pre + [("ifKnown", tv, self.block(s.body)), ("ifKnown", not tv, self.block(s.orelse))]
            return pre + [("ifUnknown", self.block(s.body), self.block(s.orelse))]
        if isinstance(s, (ast.For, ast.While)):
            return [("ifUnknown", self.block(s.body), self.block(s.orelse))]
        if isinstance(s, ast.With):
            pre = []
            for it in s.items:
                pre += [("touch", self.vid(n)) for n in self.touched(it.context_expr) if self.is_local(n)]
            return pre + self.block(s.body)
        if isinstance(s, ast.Try):
            out = self.block(s.body)
            for h in s.handlers:
                out.append(("ifUnknown", self.block(h.body), []))
            out += self.block(s.orelse)
            out += self.block(s.finalbody)
            return out
        if isinstance(s, (ast.FunctionDef, ast.ClassDef, ast.Import, ast.ImportFrom, ast.Assert,
                          ast.Global, ast.Nonlocal)):
            return [("other",)]
        return [("other",)]

    def extract(self):
        self.assigned = set()
        for node in ast.walk(self.fn):
            if isinstance(node, ast.Name) and isinstance(node.ctx, ast.Store):
                self.assigned.add(node.id)
        return self.block(self.fn.body)


def render(st) -> str:
    k = st[0]
    if k in ("assign", "assignCallee", "check", "touch"):
        return f".{k} {st[1]}"
    if k == "ret":
        return ".ret none" if st[1] is None else f".ret (some {st[1]})"
    if k == "ifKnown":
        return f".ifKnown {lean_bool(st[1])} {lean_list([render(x) for x in st[2]])}"
    if k == "ifUnknown":
        return f".ifUnknown {lean_list([render(x) for x in st[1]])} {lean_list([render(x) for x in st[2]])}"
    return "." + k


def _find(mod, cls, name):
    for n in mod.body:
        if cls and isinstance(n, ast.ClassDef) and n.name == cls:
            for m in n.body:
                if isinstance(m, ast.FunctionDef) and m.name == name:
                    return m
        if not cls and isinstance(n, ast.FunctionDef) and n.name == name:
            return n
    return None


def _defaults(fn: ast.FunctionDef) -> dict:
    out = {}
    a = fn.args
    pos = a.posonlyargs + a.args
    for arg, d in zip(pos[len(pos) - len(a.defaults):], a.defaults):
        if isinstance(d, ast.Constant):
            out[arg.arg] = d.value
    for arg, d in zip(a.kwonlyargs, a.kw_defaults):
        if d is not None and isinstance(d, ast.Constant):
            out[arg.arg] = d.value
    return out


def extract():
    gmod = parse("src/spox/_graph.py")
    pmod = parse("src/spox/_public.py")
    tom = _find(gmod, "Graph", "to_onnx_model")
    bld = _find(pmod, None, "build")
    info = {"found_to_onnx_model": tom is not None, "found_build": bld is not None}
    known = _defaults(tom) if tom else {}
    unknown_params = []
    # the call(s) of to_onnx_model inside build: constants override defaults, anything else is unknown
    calls = []
    if bld:
        for node in ast.walk(bld):
            if isinstance(node, ast.Call) and isinstance(node.func, ast.Attribute) and node.func.attr == "to_onnx_model":
                calls.append(node)
                if node.args:
                    unknown_params.append("*positional*")
                for kw in node.keywords:
                    if kw.arg is None:
                        unknown_params.append("**kwargs")
                    elif isinstance(kw.value, ast.Constant):
                        known[kw.arg] = kw.value.value
                    else:
                        unknown_params.append(kw.arg)
    for p in unknown_params:
        known.pop(p, None)
    if any(p.startswith("*") for p in unknown_params):
        known = {}
    info["n_calls"] = len(calls)
    info["known_params"] = {k: known[k] for k in sorted(known)}
    siblings = {}
    for n in gmod.body:
        if isinstance(n, ast.ClassDef) and n.name == "Graph":
            siblings = {m.name: m for m in n.body if isinstance(m, ast.FunctionDef)}
    to_ir = Fn(tom, known, siblings=siblings).extract() if tom else [("other",)]
    b_ir = Fn(bld, {}, callee_names=["to_onnx_model"]).extract() if bld else [("other",)]
    # informational constants
    full = None
    if tom:
        for node in ast.walk(tom):
            if isinstance(node, ast.Call) and dotted(node.func) in CHECK_FUNCS:
                for kw in node.keywords:
                    if kw.arg == "full_check":
                        try:
                            full = bool(eval(compile(ast.Expression(kw.value), "<f>", "eval"),  # noqa: S307
                                             {"__builtins__": {}}, dict(known)))
                        except Exception:  # noqa: BLE001
                            full = None
    concrete = False
    if tom:
        for node in ast.walk(tom):
            if isinstance(node, ast.Call) and isinstance(node.func, ast.Attribute) and node.func.attr == "to_onnx":
                for kw in node.keywords:
                    if kw.arg == "concrete":
                        if isinstance(kw.value, ast.Constant):
                            concrete = bool(kw.value.value)
                        elif isinstance(kw.value, ast.Name) and kw.value.id in known:
                            concrete = bool(known[kw.value.id])
    info.update({"to_onnx_model_ir": to_ir, "build_ir": b_ir, "full_check": bool(full), "concrete_io": concrete})
    return info


def generate() -> dict:
    try:
        info = extract()
    except Exception as e:  # noqa: BLE001 - the source no longer has a shape we can read: make the obligation fail
        info = {"found_to_onnx_model": False, "found_build": False, "n_calls": 0, "known_params": {},
                "to_onnx_model_ir": [("other",)], "build_ir": [("other",)], "full_check": False,
                "concrete_io": False, "error": f"{type(e).__name__}: {e}"}
    lines = [
        HEADER.format(src="src/spox/_graph.py (Graph.to_onnx_model), src/spox/_public.py (build)",
                      tool="translator/build_flags.py"),
        "import SpoxModel.Model.BuildIR\n",
        "namespace Generated.BuildFlags\nopen BuildIR\n",
        f"/-- `Graph.to_onnx_model`, with parameters as `build` passes them: {info['known_params']} -/",
        f"def toOnnxModelIR : List Stmt := {lean_list([render(x) for x in info['to_onnx_model_ir']])}\n",
        "/-- `spox.build` -/",
        f"def buildIR : List Stmt := {lean_list([render(x) for x in info['build_ir']])}\n",
        f"/-- number of `.to_onnx_model(...)` calls in `build` -/\ndef toModelCalls : Nat := {info['n_calls']}\n",
        f"/-- `full_check` of the final checker call under build's parameters -/\ndef fullCheck : Bool := {lean_bool(info['full_check'])}\n",
        f"/-- `to_onnx(concrete=...)` under build's parameters: inputs/outputs must have concrete types -/\ndef concreteIO : Bool := {lean_bool(info['concrete_io'])}\n",
        "end Generated.BuildFlags\n",
    ]
    write_if_changed(GEN / "BuildFlags.lean", "\n".join(lines))
    return info


if __name__ == "__main__":
    import json

    print(json.dumps(generate(), indent=1, default=str))
