"""Inventory of the type layer's classes and of the methods that decide equality, compatibility,
broadcasting and the ONNX forms (C13, tie G) -> Generated/TypeOverrides.lean.

The model (`Model/Types.lean`) covers `Type`/`Tensor`/`Sequence`/`Optional`, `Natural`/`Unknown`/`Constant`,
`Shape` and the module-level `_broadcast_elem`. A new subclass (a `Map` type, a `Symbolic` dimension), a
new override of `_subtype` / `__le__` / `__eq__` / `__hash__` / `_to_onnx`, a changed dataclass decorator
(`eq=False`, no longer frozen) or a second definition of `broadcast` is a code path the correspondence
sweeps may never reach: it must break an obligation (`C13.type_layer_inventory`) whatever is generated.

Also returned (not an obligation - harmless rewrites exist): a normalised-AST digest of every covered
function, compared by the harness with a committed baseline; a difference escalates the quick run to the
thorough bounds.
"""
import ast
import hashlib

from .common import GEN, HEADER, REPO, dotted, lean_list, lean_str, write_if_changed

FILES = ["src/spox/_type_system.py", "src/spox/_shape.py"]
ROOTS = {"Type", "Natural", "Shape"}
WATCH = ["__init__", "__new__", "__post_init__", "__setattr__", "__eq__", "__ne__", "__hash__", "__le__", "__lt__", "__ge__", "__gt__",
         "__bool__", "__getitem__", "_subtype", "_to_onnx", "_from_onnx", "to_simple", "from_simple", "to_onnx", "from_onnx",
         "simple_to_onnx", "simple_from_onnx", "broadcast", "can_broadcast", "shape", "dtype", "rank", "maybe_rank"]
COVERED_FUNCS = ["_broadcast_elem", "dtype_to_tensor_type", "tensor_type_to_dtype"]


def _deco(d: ast.AST) -> str:
    if isinstance(d, ast.Call):
        args = [ast.unparse(a) for a in d.args] + [f"{k.arg}={ast.unparse(k.value)}" for k in d.keywords]
        return f"{dotted(d.func) or ast.unparse(d.func)}({', '.join(sorted(args))})"
    return dotted(d) or ast.unparse(d)


class _Strip(ast.NodeTransformer):
    """Drop docstrings and annotations: the digest should survive comments / typing-only edits."""

    def visit_FunctionDef(self, node):
        self.generic_visit(node)
        if node.body and isinstance(node.body[0], ast.Expr) and isinstance(node.body[0].value, ast.Constant) \
                and isinstance(node.body[0].value.value, str):
            node.body = node.body[1:] or [ast.Pass()]
        node.returns = None
        for a in node.args.args + node.args.kwonlyargs + node.args.posonlyargs + \
                [x for x in (node.args.vararg, node.args.kwarg) if x]:
            a.annotation = None
        return node


def digest(fn: ast.AST) -> str:
    import copy

    node = _Strip().visit(copy.deepcopy(fn))
    return hashlib.sha256(ast.dump(node, annotate_fields=False, include_attributes=False).encode()).hexdigest()[:16]


def scan():
    classes, funcs, digests, opaque = [], [], {}, []
    # every class anywhere under src/spox that derives (transitively, by name) from the roots
    known = set(ROOTS)
    trees = {}
    for path in sorted((REPO / "src" / "spox").rglob("*.py")):
        rel = str(path.relative_to(REPO))
        if "/opset/" in rel and rel not in FILES:
            continue  # generated operator modules define no types (and are large)
        try:
            trees[rel] = ast.parse(path.read_text(), filename=rel)
        except Exception:  # noqa: BLE001
            if rel in FILES:
                opaque.append(rel)
    changed = True
    found = {}
    while changed:
        changed = False
        for rel, tree in trees.items():
            for node in ast.walk(tree):
                if isinstance(node, ast.ClassDef) and (rel, node.name) not in found:
                    bases = [(dotted(b) or ast.unparse(b)).split(".")[-1] for b in node.bases]
                    if node.name in ROOTS and rel in FILES or any(b in known for b in bases):
                        found[(rel, node.name)] = (node, bases)
                        if node.name not in known:
                            known.add(node.name)
                        changed = True
    for (rel, name), (node, bases) in sorted(found.items()):
        methods = []
        for st in node.body:
            if isinstance(st, (ast.FunctionDef, ast.AsyncFunctionDef)):
                if st.name in WATCH:
                    # a cache / wrapper put on a deciding method shows in the inventory (`broadcast@lru_cache(...)`)
                    decos = [_deco(d) for d in st.decorator_list if _deco(d) not in ("property", "classmethod", "staticmethod")]
                    methods.append(st.name + ("@" + ",".join(decos) if decos else ""))
                    digests[f"{name}.{st.name}"] = digest(st)
            elif isinstance(st, (ast.Assign, ast.AnnAssign)):
                # a class-level `__eq__ = ...` / `__hash__ = None` assignment also overrides
                tg = st.targets if isinstance(st, ast.Assign) else [st.target]
                for t in tg:
                    if isinstance(t, ast.Name) and t.id in WATCH and (isinstance(st, ast.Assign) or st.value is not None):
                        methods.append(t.id + "=")
                    elif isinstance(t, ast.Name) and (isinstance(st, ast.Assign) or st.value is not None):
                        # any other class-level attribute with a value (a field default, or hidden state such as a cache)
                        methods.append("attr:" + t.id)
        classes.append((name, rel, [b for b in bases if b not in ("ABC",)], sorted(_deco(d) for d in node.decorator_list), sorted(methods)))
    for rel in FILES + ["src/spox/_utils.py"]:
        tree = trees.get(rel)
        if tree is None:
            continue
        for st in tree.body:
            if isinstance(st, ast.FunctionDef) and (st.name in COVERED_FUNCS or (rel in FILES and not st.name.startswith("__"))):
                if rel in FILES:
                    funcs.append((st.name, rel))
                if st.name in COVERED_FUNCS or rel in FILES:
                    digests[st.name] = digest(st)
    return classes, sorted(funcs), digests, opaque


def generate() -> dict:
    classes, funcs, digests, opaque = scan()
    lines = [HEADER.format(src=", ".join(FILES), tool="translator/type_overrides.py"),
             "namespace Generated.TypeOverrides\n",
             "/-- A class of the type layer: name, file, bases, decorators, the watched methods it defines. -/",
             "structure Cls where\n  name : String\n  file : String\n  bases : List String\n  decorators : List String\n  methods : List String\nderiving DecidableEq, Repr\n",
             "def classes : List Cls := [\n  " + ",\n  ".join(
                 f"⟨{lean_str(n)}, {lean_str(f)}, {lean_list([lean_str(b) for b in bs])}, {lean_list([lean_str(d) for d in ds])}, {lean_list([lean_str(m) for m in ms])}⟩"
                 for n, f, bs, ds, ms in classes) + "]\n",
             "/-- Module-level functions of `_type_system.py` / `_shape.py`. -/",
             "def functions : List (String × String) := " + lean_list([f"({lean_str(n)}, {lean_str(f)})" for n, f in funcs]) + "\n",
             f"def opaqueFiles : List String := {lean_list([lean_str(o) for o in opaque])}\n",
             "end Generated.TypeOverrides\n"]
    write_if_changed(GEN / "TypeOverrides.lean", "\n".join(lines))
    return {"classes": [list(c) for c in classes], "functions": [list(f) for f in funcs], "digests": digests, "opaque": opaque}


if __name__ == "__main__":
    import json
    print(json.dumps(generate(), indent=1))
