"""tie G (C11, C18): inventories of the code the attribute-spelling model (`Conform.mkAttr` / `callAttrsE`)
and the adaptation model (`CustomInline.decide`) cover.

`src/spox/_attributes.py`  -> for every class: bases, the methods its body defines (the override
    table: which `Attr*` class has its own `__init__` / `_validate` / `maybe` / `_to_onnx_deref`),
    class-level assignments, and the `raise` sites of the shared validation path.
`src/spox/_adapt.py`       -> for every function: its exits (each `return` / `raise` with the chain of
    `if` tests that guards it, normalised by `ast.unparse`) and the names it calls.

The models state which of these they cover (`Conform.coveredAttrClasses`,
`CustomInline.coveredExits`); `Props/C11.lean` / `Props/C18.lean` prove the generated tables equal
them. A new override (say `AttrDtype.__init__` canonicalising its argument), a new exit (an early
`return protos` in `adapt_inline`), a new function or a new class therefore breaks an obligation
whatever inputs the oracles generate. Normalised-AST hashes of every function / method are returned
for the evidence and for escalation (the harness runs the larger counts when one differs from the
committed baseline); they are *not* obligations, so that re-formatting or renaming a local does not.
Unparseable source degrades to an `<unparsed>` entry (which no model covers).
"""
import ast
import hashlib

from translator.common import GEN, HEADER, REPO, lean_list, lean_str, write_if_changed


def _hash(node) -> str:
    return hashlib.sha256(ast.dump(node, annotate_fields=False, include_attributes=False).encode()).hexdigest()[:12]


def _strip_doc(body):
    if body and isinstance(body[0], ast.Expr) and isinstance(getattr(body[0], "value", None), ast.Constant) \
            and isinstance(body[0].value.value, str):
        return body[1:]
    return body


def _alpha(fn):
    """rename parameters and locals (names stored to inside `fn`) to v0, v1, … in order of first
    occurrence, so that renaming a local does not change any table"""
    order = []
    for a in fn.args.posonlyargs + fn.args.args + fn.args.kwonlyargs:
        if a.arg not in order and a.arg != "self":
            order.append(a.arg)
    for node in ast.walk(fn):
        if isinstance(node, ast.Name) and isinstance(node.ctx, ast.Store) and node.id not in order:
            order.append(node.id)
        elif isinstance(node, ast.ExceptHandler) and node.name and node.name not in order:
            order.append(node.name)
    ren = {n: f"v{i}" for i, n in enumerate(order)}

    class R(ast.NodeTransformer):
        def visit_Name(self, node):
            return ast.copy_location(ast.Name(id=ren.get(node.id, node.id), ctx=node.ctx), node)

        def visit_arg(self, node):
            node.arg = ren.get(node.arg, node.arg)
            return node

    import copy

    return R().visit(copy.deepcopy(fn))


def _stored_names(fn):
    """every name bound inside `fn`: assignments, loop / with / except targets, comprehension variables, lambdas"""
    out = {}
    for node in ast.walk(fn):
        if isinstance(node, ast.Name) and isinstance(node.ctx, (ast.Store, ast.Del)):
            out[node.id] = out.get(node.id, 0) + 1
        elif isinstance(node, ast.ExceptHandler) and node.name:
            out[node.name] = out.get(node.name, 0) + 1
        elif isinstance(node, ast.Lambda):
            for a in node.args.args:
                out[a.arg] = out.get(a.arg, 0) + 2
    return out


class _Subst(ast.NodeTransformer):
    def __init__(self, env):
        self.env = env

    def visit_Name(self, node):
        if isinstance(node.ctx, ast.Load) and node.id in self.env:
            import copy

            return copy.deepcopy(self.env[node.id])
        return node


def _normaliser(fn):
    """-> norm(expr) -> str. Canonical text of an expression of `fn`, independent of how the function names or
    introduces its locals:
      * a local that is assigned exactly once by a plain `name = <expr>` is *inlined* (recursively) - so
        renaming it, adding an unused local, or naming a sub-expression (`d = {"", "ai.onnx"}; if not s & d`)
        changes nothing;
      * parameters become p0, p1, … by position (`self` stays);
      * every other bound name (comprehension / loop variables, names assigned more than once) becomes
        b0, b1, … by first occurrence *within the normalised expression itself*.
    What still changes the text: a different expression, a different order of exits, another guard - i.e. a
    change of the control flow or of what is computed."""
    import copy

    params = [a.arg for a in fn.args.posonlyargs + fn.args.args + fn.args.kwonlyargs]
    stored = _stored_names(fn)
    env = {}
    for node in ast.walk(fn):  # breadth-first; RHSs are substituted lazily below, so order does not matter
        if isinstance(node, ast.Assign) and len(node.targets) == 1 and isinstance(node.targets[0], ast.Name):
            n = node.targets[0].id
            if stored.get(n) == 1 and n not in params:
                env[n] = node.value
        elif isinstance(node, ast.AnnAssign) and isinstance(node.target, ast.Name) and node.value is not None:
            n = node.target.id
            if stored.get(n) == 1 and n not in params:
                env[n] = node.value

    def expand(e, depth=0):
        e = copy.deepcopy(e)
        for _ in range(12):  # nested single-assignment locals
            before = ast.dump(e)
            e = _Subst(env).visit(ast.Expression(body=e)).body
            if ast.dump(e) == before:
                break
        return e

    pmap = {n: (n if n == "self" else f"p{i}") for i, n in enumerate(params)}

    def norm(e) -> str:
        e = expand(e)
        order = {}

        class R(ast.NodeTransformer):
            def visit_Name(self, node):
                if node.id in pmap:
                    return ast.copy_location(ast.Name(id=pmap[node.id], ctx=node.ctx), node)
                if node.id in stored:
                    order.setdefault(node.id, f"b{len(order)}")
                    return ast.copy_location(ast.Name(id=order[node.id], ctx=node.ctx), node)
                return node

            def visit_arg(self, node):
                if node.arg in stored:
                    order.setdefault(node.arg, f"b{len(order)}")
                    node.arg = order[node.arg]
                return node

        # comprehension targets occur after their use in source order; visit generators first
        class Pre(ast.NodeVisitor):
            def visit_comp(self, node):
                for g in node.generators:
                    for t in ast.walk(g.target):
                        if isinstance(t, ast.Name) and t.id in stored and t.id not in pmap:
                            order.setdefault(t.id, f"b{len(order)}")
                self.generic_visit(node)

            visit_ListComp = visit_SetComp = visit_DictComp = visit_GeneratorExp = visit_comp

        Pre().visit(e)
        return ast.unparse(R().visit(e))

    return norm


def exits_of(fn: ast.FunctionDef):
    """[(kind, value, guards)] in source order; nested function bodies are not entered. All texts are
    normalised by `_normaliser` (single-assignment locals inlined, parameters p0…, bound names b0…)."""
    norm = _normaliser(fn)
    out = []

    def walk(stmts, guards):
        for st in stmts:
            if isinstance(st, ast.Return):
                out.append(("return", "" if st.value is None else norm(st.value)[:160], list(guards)))
            elif isinstance(st, ast.Raise):
                out.append(("raise", "" if st.exc is None else norm(st.exc)[:60], list(guards)))
            elif isinstance(st, ast.If):
                t = norm(st.test)
                walk(st.body, guards + [t])
                walk(st.orelse, guards + [f"not ({t})"])
            elif isinstance(st, (ast.For, ast.While)):
                walk(st.body, guards + ["<loop>"])
                walk(st.orelse, guards)
            elif isinstance(st, ast.Try):
                walk(st.body, guards + ["<try>"])
                for h in st.handlers:
                    walk(h.body, guards + [f"<except {ast.unparse(h.type) if h.type else ''}>"])
                walk(st.orelse, guards)
                walk(st.finalbody, guards + ["<finally>"])
            elif isinstance(st, ast.With):
                walk(st.body, guards)
    walk(fn.body, [])
    return out


def calls_of(fn) -> list:
    """names called in `fn`; assignments to locals that are never read are dropped first (an unused
    `_n = len(protos)` is not a processing step)"""
    loaded = {n.id for n in ast.walk(fn) if isinstance(n, ast.Name) and isinstance(n.ctx, ast.Load)}
    dead = set()
    for node in ast.walk(fn):
        if isinstance(node, ast.Assign) and all(isinstance(t, ast.Name) and t.id not in loaded for t in node.targets):
            dead.add(id(node))
    names = set()

    def visit(node):
        if id(node) in dead:
            return
        if isinstance(node, ast.Call):
            try:
                names.add(ast.unparse(node.func))
            except Exception:  # noqa: BLE001
                names.add("<call>")
        for ch in ast.iter_child_nodes(node):
            visit(ch)

    visit(fn)
    return sorted(names)


def extract():
    info = {"adapt": [], "attr": [], "hashes": {}, "problems": []}
    # ---- _adapt.py
    try:
        tree = ast.parse((REPO / "src/spox/_adapt.py").read_text())
        for node in tree.body:
            if isinstance(node, (ast.FunctionDef, ast.AsyncFunctionDef)):
                info["adapt"].append({"name": node.name, "args": [a.arg for a in node.args.args],
                                      "exits": exits_of(node), "calls": calls_of(node)})
                info["hashes"][f"_adapt.py:{node.name}"] = _hash(ast.Module(body=_strip_doc(_alpha(node).body), type_ignores=[]))
            elif isinstance(node, ast.ClassDef):
                info["adapt"].append({"name": f"<class {node.name}>", "args": [], "exits": [], "calls": []})
            elif not isinstance(node, (ast.Import, ast.ImportFrom)):
                info["adapt"].append({"name": "<statement>", "args": [], "exits": [("stmt", ast.unparse(node)[:60], [])], "calls": []})
    except Exception as e:  # noqa: BLE001
        info["adapt"].append({"name": "<unparsed>", "args": [], "exits": [], "calls": []})
        info["problems"].append(f"_adapt.py: {type(e).__name__}: {e}")
    # ---- _attributes.py
    try:
        tree = ast.parse((REPO / "src/spox/_attributes.py").read_text())
        for node in tree.body:
            if isinstance(node, ast.ClassDef):
                methods, assigns, raises = [], [], []
                for item in node.body:
                    if isinstance(item, (ast.FunctionDef, ast.AsyncFunctionDef)):
                        methods.append(item.name)
                        info["hashes"][f"_attributes.py:{node.name}.{item.name}"] = _hash(
                            ast.Module(body=_strip_doc(item.body), type_ignores=[]))
                        for k, v, g in exits_of(item):
                            if k == "raise":
                                raises.append(f"{item.name}: {v.split('(')[0]}")
                    elif isinstance(item, ast.Assign):
                        for t in item.targets:
                            assigns.append((ast.unparse(t), ast.unparse(item.value)))
                    elif isinstance(item, ast.AnnAssign) and item.value is not None:
                        assigns.append((ast.unparse(item.target), ast.unparse(item.value)))
                info["attr"].append({"name": node.name, "bases": [ast.unparse(b).split("[")[0] for b in node.bases],
                                     "methods": methods, "assigns": assigns, "raises": raises})
            elif isinstance(node, (ast.FunctionDef, ast.AsyncFunctionDef)):
                info["attr"].append({"name": f"<def {node.name}>", "bases": [], "methods": [], "assigns": [], "raises": []})
                info["hashes"][f"_attributes.py:{node.name}"] = _hash(ast.Module(body=_strip_doc(node.body), type_ignores=[]))
    except Exception as e:  # noqa: BLE001
        info["attr"].append({"name": "<unparsed>", "bases": [], "methods": [], "assigns": [], "raises": []})
        info["problems"].append(f"_attributes.py: {type(e).__name__}: {e}")
    # `dtype_to_tensor_type` (the validation AttrDtype delegates to)
    try:
        tree = ast.parse((REPO / "src/spox/_utils.py").read_text())
        for node in tree.body:
            if isinstance(node, ast.FunctionDef) and node.name == "dtype_to_tensor_type":
                info["dtype_exits"] = exits_of(node)
                info["hashes"]["_utils.py:dtype_to_tensor_type"] = _hash(ast.Module(body=_strip_doc(node.body), type_ignores=[]))
    except Exception as e:  # noqa: BLE001
        info["problems"].append(f"_utils.py: {type(e).__name__}: {e}")
    info.setdefault("dtype_exits", [("unparsed", "", [])])
    # ---- the sources of slotting: what `len(inputs)` counts, the minima, the popping loops (Emit.lean)
    wanted = {"_fields.py": {"BaseVars": ["_flatten", "__iter__", "__len__"]},
              "_node.py": {"Node": ["min_input", "min_output"]},
              "_standard.py": {"StandardNode": ["min_input", "min_output"]}}
    slot = []
    for rel, classes in wanted.items():
        try:
            tree = ast.parse((REPO / "src/spox" / rel).read_text())
        except Exception as e:  # noqa: BLE001
            slot.append((rel, "<unparsed>", []))
            info["problems"].append(f"{rel}: {type(e).__name__}: {e}")
            continue
        for node in tree.body:
            if isinstance(node, ast.ClassDef) and node.name in classes:
                found = set()
                for item in node.body:
                    if isinstance(item, ast.FunctionDef) and item.name in classes[node.name]:
                        found.add(item.name)
                        a = _alpha(item)
                        body = [ast.unparse(st) for st in _strip_doc(a.body)]
                        slot.append((rel, f"{node.name}.{item.name}", body))
                        info["hashes"][f"{rel}:{node.name}.{item.name}"] = _hash(ast.Module(body=_strip_doc(a.body), type_ignores=[]))
                for m in classes[node.name]:
                    if m not in found:
                        slot.append((rel, f"{node.name}.{m}", ["<absent>"]))
    # the popping loops of Node.to_onnx
    try:
        tree = ast.parse((REPO / "src/spox/_node.py").read_text())
        for node in ast.walk(tree):
            if isinstance(node, ast.FunctionDef) and node.name == "to_onnx":
                loops = [ast.unparse(w) for w in ast.walk(_alpha(node)) if isinstance(w, ast.While)]
                slot.append(("_node.py", "Node.to_onnx:<while loops>", loops))
                break
    except Exception as e:  # noqa: BLE001
        info["problems"].append(f"_node.py: {type(e).__name__}: {e}")
    info["slotting"] = slot
    return info


def _exit(e) -> str:
    k, v, g = e
    return f"({lean_str(k)}, {lean_str(v)}, {lean_list([lean_str(x) for x in g])})"


def generate():
    info = extract()
    lines = [HEADER.format(src="src/spox/_adapt.py, _attributes.py, _utils.py", tool="translator/adapt_attr_inventory.py"),
             "/-! Inventories of the code covered by `Conform.mkAttr`/`callAttrsE` (C11) and `CustomInline.decide` (C18):\n"
             "    functions of `_adapt.py` with their exits (kind, value, guarding `if` tests) and calls; classes of\n"
             "    `_attributes.py` with bases, own methods, class-level assignments and raise sites. -/\n",
             "namespace Generated.AdaptAttrInventory\n"]
    lines.append("/-- (function, parameters, exits (kind, value, guards), called names) -/")
    lines.append("def adaptFunctions : List (String × List String × List (String × String × List String) × List String) := [")
    lines.append(",\n".join(
        f"  ({lean_str(f['name'])}, {lean_list([lean_str(a) for a in f['args']])},\n   {lean_list([_exit(e) for e in f['exits']])},\n   {lean_list([lean_str(c) for c in f['calls']])})"
        for f in info["adapt"]))
    lines.append("]\n")
    lines.append("/-- exits of `adapt_inline` alone (what `CustomInline.decide` models) -/")
    ai = next((f for f in info["adapt"] if f["name"] == "adapt_inline"), {"exits": [("missing", "", [])]})
    lines.append("def adaptInlineExits : List (String × String × List String) := " + lean_list([_exit(e) for e in ai["exits"]]) + "\n")
    lines.append("/-- (class, bases, methods defined in the class body, class-level assignments, raise sites) -/")
    lines.append("def attrClasses : List (String × List String × List String × List (String × String) × List String) := [")
    lines.append(",\n".join(
        f"  ({lean_str(c['name'])}, {lean_list([lean_str(b) for b in c['bases']])}, {lean_list([lean_str(m) for m in c['methods']])},\n"
        f"   {lean_list(['(' + lean_str(a) + ', ' + lean_str(v) + ')' for a, v in c['assigns']])}, {lean_list([lean_str(r) for r in c['raises']])})"
        for c in info["attr"]))
    lines.append("]\n")
    lines.append("/-- exits of `_utils.dtype_to_tensor_type` (the validation `AttrDtype._validate` delegates to) -/")
    lines.append("def dtypeExits : List (String × String × List String) := " + lean_list([_exit(e) for e in info["dtype_exits"]]) + "\n")
    lines.append("/-- the sources of slotting (statements, self = v0, locals alpha-renamed): what `len(inputs)` counts\n"
                 "    (`BaseVars._flatten/__iter__/__len__`), the minima (`Node.min_input/min_output`,\n"
                 "    `StandardNode.min_input/min_output`), the popping loops of `Node.to_onnx` -/")
    lines.append("def slotting : List (String × String × List String) := [")
    lines.append(",\n".join(f"  ({lean_str(a)}, {lean_str(b)}, {lean_list([lean_str(x) for x in c])})" for a, b, c in info["slotting"]))
    lines.append("]\n")
    lines.append("end Generated.AdaptAttrInventory\n")
    write_if_changed(GEN / "AdaptAttrInventory.lean", "\n".join(lines))
    return info


if __name__ == "__main__":
    import json

    print(json.dumps(generate(), indent=1, default=str)[:6000])
