"""Tie G for C09: opset constants and schema history -> Generated/OpsetFacts.lean.

Extracted on every run from the working tree of spox:

* `INTERNAL_MIN_OPSET`            : AST of src/spox/_internal_op.py (the literal the module assigns)
* `spox._schemas.SCHEMAS`         : the table `adapt_best_effort` consults for its "same schema" test,
                                    run-length encoded per (domain, operator): version |-> since_version
                                    of the schema object stored there (0 = no entry)
* the shipped constructor table   : every node class of spox.opset.ai.onnx.v17..v21 / ml.v3..v5 with
                                    the (domain, identifier, version) of its `op_type` and whether its
                                    `Attributes` has a graph-valued field
* `formCompat`                    : from onnx.defs, for every shipped operator and every pair of
                                    since-versions s < t: "a node that is well-formed for the schema
                                    of version s is well-formed for the schema of version t" (attribute
                                    names/types, required attributes, input/output arities).

Operators are numbered (index into `opNames`) so that the Lean facts are decided over naturals.
"""
from __future__ import annotations

import ast
import dataclasses
import importlib
import inspect
import sys
import typing

from .common import GEN, HEADER, REPO, lean_bool, lean_list, lean_str, parse, write_if_changed

DEFAULT_MODULES = [17, 18, 19, 20, 21]
ML_MODULES = [3, 4, 5]
DOMAINS = ["", "ai.onnx.ml"]


def _use_repo():
    src = str(REPO / "src")
    if sys.path[:1] != [src]:
        if src in sys.path:
            sys.path.remove(src)
        sys.path.insert(0, src)


def internal_min_opset() -> int:
    mod = parse("src/spox/_internal_op.py")
    val = None
    for st in mod.body:
        tgt = None
        if isinstance(st, ast.Assign) and len(st.targets) == 1 and isinstance(st.targets[0], ast.Name):
            tgt, v = st.targets[0].id, st.value
        elif isinstance(st, ast.AnnAssign) and isinstance(st.target, ast.Name) and st.value is not None:
            tgt, v = st.target.id, st.value
        if tgt == "INTERNAL_MIN_OPSET":
            try:
                val = ast.literal_eval(v)
            except Exception:  # noqa: BLE001
                val = None
    if isinstance(val, bool) or not isinstance(val, int) or val < 0:
        # not a literal any more: take the value the module computes; unknown -> 0 (default_floor fails)
        try:
            _use_repo()
            import spox._internal_op as io

            val = int(io.INTERNAL_MIN_OPSET)
        except Exception:  # noqa: BLE001
            val = 0
        if val < 0:
            val = 0
    return val


def _has_graph_attr(cls) -> bool:
    from spox._attributes import AttrGraph

    try:
        hints = typing.get_type_hints(cls.Attributes)
    except Exception:  # noqa: BLE001
        hints = {f.name: f.type for f in dataclasses.fields(cls.Attributes)}
    for t in hints.values():
        if t is AttrGraph or AttrGraph in typing.get_args(t):
            return True
    return False


def shipped_table() -> list[dict]:
    """One row per constructor class of the shipped opset modules."""
    _use_repo()
    from spox._node import Node

    rows = []
    for dom, pkg, vers in (("", "spox.opset.ai.onnx.v%d", DEFAULT_MODULES),
                           ("ai.onnx.ml", "spox.opset.ai.onnx.ml.v%d", ML_MODULES)):
        for mv in vers:
            m = importlib.import_module(pkg % mv)
            for name, cls in sorted(vars(m).items()):
                if not (inspect.isclass(cls) and issubclass(cls, Node) and name.startswith("_")):
                    continue
                ot = getattr(cls, "op_type", None)
                if ot is None or not isinstance(getattr(ot, "identifier", None), str):
                    continue
                if ot.domain != dom:
                    continue  # ml modules re-export default-domain classes
                rows.append({"module_domain": dom, "module_version": mv, "domain": ot.domain,
                             "op": ot.identifier, "since": int(ot.version),
                             "has_graph": _has_graph_attr(cls)})
    return rows


def schemas_rle() -> tuple[dict, dict]:
    """spox._schemas.SCHEMAS as runs: {(domain, op): [(from_version, since or 0), ...]}, ranges."""
    _use_repo()
    from spox._schemas import SCHEMAS

    runs: dict = {}
    ranges: dict = {}
    for dom in DOMAINS:
        per_version = SCHEMAS.get(dom, {})
        if not per_version:
            ranges[dom] = (1, 0)
            continue
        lo, hi = min(per_version), max(per_version)
        ranges[dom] = (lo, hi)
        names = sorted({n for v in per_version.values() for n in v})
        for n in names:
            out = []
            prev = None
            for v in range(lo, hi + 1):
                sch = per_version.get(v, {}).get(n)
                s = int(sch.since_version) if sch is not None else 0
                if s != prev:
                    out.append((v, s))
                    prev = s
            runs[(dom, n)] = out
    return runs, ranges


def _attr_sig(schema):
    return {n: (str(a.type), bool(a.required)) for n, a in schema.attributes.items()}


def _arity(params, lo):
    """(min, max or None for variadic) of a formal parameter list."""
    from onnx.defs import OpSchema

    mx = len(params)
    variadic = any(p.option == OpSchema.FormalParameterOption.Variadic for p in params)
    return lo, (None if variadic else mx)


def form_compat(domain: str, op: str, s: int, t: int) -> bool:
    """Is every node that is well-formed for (op, since s) well-formed for (op, since t)?"""
    import onnx.defs

    try:
        a = onnx.defs.get_schema(op, s, domain)
        b = onnx.defs.get_schema(op, t, domain)
    except Exception:  # noqa: BLE001
        return False
    if a.since_version != s or b.since_version != t:
        return False
    sa, sb = _attr_sig(a), _attr_sig(b)
    for n, (ty, _req) in sa.items():
        if n not in sb or sb[n][0] != ty:
            return False  # an attribute the old form may carry is unknown / retyped
    for n, (_ty, req) in sb.items():
        if req and (n not in sa or not sa[n][1]):
            return False  # newly required attribute
    # defaults of common attributes must agree (a kept node relies on them)
    for n in sa:
        da, db = a.attributes[n].default_value, b.attributes[n].default_value
        if da.SerializeToString() != db.SerializeToString():
            return False
    ia, ib = _arity(a.inputs, a.min_input), _arity(b.inputs, b.min_input)
    oa, ob = _arity(a.outputs, a.min_output), _arity(b.outputs, b.min_output)
    for (lo_a, hi_a), (lo_b, hi_b) in ((ia, ib), (oa, ob)):
        if lo_b > lo_a:
            return False
        if hi_b is not None and (hi_a is None or hi_a > hi_b):
            return False
    return True


def collect() -> dict:
    """Every part degrades to an empty table (the obligations and the correspondences that need it then
    fail and are reported as broken) instead of raising when the source no longer has the expected shape."""
    problems = []
    try:
        imo = internal_min_opset()
    except Exception as e:  # noqa: BLE001
        imo = 0
        problems.append(f"INTERNAL_MIN_OPSET: {e}")
    try:
        rows = shipped_table()
    except Exception as e:  # noqa: BLE001
        rows = []
        problems.append(f"shipped constructors: {e}")
    try:
        runs, ranges = schemas_rle()
    except Exception as e:  # noqa: BLE001
        runs, ranges = {}, {d: (1, 0) for d in DOMAINS}
        problems.append(f"SCHEMAS: {e}")
    names = sorted({(d, n) for (d, n) in runs} | {(r["domain"], r["op"]) for r in rows})
    op_id = {k: i for i, k in enumerate(names)}
    compat = []
    for (d, n) in sorted({(r["domain"], r["op"]) for r in rows}):
        sinces = sorted({s for (_v, s) in runs.get((d, n), []) if s})
        mine = sorted({r["since"] for r in rows if (r["domain"], r["op"]) == (d, n)})
        for s in mine:
            for t in sinces:
                if t > s and form_compat(d, n, s, t):
                    compat.append((d, n, s, t))
    return {"internal_min_opset": imo, "shipped": rows, "runs": runs, "ranges": ranges,
            "names": names, "op_id": op_id, "compat": compat, "problems": problems}


def generate() -> dict:
    info = collect()
    op_id = info["op_id"]
    L = [HEADER.format(src="src/spox/_internal_op.py, spox._schemas.SCHEMAS, spox.opset.**, onnx.defs",
                       tool="translator/opset_facts.py"),
         "namespace Generated.OpsetFacts\n",
         "/-- `INTERNAL_MIN_OPSET` as assigned in src/spox/_internal_op.py -/",
         f"def internalMinOpset : Nat := {info['internal_min_opset']}\n",
         "/-- (domain, identifier) of operator number i -/",
         "def opNames : List (String × String) := ["]
    chunk = [f"({lean_str(d)}, {lean_str(n)})" for (d, n) in info["names"]]
    for i in range(0, len(chunk), 6):
        L.append("  " + ", ".join(chunk[i:i + 6]) + ("," if i + 6 < len(chunk) else ""))
    L.append("]\n")
    for dom, nm in (("", "Default"), ("ai.onnx.ml", "Ml")):
        lo, hi = info["ranges"][dom]
        L.append(f"def range{nm} : Nat × Nat := ({lo}, {hi})")
        L.append(f"/-- SCHEMAS[{dom!r}]: operator id ↦ runs (from_version, since_version; 0 = absent) -/")
        L.append(f"def runs{nm} : List (Nat × List (Nat × Nat)) := [")
        items = [(op_id[(d, n)], r) for (d, n), r in sorted(info["runs"].items()) if d == dom]
        for j, (i, r) in enumerate(items):
            L.append(f"  ({i}, {lean_list([f'({a}, {b})' for a, b in r])})" + ("," if j + 1 < len(items) else ""))
        L.append("]\n")
    L.append("/-- shipped constructors: (module domain, module version, operator id, op_type.version, has a graph attribute) -/")
    for dom, nm, vers in (("", "Default", DEFAULT_MODULES), ("ai.onnx.ml", "Ml", ML_MODULES)):
        for mv in vers:
            rows = [r for r in info["shipped"] if r["module_domain"] == dom and r["module_version"] == mv]
            L.append(f"def shipped{nm}{mv} : List (Nat × Nat × Bool) := [")
            ch = [f"({op_id[(r['domain'], r['op'])]}, {r['since']}, {lean_bool(r['has_graph'])})" for r in rows]
            for i in range(0, len(ch), 8):
                L.append("  " + ", ".join(ch[i:i + 8]) + ("," if i + 8 < len(ch) else ""))
            L.append("]")
    L.append("")
    L.append("def shippedDefault : List (Nat × List (Nat × Nat × Bool)) := "
             + lean_list([f"({v}, shippedDefault{v})" for v in DEFAULT_MODULES]))
    L.append("def shippedMl : List (Nat × List (Nat × Nat × Bool)) := "
             + lean_list([f"({v}, shippedMl{v})" for v in ML_MODULES]))
    L.append("")
    L.append("/-- (domain, operator id, s, t): a node well-formed for since-version s is well-formed for since-version t (onnx.defs) -/")
    L.append("def formCompat : List (String × Nat × Nat × Nat) := [")
    ch = [f"({lean_str(d)}, {op_id[(d, n)]}, {s}, {t})" for (d, n, s, t) in info["compat"]]
    for i in range(0, len(ch), 6):
        L.append("  " + ", ".join(ch[i:i + 6]) + ("," if i + 6 < len(ch) else ""))
    L.append("]\n")
    L.append("end Generated.OpsetFacts\n")
    write_if_changed(GEN / "OpsetFacts.lean", "\n".join(L))
    return info


if __name__ == "__main__":
    i = generate()
    print(i["internal_min_opset"], len(i["shipped"]), len(i["runs"]), len(i["compat"]), i["ranges"])
