"""Tie G for C09: opset constants and schema history -> Generated/OpsetFacts.lean.

Extracted on every run from the working tree of spox:

* `INTERNAL_MIN_OPSET`            : AST of src/spox/_internal_op.py (the literal the module assigns)
* `spox._schemas.SCHEMAS`         : the table `adapt_best_effort` consults for its "same schema" test,
                                    run-length encoded per (domain, operator): version |-> since_version
                                    of the schema object stored there (0 = no entry)
* the shipped constructor table   : every node class of spox.opset.ai.onnx.v17..v21 / ml.v3..v5 with
                                    the (domain, identifier, version) of its `op_type` and whether its
                                    `Attributes` has a graph-valued field
* `formCompat`                    : from onnx.defs, for every shipped operator and every pair of
                                    since-versions s < t: "a node that is well-formed for the schema
                                    of version s is well-formed for the schema of version t" (attribute
                                    names/types, required attributes, input/output arities).

Operators are numbered (index into `opNames`) so that the Lean facts are decided over naturals.
"""
from __future__ import annotations

import ast
import dataclasses
import importlib
import inspect
import sys
import typing

from .common import GEN, HEADER, REPO, lean_bool, lean_list, lean_str, parse, write_if_changed

DEFAULT_MODULES = [17, 18, 19, 20, 21]
ML_MODULES = [3, 4, 5]
DOMAINS = ["", "ai.onnx.ml"]


def _use_repo():
    src = str(REPO / "src")
    if sys.path[:1] != [src]:
        if src in sys.path:
            sys.path.remove(src)
        sys.path.insert(0, src)


def internal_min_opset(const: str = "INTERNAL_MIN_OPSET") -> int:
    mod = parse("src/spox/_internal_op.py")
    val = None
    for st in mod.body:
        tgt = None
        if isinstance(st, ast.Assign) and len(st.targets) == 1 and isinstance(st.targets[0], ast.Name):
            tgt, v = st.targets[0].id, st.value
        elif isinstance(st, ast.AnnAssign) and isinstance(st.target, ast.Name) and st.value is not None:
            tgt, v = st.target.id, st.value
        if tgt == const:
            try:
                val = ast.literal_eval(v)
            except Exception:  # noqa: BLE001
                val = None
    if isinstance(val, bool) or not isinstance(val, int) or val < 0:
        # not a literal any more: take the value the module computes; unknown -> 0 (default_floor fails)
        try:
            _use_repo()
            import spox._internal_op as io

            val = int(getattr(io, const))
        except Exception:  # noqa: BLE001
            val = 0
        if val < 0:
            val = 0
    return val


def _has_graph_attr(cls) -> bool:
    from spox._attributes import AttrGraph

    try:
        hints = typing.get_type_hints(cls.Attributes)
    except Exception:  # noqa: BLE001
        hints = {f.name: f.type for f in dataclasses.fields(cls.Attributes)}
    for t in hints.values():
        if t is AttrGraph or AttrGraph in typing.get_args(t):
            return True
    return False


def shipped_table() -> list[dict]:
    """One row per constructor class of the shipped opset modules."""
    _use_repo()
    from spox._node import Node

    rows = []
    for dom, pkg, vers in (("", "spox.opset.ai.onnx.v%d", DEFAULT_MODULES),
                           ("ai.onnx.ml", "spox.opset.ai.onnx.ml.v%d", ML_MODULES)):
        for mv in vers:
            m = importlib.import_module(pkg % mv)
            for name, cls in sorted(vars(m).items()):
                if not (inspect.isclass(cls) and issubclass(cls, Node) and name.startswith("_")):
                    continue
                ot = getattr(cls, "op_type", None)
                if ot is None or not isinstance(getattr(ot, "identifier", None), str):
                    continue
                if ot.domain != dom:
                    continue  # ml modules re-export default-domain classes
                rows.append({"module_domain": dom, "module_version": mv, "domain": ot.domain,
                             "op": ot.identifier, "since": int(ot.version),
                             "has_graph": _has_graph_attr(cls)})
    return rows


def schemas_rle() -> tuple[dict, dict]:
    """spox._schemas.SCHEMAS as runs: {(domain, op): [(from_version, since or 0), ...]}, ranges."""
    _use_repo()
    from spox._schemas import SCHEMAS

    runs: dict = {}
    ranges: dict = {}
    for dom in DOMAINS:
        per_version = SCHEMAS.get(dom, {})
        if not per_version:
            ranges[dom] = (1, 0)
            continue
        lo, hi = min(per_version), max(per_version)
        ranges[dom] = (lo, hi)
        names = sorted({n for v in per_version.values() for n in v})
        for n in names:
            out = []
            prev = None
            for v in range(lo, hi + 1):
                sch = per_version.get(v, {}).get(n)
                s = int(sch.since_version) if sch is not None else 0
                if s != prev:
                    out.append((v, s))
                    prev = s
            runs[(dom, n)] = out
    return runs, ranges


def _attr_sig(schema):
    return {n: (str(a.type), bool(a.required)) for n, a in schema.attributes.items()}


def _arity(params, lo):
    """(min, max or None for variadic) of a formal parameter list."""
    from onnx.defs import OpSchema

    mx = len(params)
    variadic = any(p.option == OpSchema.FormalParameterOption.Variadic for p in params)
    return lo, (None if variadic else mx)


def form_compat(domain: str, op: str, s: int, t: int) -> bool:
    """Is every node that is well-formed for (op, since s) well-formed for (op, since t)?"""
    import onnx.defs

    try:
        a = onnx.defs.get_schema(op, s, domain)
        b = onnx.defs.get_schema(op, t, domain)
    except Exception:  # noqa: BLE001
        return False
    if a.since_version != s or b.since_version != t:
        return False
    sa, sb = _attr_sig(a), _attr_sig(b)
    for n, (ty, _req) in sa.items():
        if n not in sb or sb[n][0] != ty:
            return False  # an attribute the old form may carry is unknown / retyped
    for n, (_ty, req) in sb.items():
        if req and (n not in sa or not sa[n][1]):
            return False  # newly required attribute
    # defaults of common attributes must agree (a kept node relies on them)
    for n in sa:
        da, db = a.attributes[n].default_value, b.attributes[n].default_value
        if da.SerializeToString() != db.SerializeToString():
            return False
    ia, ib = _arity(a.inputs, a.min_input), _arity(b.inputs, b.min_input)
    oa, ob = _arity(a.outputs, a.min_output), _arity(b.outputs, b.min_output)
    for (lo_a, hi_a), (lo_b, hi_b) in ((ia, ib), (oa, ob)):
        if lo_b > lo_a:
            return False
        if hi_b is not None and (hi_a is None or hi_a > hi_b):
            return False
    return True


STATE_FILES = ["src/spox/_adapt.py", "src/spox/_graph.py"]
# files a build passes through that legitimately have module-level tables: only what can silently carry state
# from one call to the next is listed for them (mutable default arguments, caching decorators, `global`)
STATE_FILES_LIGHT = ["src/spox/_build.py", "src/spox/_scope.py", "src/spox/_function.py", "src/spox/_inline.py",
                     "src/spox/_node.py", "src/spox/_internal_op.py", "src/spox/_schemas.py", "src/spox/_public.py",
                     "src/spox/_utils.py", "src/spox/_fields.py", "src/spox/_attributes.py"]
_OK_DECORATORS = {"property", "staticmethod", "classmethod", "overload", "dataclass", "abstractmethod", "contextmanager"}


def _immutable_literal(v) -> bool:
    try:
        val = ast.literal_eval(v)
    except Exception:  # noqa: BLE001
        return False
    return isinstance(val, (int, float, str, bytes, bool, type(None), tuple, frozenset))


def adapt_state() -> tuple[list[str], list[str]]:
    """Inventory of what could carry adapted protos (or anything else) from one build to the next in the
    files that adapt nodes: (state that outlives a build, attribute write sites)."""
    state: list[str] = []
    writes: list[str] = []
    for rel in STATE_FILES + STATE_FILES_LIGHT:
        short = rel.rsplit("/", 1)[-1]
        light = rel in STATE_FILES_LIGHT
        try:
            mod = parse(rel)
        except Exception as e:  # noqa: BLE001
            state.append(f"{short}:unreadable:{type(e).__name__}")
            continue
        for st in ([] if light else mod.body):
            tgts, val = [], None
            if isinstance(st, ast.Assign):
                tgts, val = st.targets, st.value
            elif isinstance(st, ast.AnnAssign) and st.value is not None:
                tgts, val = [st.target], st.value
            elif isinstance(st, ast.AugAssign):
                tgts, val = [st.target], st.value
            for t in tgts:
                name = ast.unparse(t)
                if name == "__all__" or (isinstance(val, ast.Call) and ast.unparse(val.func).endswith("TypeVar")):
                    continue
                if name.isupper() and _immutable_literal(val):
                    continue
                state.append(f"{short}:module:{name}")
            if isinstance(st, ast.Expr) and isinstance(st.value, ast.Call):
                state.append(f"{short}:module-call:{ast.unparse(st.value.func)}")

        def visit(node, fn):
            for ch in ast.iter_child_nodes(node):
                cur = fn
                if isinstance(ch, (ast.FunctionDef, ast.AsyncFunctionDef)):
                    cur = ch.name
                    for d in ch.decorator_list:
                        base = d.func if isinstance(d, ast.Call) else d
                        nm = ast.unparse(base)
                        if nm.split(".")[-1] not in _OK_DECORATORS | {"setter", "getter", "deleter"}:
                            state.append(f"{short}:decorator:{ch.name}:{nm}")
                    for dflt in list(ch.args.defaults) + [k for k in ch.args.kw_defaults if k is not None]:
                        if not _immutable_literal(dflt) and not isinstance(dflt, (ast.Name, ast.Attribute)):
                            state.append(f"{short}:mutable-default:{ch.name}")
                elif isinstance(ch, ast.ClassDef):
                    for st in ([] if light else ch.body):
                        val = None
                        if isinstance(st, ast.Assign):
                            val, nm = st.value, ast.unparse(st.targets[0])
                        elif isinstance(st, ast.AnnAssign) and st.value is not None:
                            val, nm = st.value, ast.unparse(st.target)
                        if val is None or _immutable_literal(val):
                            continue
                        if isinstance(val, ast.Call) and ast.unparse(val.func).split(".")[-1] in ("field", "OpType"):
                            continue
                        state.append(f"{short}:class-attribute:{ch.name}.{nm}")
                elif isinstance(ch, ast.Global):
                    state.append(f"{short}:global:{fn}:{','.join(ch.names)}")
                if (fn is not None or cur is not None) and not light:
                    tg = []
                    if isinstance(ch, ast.Assign):
                        tg = ch.targets
                    elif isinstance(ch, (ast.AnnAssign, ast.AugAssign)):
                        tg = [ch.target]
                    for t in tg:
                        for el in (t.elts if isinstance(t, (ast.Tuple, ast.List)) else [t]):
                            if isinstance(el, ast.Attribute):
                                writes.append(f"{short}:{cur}:{ast.unparse(el)}")
                    if isinstance(ch, ast.Call) and ast.unparse(ch.func) in ("setattr", "object.__setattr__"):
                        writes.append(f"{short}:{cur}:{ast.unparse(ch.func)}")
                visit(ch, cur)

        visit(mod, None)
    return state, writes


# functions the model covers: (file, qualified name). Their normalised-AST hashes are compared with the
# pinned ones (translator/c09_pins.json, written by `python -m translator.opset_facts --pin` on a clean tree);
# a difference is no verdict, it makes the harness search harder (more programs of the families that
# exercise adaptation), whatever was changed.
COVERED_FUNCTIONS = [
    ("src/spox/_adapt.py", "adapt_node"), ("src/spox/_adapt.py", "adapt_inline"),
    ("src/spox/_adapt.py", "adapt_best_effort"), ("src/spox/_adapt.py", "_initializers_to_constants"),
    ("src/spox/_graph.py", "Graph.get_adapted_nodes"), ("src/spox/_graph.py", "Graph.get_opsets"),
    ("src/spox/_graph.py", "Graph._get_opset_req"), ("src/spox/_graph.py", "Graph._get_build_result"),
    ("src/spox/_graph.py", "Graph.with_opset"), ("src/spox/_graph.py", "Graph.to_onnx"),
    ("src/spox/_graph.py", "Graph.to_onnx_model"),
    ("src/spox/_schemas.py", "max_opset_policy"),
    ("src/spox/_inline.py", "_Inline.opset_req"), ("src/spox/_inline.py", "_Inline.to_onnx"),
    ("src/spox/_function.py", "Function.opset_req"), ("src/spox/_function.py", "Function.to_onnx_function"),
    ("src/spox/_function.py", "to_function"), ("src/spox/_function.py", "_make_function_cls"),
    ("src/spox/_public.py", "inline"), ("src/spox/_public.py", "build"),
    ("src/spox/_internal_op.py", "_Introduce.opset_req"), ("src/spox/_internal_op.py", "_Introduce.to_onnx"),
    ("src/spox/_node.py", "Node.opset_req"),
    ("src/spox/_build.py", "Builder.build_main"), ("src/spox/_build.py", "Builder.compile_graph"),
]
PINS = __import__("pathlib").Path(__file__).with_name("c09_pins.json")


def _strip_docstrings(node):
    for n in ast.walk(node):
        if isinstance(n, (ast.FunctionDef, ast.AsyncFunctionDef, ast.ClassDef, ast.Module)):
            if n.body and isinstance(n.body[0], ast.Expr) and isinstance(getattr(n.body[0], "value", None), ast.Constant) \
                    and isinstance(n.body[0].value.value, str):
                n.body = n.body[1:] or [ast.Pass()]
    return node


def ast_hashes() -> dict:
    import hashlib

    out = {}
    for rel, qual in COVERED_FUNCTIONS:
        key = f"{rel.rsplit('/', 1)[-1]}:{qual}"
        try:
            body = parse(rel).body
            found = None
            parts = qual.split(".")
            for st in body:
                if len(parts) == 2 and isinstance(st, ast.ClassDef) and st.name == parts[0]:
                    for m in st.body:
                        if isinstance(m, (ast.FunctionDef, ast.AsyncFunctionDef)) and m.name == parts[1]:
                            found = m
                elif len(parts) == 1 and isinstance(st, (ast.FunctionDef, ast.AsyncFunctionDef)) and st.name == qual:
                    found = st
            if found is None:
                out[key] = "absent"
                continue
            out[key] = hashlib.sha1(ast.dump(_strip_docstrings(found), include_attributes=False).encode()).hexdigest()[:12]
        except Exception as e:  # noqa: BLE001
            out[key] = f"unreadable:{type(e).__name__}"
    return out


def ast_changed(hashes: dict) -> list[str]:
    import json

    try:
        pins = json.loads(PINS.read_text())
    except Exception:  # noqa: BLE001
        pins = {}
    return sorted(k for k, v in hashes.items() if pins.get(k) != v)


def collect() -> dict:
    """Every part degrades to an empty table (the obligations and the correspondences that need it then
    fail and are reported as broken) instead of raising when the source no longer has the expected shape."""
    problems = []
    try:
        imo = internal_min_opset()
    except Exception as e:  # noqa: BLE001
        imo = 0
        problems.append(f"INTERNAL_MIN_OPSET: {e}")
    try:
        iom = internal_min_opset("IDENTITY_OPTIONAL_MIN_OPSET")
    except Exception as e:  # noqa: BLE001
        iom = 0
        problems.append(f"IDENTITY_OPTIONAL_MIN_OPSET: {e}")
    try:
        rows = shipped_table()
    except Exception as e:  # noqa: BLE001
        rows = []
        problems.append(f"shipped constructors: {e}")
    try:
        runs, ranges = schemas_rle()
    except Exception as e:  # noqa: BLE001
        runs, ranges = {}, {d: (1, 0) for d in DOMAINS}
        problems.append(f"SCHEMAS: {e}")
    try:
        state, writes = adapt_state()
    except Exception as e:  # noqa: BLE001
        state, writes = [f"inventory failed: {type(e).__name__}"], []
        problems.append(f"adaptation state inventory: {e}")
    try:
        hashes = ast_hashes()
        changed = ast_changed(hashes)
    except Exception:  # noqa: BLE001
        hashes, changed = {}, ["ast hashes not computable"]
    names = sorted({(d, n) for (d, n) in runs} | {(r["domain"], r["op"]) for r in rows})
    op_id = {k: i for i, k in enumerate(names)}
    compat = []
    for (d, n) in sorted({(r["domain"], r["op"]) for r in rows}):
        sinces = sorted({s for (_v, s) in runs.get((d, n), []) if s})
        mine = sorted({r["since"] for r in rows if (r["domain"], r["op"]) == (d, n)})
        for s in mine:
            for t in sinces:
                if t > s and form_compat(d, n, s, t):
                    compat.append((d, n, s, t))
    return {"internal_min_opset": imo, "identity_optional_min": iom, "shipped": rows, "runs": runs, "ranges": ranges,
            "names": names, "op_id": op_id, "compat": compat, "problems": problems,
            "adapt_state": state, "adapt_attr_writes": writes, "ast_hashes": hashes, "ast_changed": changed}


def generate() -> dict:
    info = collect()
    op_id = info["op_id"]
    L = [HEADER.format(src="src/spox/_internal_op.py, spox._schemas.SCHEMAS, spox.opset.**, onnx.defs",
                       tool="translator/opset_facts.py"),
         "namespace Generated.OpsetFacts\n",
         "/-- `INTERNAL_MIN_OPSET` as assigned in src/spox/_internal_op.py -/",
         f"def internalMinOpset : Nat := {info['internal_min_opset']}\n",
         "/-- `IDENTITY_OPTIONAL_MIN_OPSET` as assigned in src/spox/_internal_op.py (0 = not found) -/",
         f"def identityOptionalMin : Nat := {info['identity_optional_min']}\n",
         "/-- (domain, identifier) of operator number i -/",
         "def opNames : List (String × String) := ["]
    chunk = [f"({lean_str(d)}, {lean_str(n)})" for (d, n) in info["names"]]
    for i in range(0, len(chunk), 6):
        L.append("  " + ", ".join(chunk[i:i + 6]) + ("," if i + 6 < len(chunk) else ""))
    L.append("]\n")
    for dom, nm in (("", "Default"), ("ai.onnx.ml", "Ml")):
        lo, hi = info["ranges"][dom]
        L.append(f"def range{nm} : Nat × Nat := ({lo}, {hi})")
        L.append(f"/-- SCHEMAS[{dom!r}]: operator id ↦ runs (from_version, since_version; 0 = absent) -/")
        L.append(f"def runs{nm} : List (Nat × List (Nat × Nat)) := [")
        items = [(op_id[(d, n)], r) for (d, n), r in sorted(info["runs"].items()) if d == dom]
        for j, (i, r) in enumerate(items):
            L.append(f"  ({i}, {lean_list([f'({a}, {b})' for a, b in r])})" + ("," if j + 1 < len(items) else ""))
        L.append("]\n")
    L.append("/-- shipped constructors: (module domain, module version, operator id, op_type.version, has a graph attribute) -/")
    for dom, nm, vers in (("", "Default", DEFAULT_MODULES), ("ai.onnx.ml", "Ml", ML_MODULES)):
        for mv in vers:
            rows = [r for r in info["shipped"] if r["module_domain"] == dom and r["module_version"] == mv]
            L.append(f"def shipped{nm}{mv} : List (Nat × Nat × Bool) := [")
            ch = [f"({op_id[(r['domain'], r['op'])]}, {r['since']}, {lean_bool(r['has_graph'])})" for r in rows]
            for i in range(0, len(ch), 8):
                L.append("  " + ", ".join(ch[i:i + 8]) + ("," if i + 8 < len(ch) else ""))
            L.append("]")
    L.append("")
    L.append("def shippedDefault : List (Nat × List (Nat × Nat × Bool)) := "
             + lean_list([f"({v}, shippedDefault{v})" for v in DEFAULT_MODULES]))
    L.append("def shippedMl : List (Nat × List (Nat × Nat × Bool)) := "
             + lean_list([f"({v}, shippedMl{v})" for v in ML_MODULES]))
    L.append("")
    L.append("/-- (domain, operator id, s, t): a node well-formed for since-version s is well-formed for since-version t (onnx.defs) -/")
    L.append("def formCompat : List (String × Nat × Nat × Nat) := [")
    ch = [f"({lean_str(d)}, {op_id[(d, n)]}, {s}, {t})" for (d, n, s, t) in info["compat"]]
    for i in range(0, len(ch), 6):
        L.append("  " + ", ".join(ch[i:i + 6]) + ("," if i + 6 < len(ch) else ""))
    L.append("]\n")
    L.append("/-- state that outlives one build in src/spox/_adapt.py and _graph.py: module-level bindings and calls, `global`, "
             "decorators other than property/staticmethod/classmethod/overload/dataclass, mutable defaults, mutable class attributes -/")
    L.append("def adaptState : List String := " + lean_list([lean_str(x) for x in info["adapt_state"]]))
    L.append("/-- attribute write sites (`obj.attr = …`, setattr) inside the functions of those files: file:function:target -/")
    L.append("def adaptAttrWrites : List String := " + lean_list([lean_str(x) for x in info["adapt_attr_writes"]]))
    L.append("")
    L.append("end Generated.OpsetFacts\n")
    write_if_changed(GEN / "OpsetFacts.lean", "\n".join(L))
    return info


if __name__ == "__main__":
    if "--pin" in sys.argv:
        import json

        PINS.write_text(json.dumps(ast_hashes(), indent=1, sort_keys=True) + "\n")
        print("pinned", PINS)
    i = generate()
    print(i["internal_min_opset"], len(i["shipped"]), len(i["runs"]), len(i["compat"]), i["ranges"], "changed:", i["ast_changed"])
