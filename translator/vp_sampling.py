"""tie G (C07 / C15): the guards that make a node skip value propagation, extracted from the source.

* `listed`   - the literal `_NON_DETERMINISTIC_OPS` set of src/spox/_standard.py (`<opaque>` if it is no
               longer a literal set of strings);
* `guardCalled` - `StandardNode.propagate_values_onnx` calls `self._is_non_deterministic()` and returns an
               empty dict on it, BEFORE the backend calls are obtained; `_is_non_deterministic` reads the set;
* `inlineGuard` - `_Inline.propagate_values` tests for GRAPH / GRAPHS attributes before `get_backend_calls`;
* `sampling` - every operator schema of the installed onnx (all domains, all versions) that samples:
               it has a `seed` attribute, or is named Random* / Bernoulli / Multinomial / Dropout
               (`OpSchema.non_deterministic` is not used: onnx 1.22 also sets it for Range / If / Loop);
* `shipped`  - the sampling operators for which a spox opset module defines a constructor class.

`C07.generated_sampling_guarded` states listed = sampling (both inclusions, default domain only) and that
both guards are in place: a sampling operator of a future opset that is not listed, a deterministic
operator that gets listed (it would lose propagation: Range ...), or a removed guard break the obligation.
"""
import ast
import re

from translator.common import GEN, HEADER, REPO, lean_str, write_if_changed

_NAME = re.compile(r"^(Random.*|Bernoulli|Multinomial|Dropout)$")


def _listed(tree):
    for node in ast.walk(tree):
        if isinstance(node, (ast.Assign, ast.AnnAssign)):
            targets = node.targets if isinstance(node, ast.Assign) else [node.target]
            if any(isinstance(t, ast.Name) and t.id == "_NON_DETERMINISTIC_OPS" for t in targets):
                v = node.value
                if isinstance(v, ast.Call) and v.args:
                    v = v.args[0]
                if isinstance(v, (ast.Set, ast.List, ast.Tuple)) and all(isinstance(e, ast.Constant) and isinstance(e.value, str) for e in v.elts):
                    return sorted(e.value for e in v.elts)
                return ["<opaque>"]
    return ["<missing>"]


def _func(tree, cls, name):
    for node in ast.walk(tree):
        if isinstance(node, ast.ClassDef) and node.name == cls:
            for item in node.body:
                if isinstance(item, ast.FunctionDef) and item.name == name:
                    return item
    return None


def _guard_called(tree) -> bool:
    f = _func(tree, "StandardNode", "propagate_values_onnx")
    g = _func(tree, "StandardNode", "_is_non_deterministic")
    if f is None or g is None:
        return False
    reads = any(isinstance(n, ast.Name) and n.id == "_NON_DETERMINISTIC_OPS" for n in ast.walk(g))
    pos_guard = pos_backend = None
    for st in f.body:
        if isinstance(st, ast.If) and pos_guard is None:
            t = st.test
            if (isinstance(t, ast.Call) and isinstance(t.func, ast.Attribute) and t.func.attr == "_is_non_deterministic"
                    and len(st.body) >= 1 and isinstance(st.body[-1], ast.Return)
                    and isinstance(st.body[-1].value, ast.Dict) and not st.body[-1].value.keys):
                pos_guard = st.lineno
        if pos_backend is None and any(isinstance(n, ast.Attribute) and n.attr in ("get_backend_calls", "to_singleton_onnx_model") for n in ast.walk(st)):
            pos_backend = st.lineno
    return bool(reads and pos_guard is not None and (pos_backend is None or pos_guard < pos_backend))


def _inline_guard(tree) -> bool:
    f = _func(tree, "_Inline", "propagate_values")
    if f is None:
        return False
    pos_guard = pos_backend = None
    for st in f.body:
        names = {n.attr for n in ast.walk(st) if isinstance(n, ast.Attribute)}
        if pos_guard is None and isinstance(st, ast.If) and {"GRAPH", "GRAPHS"} <= names and isinstance(st.body[-1], ast.Return):
            pos_guard = st.lineno
        if pos_backend is None and "get_backend_calls" in names:
            pos_backend = st.lineno
    return pos_guard is not None and pos_backend is not None and pos_guard < pos_backend


def _inline_sampling_guard(tree) -> bool:
    """`_Inline.propagate_values` returns early when a node of the inlined graph is listed in `_NON_DETERMINISTIC_OPS`."""
    f = _func(tree, "_Inline", "propagate_values")
    if f is None:
        return False
    pos_guard = pos_backend = None
    for st in f.body:
        names = {n.attr for n in ast.walk(st) if isinstance(n, ast.Attribute)}
        ids = {n.id for n in ast.walk(st) if isinstance(n, ast.Name)}
        if pos_guard is None and isinstance(st, ast.If) and "_NON_DETERMINISTIC_OPS" in ids and "op_type" in names and isinstance(st.body[-1], ast.Return):
            pos_guard = st.lineno
        if pos_backend is None and "get_backend_calls" in names:
            pos_backend = st.lineno
    return pos_guard is not None and pos_backend is not None and pos_guard < pos_backend


def _sampling():
    import onnx.defs

    out = set()
    for s in onnx.defs.get_all_schemas_with_history():
        if "seed" in s.attributes or _NAME.match(s.name):
            out.add((s.domain, s.name))
    return sorted(out)


def _shipped(sampling):
    names = {n for _, n in sampling}
    out = set()
    for path in sorted((REPO / "src" / "spox" / "opset").rglob("*.py")):
        try:
            tree = ast.parse(path.read_text())
        except Exception:  # noqa: BLE001
            continue
        for node in ast.walk(tree):
            if isinstance(node, ast.Call) and isinstance(node.func, ast.Name) and node.func.id == "OpType" and len(node.args) >= 2:
                a, d = node.args[0], node.args[1]
                if isinstance(a, ast.Constant) and isinstance(d, ast.Constant) and a.value in names:
                    out.add((d.value, a.value))
    return sorted(out)


def extract() -> dict:
    info = {"listed": ["<unparsed>"], "guardCalled": False, "inlineGuard": False, "inlineSamplingGuard": False, "sampling": [("<unavailable>", "<unavailable>")], "shipped": []}
    try:
        tree = ast.parse((REPO / "src" / "spox" / "_standard.py").read_text())
        info["listed"] = _listed(tree)
        info["guardCalled"] = _guard_called(tree)
    except Exception:  # noqa: BLE001 - degrade, never raise
        pass
    try:
        itree = ast.parse((REPO / "src" / "spox" / "_inline.py").read_text())
        info["inlineGuard"] = _inline_guard(itree)
        info["inlineSamplingGuard"] = _inline_sampling_guard(itree)
    except Exception:  # noqa: BLE001
        pass
    try:
        info["sampling"] = _sampling()
        info["shipped"] = _shipped(info["sampling"])
    except Exception:  # noqa: BLE001
        pass
    return info


def generate() -> dict:
    info = extract()
    pairs = lambda xs: "[" + ", ".join(f"({lean_str(a)}, {lean_str(b)})" for a, b in xs) + "]"  # noqa: E731
    text = (
        HEADER.format(src="src/spox/_standard.py, src/spox/_inline.py, src/spox/opset/**, onnx.defs", tool="translator/vp_sampling.py")
        + "/-! The guards that make a node skip value propagation, and the sampling operators of the installed onnx. -/\n"
        + "namespace Generated.VPSampling\n\n"
        + "def listed : List String :=\n  [" + ", ".join(lean_str(x) for x in info["listed"]) + "]\n\n"
        + f"def guardCalled : Bool := {'true' if info['guardCalled'] else 'false'}\n\n"
        + f"def inlineGuard : Bool := {'true' if info['inlineGuard'] else 'false'}\n\n"
        + f"def inlineSamplingGuard : Bool := {'true' if info['inlineSamplingGuard'] else 'false'}\n\n"
        + "/-- (domain, name) of every schema with a `seed` attribute or a sampling name. -/\n"
        + "def sampling : List (String × String) :=\n  " + pairs(info["sampling"]) + "\n\n"
        + "/-- the sampling operators spox ships a constructor for. -/\n"
        + "def shipped : List (String × String) :=\n  " + pairs(info["shipped"]) + "\n\n"
        + "end Generated.VPSampling\n"
    )
    write_if_changed(GEN / "VPSampling.lean", text)
    return info


if __name__ == "__main__":
    print(generate())
