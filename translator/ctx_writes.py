"""Inventory of every site in src/spox that writes, deletes, re-binds or copies one of the three scoped
settings (C16, tie G):

    spox._node._TYPE_WARNING_LEVEL, spox._value_prop._VALUE_PROP_BACKEND, Var._operator_dispatcher

The theorems of C16 are about the managers' IR (translator/ctx_ir.py). They say something about the
*settings* only if nothing else writes them: a new write site (a helper that switches a setting and
forgets to switch back, a `from ._node import _TYPE_WARNING_LEVEL` copy that is never updated, a
`global` re-binding, an instance-level shadow of the class attribute ...) must break an obligation
whatever histories are generated. -> Generated/CtxWrites.lean, `C16.write_sites_covered`.

A site = (setting, file, enclosing scope, kind):
  default   the defining assignment (module level / class body) in the setting's home module
  assign    `<...>.NAME = ...` / `NAME = ...` under a `global NAME`
  augassign, delete, setattr (`setattr(x, "NAME", ...)`, also `__dict__["NAME"]`/`vars(..)["NAME"]` stores),
  global    a `global NAME` declaration outside the home module's own functions is reported with its writes
  setter-call  a call of one of `_future.py`'s one-line setter functions (by name)
  copy      `from <module> import NAME` (a by-value copy of the setting that scoped blocks never update)
  opaque    the file mentions the name but could not be parsed
"""
import ast

from .common import GEN, HEADER, REPO, dotted, lean_list, lean_str, write_if_changed

SETTINGS = ["_TYPE_WARNING_LEVEL", "_VALUE_PROP_BACKEND", "_operator_dispatcher"]
HOME = {"_TYPE_WARNING_LEVEL": ("src/spox/_node.py", "<module>"),
        "_VALUE_PROP_BACKEND": ("src/spox/_value_prop.py", "<module>"),
        "_operator_dispatcher": ("src/spox/_var.py", "Var")}


def _name_of(target: ast.AST):
    """The setting a store target refers to (by its last component), else None."""
    if isinstance(target, ast.Name) and target.id in SETTINGS:
        return target.id
    if isinstance(target, ast.Attribute) and target.attr in SETTINGS:
        return target.attr
    if isinstance(target, ast.Subscript):
        k = target.slice
        if isinstance(k, ast.Constant) and k.value in SETTINGS:
            return k.value
    return None


class _Scan(ast.NodeVisitor):
    def __init__(self, rel, setter_of=None):
        self.rel = rel
        self.setter_of = setter_of or {}
        self.scope = []
        self.sites = []

    def add(self, name, kind):
        scope = ".".join(self.scope) or "<module>"
        if kind == "assign" and HOME[name] == (self.rel, scope):
            kind = "default"
        self.sites.append((SETTINGS.index(name), self.rel, scope, kind))

    def _scoped(self, node):
        self.scope.append(node.name)
        self.generic_visit(node)
        self.scope.pop()

    visit_FunctionDef = visit_AsyncFunctionDef = visit_ClassDef = _scoped

    def _targets(self, t):
        if isinstance(t, (ast.Tuple, ast.List)):
            for e in t.elts:
                yield from self._targets(e)
        elif isinstance(t, ast.Starred):
            yield from self._targets(t.value)
        else:
            yield t

    def visit_Assign(self, node):
        for t in node.targets:
            for x in self._targets(t):
                n = _name_of(x)
                if n:
                    self.add(n, "setattr" if isinstance(x, ast.Subscript) else "assign")
        self.generic_visit(node)

    def visit_AnnAssign(self, node):
        n = _name_of(node.target)
        if n and node.value is not None:
            self.add(n, "assign")
        self.generic_visit(node)

    def visit_AugAssign(self, node):
        n = _name_of(node.target)
        if n:
            self.add(n, "augassign")
        self.generic_visit(node)

    def visit_NamedExpr(self, node):
        n = _name_of(node.target)
        if n:
            self.add(n, "assign")
        self.generic_visit(node)

    def visit_Delete(self, node):
        for t in node.targets:
            n = _name_of(t)
            if n:
                self.add(n, "delete")
        self.generic_visit(node)

    def visit_For(self, node):
        for x in self._targets(node.target):
            n = _name_of(x)
            if n:
                self.add(n, "assign")
        self.generic_visit(node)

    visit_AsyncFor = visit_For

    def visit_With(self, node):
        for it in node.items:
            if it.optional_vars is not None:
                for x in self._targets(it.optional_vars):
                    n = _name_of(x)
                    if n:
                        self.add(n, "assign")
        self.generic_visit(node)

    visit_AsyncWith = visit_With

    def visit_Call(self, node):
        f = dotted(node.func) or ""
        if f.split(".")[-1] in self.setter_of:
            # a call of a one-line setter is a write of its setting
            self.sites.append((self.setter_of[f.split(".")[-1]], self.rel, ".".join(self.scope) or "<module>", "setter-call"))
        if f.split(".")[-1] in ("setattr", "delattr", "__setattr__", "__delattr__"):
            for a in node.args:
                if isinstance(a, ast.Constant) and a.value in SETTINGS:
                    self.add(a.value, "setattr")
        if f.split(".")[-1] in ("update", "setdefault", "pop"):
            for a in list(node.args) + [k.value for k in node.keywords]:
                if isinstance(a, ast.Constant) and a.value in SETTINGS:
                    self.add(a.value, "setattr")
            for k in node.keywords:
                if k.arg in SETTINGS:
                    self.add(k.arg, "setattr")
        self.generic_visit(node)

    def visit_ImportFrom(self, node):
        for a in node.names:
            if a.name in SETTINGS:
                self.add(a.name, "copy")

    def visit_Global(self, node):
        # `global NAME` in the home module's own function only matters through the assignment it enables
        # (recorded as assign); elsewhere it creates a different global of the same name
        for n in node.names:
            if n in SETTINGS and HOME[n][0] != self.rel:
                self.add(n, "global")


def scan(setter_of=None):
    setter_of = setter_of or {}
    sites = []
    root = REPO / "src" / "spox"
    for path in sorted(root.rglob("*.py")):
        try:
            text = path.read_text()
        except Exception:  # noqa: BLE001
            continue
        if not any(s in text for s in list(SETTINGS) + list(setter_of)):
            continue
        rel = str(path.relative_to(REPO))
        try:
            sc = _Scan(rel, setter_of)
            sc.visit(ast.parse(text, filename=rel))
            sites.extend(sc.sites)
        except SyntaxError:
            for i, s in enumerate(SETTINGS):
                if s in text:
                    sites.append((i, rel, "<module>", "opaque"))
    return sorted(set(sites)), sites


def generate() -> dict:
    from . import ctx_ir

    try:
        resolved = ctx_ir._setters(ctx_ir.parse("src/spox/_future.py"))  # name -> dotted global
    except Exception:  # noqa: BLE001
        resolved = {}
    setter_of = {f: SETTINGS.index(g.split(".")[-1]) for f, g in resolved.items() if g.split(".")[-1] in SETTINGS}
    setters = sorted(setter_of)
    uniq, all_sites = scan(setter_of)
    lines = [HEADER.format(src="src/spox/**/*.py", tool="translator/ctx_writes.py"),
             "namespace Generated.CtxWrites\n",
             "/-- One site that writes / deletes / re-binds / copies a scoped setting. -/",
             "structure Site where\n  setting : Nat\n  file : String\n  scope : String\n  kind : String\nderiving DecidableEq, Repr\n",
             "def sites : List Site := " + lean_list(
                 [f"⟨{i}, {lean_str(f)}, {lean_str(sc)}, {lean_str(k)}⟩" for i, f, sc, k in uniq]) + "\n",
             "/-- One-line setter functions of `_future.py` (`def f(x): G = x`) as resolved by translator/ctx_ir.py. -/",
             f"def setters : List String := {lean_list([lean_str(s) for s in setters])}\n",
             "end Generated.CtxWrites\n"]
    write_if_changed(GEN / "CtxWrites.lean", "\n".join(lines))
    return {"sites": [list(s) for s in uniq], "count_with_repeats": len(all_sites), "setters": setters}


if __name__ == "__main__":
    import json
    print(json.dumps(generate(), indent=1))
