/-! Prototype for C13: shapes, compatibility, broadcasting. -/
namespace Ty

inductive Natural
  | const (n : Nat)
  | unk (label : String)          -- "" = anonymous
deriving DecidableEq, Repr

abbrev Shape := Option (List Natural)

/-- `Natural.__le__` as dispatched per class (Constant / Unknown). -/
def Natural.le : Natural → Natural → Bool
  | .unk _, _ => true
  | .const n, .const m => n == m
  | .const _, .unk _ => true

/-- `Shape.__le__`. -/
def Shape.le : Shape → Shape → Bool
  | none, _ => true
  | _, none => true
  | some a, some b => a.length == b.length && (a.zip b).all (fun p => p.1.le p.2)

inductive Elem | f32 | f64 | i32 | i64 | bool | str
deriving DecidableEq, Repr

inductive T
  | tensor (e : Elem) (s : Shape)
  | seq (t : T)
  | opt (t : T)
deriving DecidableEq, Repr

/-- `_subtype` (without the `Type()` wildcard, which is not constructible through the public API). -/
def T.sub : T → T → Bool
  | .tensor e s, .tensor e' s' => (T.tensor e s == T.tensor e' s') || (e == e' && Shape.le s s')
  | .seq a, .seq b => (T.seq a == T.seq b) || a.sub b
  | .opt a, .opt b => (T.opt a == T.opt b) || a.sub b
  | _, _ => false

/-- Typed runtime values: empty sequences / empty optionals still carry their element type. -/
inductive RShape (dims : List Nat) : Shape → Prop
  | anyRank : RShape dims none
  | known (ds : List Natural) : ds.length = dims.length →
      (∀ p ∈ ds.zip dims, match p.1 with | .const n => n = p.2 | .unk _ => True) → RShape dims (some ds)

/-- The specification of compatibility from the property statement: same constructor and element
    type; unknown rank or dimension matches anything. -/
def dimCompat : Natural → Natural → Bool
  | .const n, .const m => n == m
  | _, _ => true

def shapeCompat : Shape → Shape → Bool
  | some a, some b => a.length == b.length && (a.zip b).all (fun p => dimCompat p.1 p.2)
  | _, _ => true

def T.compat : T → T → Bool
  | .tensor e s, .tensor e' s' => e == e' && shapeCompat s s'
  | .seq a, .seq b => a.compat b
  | .opt a, .opt b => a.compat b
  | _, _ => false

theorem le_eq_dimCompat (a b : Natural) : a.le b = dimCompat a b := by
  cases a <;> cases b <;> simp [Natural.le, dimCompat]

theorem shape_le_eq (a b : Shape) : Shape.le a b = shapeCompat a b := by
  cases a <;> cases b <;> simp [Shape.le, shapeCompat, le_eq_dimCompat]

theorem dimCompat_refl (a : Natural) : dimCompat a a = true := by
  cases a <;> simp [dimCompat]

theorem shapeCompat_refl (s : Shape) : shapeCompat s s = true := by
  cases s with
  | none => rfl
  | some l =>
    simp only [shapeCompat, beq_self_eq_true, Bool.true_and, List.all_eq_true]
    intro p hp
    have : p.1 = p.2 := by
      induction l with
      | nil => simp at hp
      | cons x xs ih =>
        simp only [List.zip_cons_cons, List.mem_cons] at hp
        rcases hp with h | h
        · subst h; rfl
        · exact ih h
    rw [this]; exact dimCompat_refl _

theorem compat_refl : (t : T) → t.compat t = true
  | .tensor e s => by simp [T.compat, shapeCompat_refl]
  | .seq a => by simpa [T.compat] using compat_refl a
  | .opt a => by simpa [T.compat] using compat_refl a

/-- `_subtype` decides exactly the compatibility relation of the statement. -/
theorem sub_exact : (a b : T) → a.sub b = a.compat b
  | .tensor e s, .tensor e' s' => by
    simp only [T.sub, T.compat, shape_le_eq]
    by_cases h : T.tensor e s = T.tensor e' s'
    · cases h; simp [shapeCompat_refl]
    · simp [h]
  | .seq a, .seq b => by
    simp only [T.sub, T.compat, sub_exact a b]
    by_cases h : T.seq a = T.seq b
    · cases h; simp [compat_refl]
    · simp [h]
  | .opt a, .opt b => by
    simp only [T.sub, T.compat, sub_exact a b]
    by_cases h : T.opt a = T.opt b
    · cases h; simp [compat_refl]
    · simp [h]
  | .tensor _ _, .seq _ => rfl
  | .tensor _ _, .opt _ => rfl
  | .seq _, .tensor _ _ => rfl
  | .seq _, .opt _ => rfl
  | .opt _, .tensor _ _ => rfl
  | .opt _, .seq _ => rfl

/-! ### Broadcasting -/

/-- `_broadcast_elem` on the simplified representation. -/
def bElem (x y : Natural) : Option Natural :=
  if x = y then some x
  else if x = .const 1 then some y
  else if y = .const 1 then some x
  else match x, y with
    | .const _, .const _ => none           -- different constants, neither is 1
    | .const n, .unk _ => some (.const n)
    | .unk _, .const m => some (.const m)
    | .unk _, .unk _ => some (.unk "")

/-- numpy's rule on concrete sizes. -/
def npElem (a b : Nat) : Option Nat :=
  if a = b then some a else if a = 1 then some b else if b = 1 then some a else none

def conf (n : Nat) : Natural → Prop
  | .const m => n = m
  | .unk _ => True

/-- Soundness per dimension: whenever concrete sizes conform and numpy broadcasts them, the
    numpy result conforms to what spox claims. -/
theorem bElem_sound (x y : Natural) (z : Natural) (a b c : Nat)
    (h : bElem x y = some z) (ha : conf a x) (hb : conf b y) (hc : npElem a b = some c) : conf c z := by
  cases x <;> cases y <;> grind [bElem, npElem, conf]

/-- Completeness per dimension: spox raises only if no conforming sizes broadcast. -/
theorem bElem_none (x y : Natural) (a b : Nat)
    (h : bElem x y = none) (ha : conf a x) (hb : conf b y) : npElem a b = none := by
  cases x <;> cases y <;> grind [bElem, npElem, conf]

/-- On known dimensions spox computes numpy's rule. -/
theorem bElem_known (a b : Nat) : bElem (.const a) (.const b) = (npElem a b).map Natural.const := by
  grind [bElem, npElem]

end Ty
