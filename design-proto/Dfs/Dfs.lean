/-! Prototype: DFS postorder (the model of `iterative_dfs` on a DAG) and its def-before-use property. -/
namespace Dfs

variable (adj : Nat → List Nat)

/-- Recursive DFS with fuel; `post` is the postorder so far and doubles as the visited set
    (on a DAG no vertex is re-entered while on the stack). -/
def visit : Nat → Nat → List Nat → List Nat
  | 0, _, post => post
  | fuel + 1, v, post =>
    if v ∈ post then post else (adj v).foldl (fun p w => visit fuel w p) post ++ [v]

/-- Every listed vertex comes after all of its successors. -/
def Closed (post : List Nat) : Prop :=
  ∀ pre v suf, post = pre ++ v :: suf → ∀ w ∈ adj v, w ∈ pre

theorem closed_snoc {adj : Nat → List Nat} {post : List Nat} {v : Nat} (h : Closed adj post) (hv : ∀ w ∈ adj v, w ∈ post) :
    Closed adj (post ++ [v]) := by
  intro pre u suf heq w hw
  rcases List.eq_nil_or_concat suf with hs | ⟨suf', x, hs⟩
  · subst hs
    have := List.append_inj' heq (by simp)
    obtain ⟨h1, h2⟩ := this
    have : u = v := by simpa using h2.symm
    subst this; subst h1
    exact hv w hw
  · subst hs
    have heq' : post ++ [v] = (pre ++ u :: suf') ++ [x] := by simpa using heq
    have := List.append_inj' heq' (by simp)
    exact h pre u suf' this.1 w hw

variable {adj}

theorem visit_spec (rank : Nat → Nat) (hrank : ∀ v, ∀ w ∈ adj v, rank w < rank v) :
    ∀ fuel v post, rank v < fuel → Closed adj post →
      Closed adj (visit adj fuel v post) ∧ v ∈ visit adj fuel v post ∧ post <+: visit adj fuel v post := by
  intro fuel
  induction fuel with
  | zero => intro v post h; omega
  | succ fuel ih =>
    intro v post hf hc
    simp only [visit]
    split
    · rename_i hmem
      exact ⟨hc, hmem, List.prefix_refl _⟩
    · -- fold over successors
      have hfold : ∀ (ws : List Nat) (p : List Nat), (∀ w ∈ ws, rank w < fuel) → Closed adj p →
          Closed adj (ws.foldl (fun p w => visit adj fuel w p) p) ∧
          (∀ w ∈ ws, w ∈ ws.foldl (fun p w => visit adj fuel w p) p) ∧
          p <+: ws.foldl (fun p w => visit adj fuel w p) p := by
        intro ws
        induction ws with
        | nil => intro p _ hp; exact ⟨hp, by simp, List.prefix_refl _⟩
        | cons w ws ihw =>
          intro p hr hp
          obtain ⟨h1, h2, h3⟩ := ih w p (hr w List.mem_cons_self) hp
          obtain ⟨g1, g2, g3⟩ := ihw (visit adj fuel w p) (fun w' hw' => hr w' (List.mem_cons_of_mem _ hw')) h1
          refine ⟨g1, ?_, List.IsPrefix.trans h3 g3⟩
          intro w' hw'
          cases hw' with
          | head => exact g3.subset h2
          | tail _ h' => exact g2 w' h'
      obtain ⟨f1, f2, f3⟩ := hfold (adj v) post (fun w hw => by have := hrank v w hw; omega) hc
      refine ⟨closed_snoc f1 f2, by simp, ?_⟩
      exact List.IsPrefix.trans f3 (List.prefix_append _ _)

end Dfs
