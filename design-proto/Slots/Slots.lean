/-! Prototype for C11/C18/C05: `Node.to_onnx` slotting and trailing-optional trimming. -/
namespace Slots

/-- an argument as passed to an `Inputs(...)` dataclass -/
inductive Arg
  | single (v : Nat)
  | opt (v : Option Nat)
  | variadic (vs : List Nat)

/-- `BaseVars.__iter__`: fields in declaration order, variadics flattened, `None` kept -/
def flatten : List Arg → List (Option Nat)
  | [] => []
  | .single v :: rest => some v :: flatten rest
  | .opt v :: rest => v :: flatten rest
  | .variadic vs :: rest => vs.map some ++ flatten rest

/-- `while len(names) > min and not names[-1]: names.pop()` on the reversed list -/
def trimRev (minN : Nat) : List (Option Nat) → List (Option Nat)
  | none :: rest => if rest.length + 1 > minN then trimRev minN rest else none :: rest
  | xs => xs

def trim (minN : Nat) (xs : List (Option Nat)) : List (Option Nat) := (trimRev minN xs.reverse).reverse

theorem trimRev_suffix (minN : Nat) (xs : List (Option Nat)) : trimRev minN xs <:+ xs := by
  induction xs with
  | nil => exact List.suffix_refl _
  | cons x rest ih =>
    cases x with
    | some v => exact List.suffix_refl _
    | none =>
      simp only [trimRev]
      split
      · exact List.IsSuffix.trans ih (List.suffix_cons _ _)
      · exact List.suffix_refl _

/-- everything that was dropped was an omitted optional -/
theorem trimRev_dropped (minN : Nat) (xs : List (Option Nat)) :
    ∃ k, xs = List.replicate k none ++ trimRev minN xs := by
  induction xs with
  | nil => exact ⟨0, rfl⟩
  | cons x rest ih =>
    cases x with
    | some v => exact ⟨0, rfl⟩
    | none =>
      simp only [trimRev]
      split
      · obtain ⟨k, hk⟩ := ih
        refine ⟨k + 1, ?_⟩
        rw [List.replicate_succ, List.cons_append, ← hk]
      · exact ⟨0, rfl⟩

theorem trimRev_min (minN : Nat) (xs : List (Option Nat)) (h : minN ≤ xs.length) :
    minN ≤ (trimRev minN xs).length := by
  induction xs with
  | nil => simpa [trimRev] using h
  | cons x rest ih =>
    cases x with
    | some v => simpa [trimRev] using h
    | none =>
      simp only [trimRev]
      split
      · apply ih; omega
      · simpa using h

/-- above the minimum, the emitted list never ends in an empty name -/
theorem trimRev_head (minN : Nat) (xs : List (Option Nat)) (h : minN < (trimRev minN xs).length) :
    ∃ v rest, trimRev minN xs = some v :: rest := by
  induction xs with
  | nil => simp [trimRev] at h
  | cons x rest ih =>
    cases x with
    | some v => exact ⟨v, rest, rfl⟩
    | none =>
      simp only [trimRev] at h ⊢
      split
      · rename_i hc; rw [if_pos hc] at h; exact ih h
      · rename_i hc; rw [if_neg hc] at h; simp at h; omega

/-- `Node.to_onnx` keeps every argument at its schema position: the emitted list is a prefix of the
    positional list (so position k still holds argument k, inner omitted optionals stay as empty
    names), only omitted trailing optionals are dropped, never below `min_input`. -/
theorem trim_spec (minN : Nat) (xs : List (Option Nat)) :
    trim minN xs <+: xs ∧ (∃ k, xs = trim minN xs ++ List.replicate k none) ∧
    (minN ≤ xs.length → minN ≤ (trim minN xs).length) := by
  refine ⟨?_, ?_, ?_⟩
  · have := trimRev_suffix minN xs.reverse
    simpa [trim] using List.reverse_prefix.mpr this
  · obtain ⟨k, hk⟩ := trimRev_dropped minN xs.reverse
    refine ⟨k, ?_⟩
    have := congrArg List.reverse hk
    simpa [trim] using this
  · intro h
    simpa [trim] using trimRev_min minN xs.reverse (by simpa using h)

/-- plain `Node` (custom operators): `min_input = len(inputs)` ⇒ nothing is trimmed -/
theorem trim_custom (xs : List (Option Nat)) : trim xs.length xs = xs := by
  have h1 := (trim_spec xs.length xs).1
  have h3 := (trim_spec xs.length xs).2.2 (Nat.le_refl _)
  exact List.IsPrefix.eq_of_length_le h1 h3

end Slots
