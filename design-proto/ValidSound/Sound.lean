import P.Emit
namespace M
variable {Val : Type} [Inhabited Val]

/-- b' agrees with b on the visible arguments. -/
def Agree (prog : List PNode) (vis : List Nat) (b' b : Nat → Val) : Prop :=
  ∀ a ∈ vis, isArg prog a = true → b' a = b a

def EnvOK (S : Sem Val) (prog : List PNode) (env : Env Val) (vis : List Nat) (b : Nat → Val) : Prop :=
  ∀ id ∈ vis, ∀ b', Agree prog vis b' b → env id = some (valAt (table S prog b') id)

theorem Agree.refl (prog : List PNode) (vis : List Nat) (b : Nat → Val) : Agree prog vis b b :=
  fun _ _ _ => rfl

theorem updArgs_mem (b1 b2 : Nat → Val) (args : List Nat) (vals : List Val) (i : Nat) (h : i ∈ args) :
    updArgs b1 args vals i = updArgs b2 args vals i := by
  induction args generalizing vals with
  | nil => cases h
  | cons a as ih =>
    simp only [updArgs]
    by_cases hi : i = a
    · simp [hi]
    · simp only [if_neg hi]
      cases h with
      | head => exact absurd rfl hi
      | tail _ h' => exact ih _ h'

theorem updArgs_not_mem (b : Nat → Val) (args : List Nat) (vals : List Val) (i : Nat) (h : i ∉ args) :
    updArgs b args vals i = b i := by
  induction args generalizing vals with
  | nil => rfl
  | cons a as ih =>
    simp only [updArgs]
    have hi : i ≠ a := fun e => h (e ▸ List.mem_cons_self)
    rw [if_neg hi]
    exact ih _ (fun h' => h (List.mem_cons_of_mem _ h'))

theorem bindArgs_mem (env : Env Val) (b : Nat → Val) (args : List Nat) (vals : List Val) (i : Nat) (h : i ∈ args) :
    bindArgs env args vals i = some [updArgs b args vals i] := by
  induction args generalizing vals with
  | nil => cases h
  | cons a as ih =>
    simp only [bindArgs, updArgs]
    by_cases hi : i = a
    · simp [hi]
    · simp only [if_neg hi]
      cases h with
      | head => exact absurd rfl hi
      | tail _ h' => exact ih _ h'

theorem bindArgs_not_mem (env : Env Val) (args : List Nat) (vals : List Val) (i : Nat) (h : i ∉ args) :
    bindArgs env args vals i = env i := by
  induction args generalizing vals with
  | nil => rfl
  | cons a as ih =>
    simp only [bindArgs]
    have hi : i ≠ a := fun e => h (e ▸ List.mem_cons_self)
    rw [if_neg hi]
    exact ih _ (fun h' => h (List.mem_cons_of_mem _ h'))

theorem valAt_arg (S : Sem Val) (prog : List PNode) (hwf : WF prog) (b : Nat → Val) (a : Nat)
    (h : isArg prog a = true) : valAt (table S prog b) a = [b a] := by
  unfold isArg at h
  split at h
  · rename_i pn hpn
    rw [table_unfold S prog hwf b a pn hpn]
    unfold nodeVal
    have : pn.kind = Kind.arg := by simpa using h
    rw [this]
  · cases h

/-- Entering a body: the outer environment extended with the formal arguments is OK
    for the extended binding. -/
theorem EnvOK_enter (S : Sem Val) (prog : List PNode) (hwf : WF prog) (env : Env Val) (vis : List Nat)
    (b : Nat → Val) (args : List Nat) (vals : List Val)
    (hfresh : ∀ a ∈ args, a ∉ vis ∧ isArg prog a = true)
    (h : EnvOK S prog env vis b) :
    EnvOK S prog (bindArgs env args vals) (args ++ vis) (updArgs b args vals) := by
  intro id hid b' hag
  by_cases hmem : id ∈ args
  · rw [bindArgs_mem env b args vals id hmem]
    have harg := (hfresh id hmem).2
    rw [valAt_arg S prog hwf b' id harg]
    rw [hag id hid harg]
  · rw [bindArgs_not_mem env args vals id hmem]
    have hvis : id ∈ vis := by
      rcases List.mem_append.mp hid with h1 | h1
      · exact absurd h1 hmem
      · exact h1
    apply h id hvis b'
    intro a ha harg
    rw [hag a (List.mem_append.mpr (Or.inr ha)) harg]
    apply updArgs_not_mem
    intro hin
    exact (hfresh a hin).1 ha

theorem mapM_getVar (S : Sem Val) (prog : List PNode) (env : Env Val) (vis : List Nat) (b : Nat → Val)
    (h : EnvOK S prog env vis b) (rs : List VarRef) (hrs : ∀ r ∈ rs, r.node ∈ vis)
    (b' : Nat → Val) (hag : Agree prog vis b' b) :
    rs.mapM env.getVar = some (rs.map (getVar (table S prog b'))) := by
  induction rs with
  | nil => rfl
  | cons r rs ih =>
    have hr := h r.node (hrs r List.mem_cons_self) b' hag
    have ih' := ih (fun r' hr' => hrs r' (List.mem_cons_of_mem _ hr'))
    simp only [List.mapM_cons, List.map_cons, ih']
    simp [Env.getVar, hr, getVar]

end M
