import P.Sem
namespace M
variable {Val : Type} [Inhabited Val]

mutual
inductive ENode where
  | mk (id : Nat) (subs : List EGraph)
inductive EGraph where
  | mk (args : List Nat) (body : List ENode) (results : List VarRef)
end

abbrev Env (Val : Type) := Nat → Option (List Val)

def Env.set (e : Env Val) (k : Nat) (v : List Val) : Env Val :=
  fun i => if i = k then some v else e i

def Env.getVar (e : Env Val) (r : VarRef) : Option Val :=
  match e r.node with
  | none => none
  | some l => some (l.getD r.idx default)

def bindArgs (env : Env Val) : List Nat → List Val → Env Val
  | [], _ => env
  | a :: as, vs => fun i => if i = a then some [vs.headD default] else bindArgs env as vs.tail i

mutual
def evalG (S : Sem Val) (prog : List PNode) : EGraph → Env Val → List Val → Option (List Val)
  | .mk args body results, env, vals =>
    match evalBody S prog body (bindArgs env args vals) with
    | none => none
    | some env1 => results.mapM env1.getVar
def evalBody (S : Sem Val) (prog : List PNode) : List ENode → Env Val → Option (Env Val)
  | [], env => some env
  | (.mk id subs) :: rest, env =>
    match nodeAt prog id with
    | none => none
    | some pn =>
      match pn.kind with
      | .arg => none
      | .op l =>
        match pn.inputs.mapM env.getVar with
        | none => none
        | some ins => evalBody S prog rest (env.set id (S.op l ins (evalSubs S prog subs env)))
def evalSubs (S : Sem Val) (prog : List PNode) : List EGraph → Env Val → List (List Val → List Val)
  | [], _ => []
  | g :: gs, env => (fun vals => (evalG S prog g env vals).getD []) :: evalSubs S prog gs env
end

def isArg (prog : List PNode) (a : Nat) : Bool :=
  match nodeAt prog a with
  | some pn => pn.kind == Kind.arg
  | none => false

mutual
def validG (prog : List PNode) : EGraph → PGraph → List Nat → Bool
  | .mk args body results, pg, vis =>
    args == pg.args && results == pg.results && args.all (fun a => !vis.contains a && isArg prog a)
    && match validBody prog body (args ++ vis) with
       | none => false
       | some vis' => results.all (fun r => vis'.contains r.node)
def validBody (prog : List PNode) : List ENode → List Nat → Option (List Nat)
  | [], vis => some vis
  | (.mk id subs) :: rest, vis =>
    match nodeAt prog id with
    | none => none
    | some pn =>
      match pn.kind with
      | .arg => none
      | .op _ =>
        if pn.inputs.all (fun r => vis.contains r.node) && validSubs prog subs pn.subs vis
        then validBody prog rest (id :: vis) else none
def validSubs (prog : List PNode) : List EGraph → List PGraph → List Nat → Bool
  | [], [], _ => true
  | g :: gs, pg :: pgs, vis => validG prog g pg vis && validSubs prog gs pgs vis
  | _, _, _ => false
end

end M
