namespace M
notation "NodeId" => Nat
structure VarRef where
  node : NodeId
  idx : Nat
deriving DecidableEq, Repr

structure PGraph where
  args : List NodeId
  results : List VarRef
deriving Repr

inductive Kind | arg | op (label : Nat)
deriving Repr, DecidableEq

structure PNode where
  kind : Kind
  inputs : List VarRef
  subs : List PGraph
deriving Repr

variable {Val : Type} [Inhabited Val]

structure Sem (Val : Type) where
  op : Nat → List Val → List (List Val → List Val) → List Val

def valAt : List (List Val) → Nat → List Val
  | [], _ => []
  | v :: tbl, k => if k = tbl.length then v else valAt tbl k

def nodeAt : List PNode → Nat → Option PNode
  | [], _ => none
  | n :: older, k => if k = older.length then some n else nodeAt older k

def getVar (tbl : List (List Val)) (r : VarRef) : Val := (valAt tbl r.node).getD r.idx default

def updArgs (bind : Nat → Val) : List Nat → List Val → Nat → Val
  | [], _ => bind
  | a :: as, vs => fun i => if i = a then vs.headD default else updArgs bind as vs.tail i

def nodeVal (S : Sem Val) (tblOf : (NodeId → Val) → List (List Val)) (bind : NodeId → Val) (k : Nat) (n : PNode) : List Val :=
  match n.kind with
  | .arg => [bind k]
  | .op l => S.op l (n.inputs.map (getVar (tblOf bind)))
      (n.subs.map fun g => fun vals => g.results.map (getVar (tblOf (updArgs bind g.args vals))))

/-- nodes newest-first; node id = number of older nodes. -/
def table (S : Sem Val) : List PNode → (NodeId → Val) → List (List Val)
  | [], _ => []
  | n :: older, bind =>
    (match n.kind with
      | .arg => [bind older.length]
      | .op l => S.op l (n.inputs.map (getVar (table S older bind)))
          (n.subs.map fun g => fun vals => g.results.map (getVar (table S older (updArgs bind g.args vals)))))
    :: table S older bind

theorem table_cons (S : Sem Val) (n : PNode) (older : List PNode) (bind : NodeId → Val) :
    table S (n :: older) bind = nodeVal S (table S older) bind older.length n :: table S older bind := by
  simp only [table, nodeVal]

@[simp] theorem table_length (S : Sem Val) (p : List PNode) (b : NodeId → Val) : (table S p b).length = p.length := by
  induction p generalizing b with
  | nil => rfl
  | cons n older ih => simp [table, ih]

def WF (prog : List PNode) : Prop :=
  ∀ k n, nodeAt prog k = some n →
    (∀ r ∈ n.inputs, r.node < k) ∧ (∀ g ∈ n.subs, ∀ r ∈ g.results, r.node < k)

theorem nodeAt_lt {prog : List PNode} {k : Nat} {n : PNode} (h : nodeAt prog k = some n) : k < prog.length := by
  induction prog with
  | nil => simp [nodeAt] at h
  | cons m older ih =>
    simp only [nodeAt] at h
    split at h
    · simp; omega
    · have := ih h; simp; omega

theorem WF_tail {m : PNode} {older : List PNode} (h : WF (m :: older)) : WF older := by
  intro k n hk
  have hlt := nodeAt_lt hk
  apply h k n
  simp only [nodeAt]
  rw [if_neg (by omega)]
  exact hk

theorem getVar_cons_lt (v : List Val) (tbl : List (List Val)) (r : VarRef) (h : r.node < tbl.length) :
    getVar (v :: tbl) r = getVar tbl r := by
  simp only [getVar, valAt]
  have hne : ¬ r.node = tbl.length := by omega
  rw [if_neg hne]

/-- nodeVal only looks at entries below k. -/
theorem nodeVal_congr (S : Sem Val) (t1 t2 : (NodeId → Val) → List (List Val)) (b : NodeId → Val) (k : Nat) (n : PNode)
    (hin : ∀ r ∈ n.inputs, r.node < k) (hsub : ∀ g ∈ n.subs, ∀ r ∈ g.results, r.node < k)
    (h : ∀ b' (r : VarRef), r.node < k → getVar (t1 b') r = getVar (t2 b') r) :
    nodeVal S t1 b k n = nodeVal S t2 b k n := by
  unfold nodeVal
  split
  · rfl
  · congr 1
    · apply List.map_congr_left
      intro r hr; exact h b r (hin r hr)
    · apply List.map_congr_left
      intro g hg; funext vals
      apply List.map_congr_left
      intro r hr; exact h _ r (hsub g hg r hr)

theorem table_unfold (S : Sem Val) (prog : List PNode) (hwf : WF prog) (b : NodeId → Val) (k : Nat) (n : PNode)
    (hk : nodeAt prog k = some n) :
    valAt (table S prog b) k = nodeVal S (table S prog) b k n := by
  induction prog generalizing b with
  | nil => simp [nodeAt] at hk
  | cons m older ih =>
    have hwf' := WF_tail hwf
    obtain ⟨hin, hsub⟩ := hwf k n hk
    simp only [nodeAt] at hk
    rw [table_cons]
    simp only [valAt, table_length]
    split at hk
    · rename_i hkeq
      cases hk
      rw [if_pos hkeq]
      subst hkeq
      apply nodeVal_congr S _ _ b _ _ hin hsub
      intro b' r hr
      rw [table_cons, getVar_cons_lt]
      simpa using hr
    · rename_i hkne
      rw [if_neg hkne]
      have hlt := nodeAt_lt hk
      rw [ih hwf' b hk]
      apply nodeVal_congr S _ _ b _ _ hin hsub
      intro b' r hr
      rw [table_cons, getVar_cons_lt]
      simp only [table_length]; omega

end M
