import P.Sound
namespace M
variable {Val : Type} [Inhabited Val]

theorem isArg_false_of_op {prog : List PNode} {id : Nat} {pn : PNode} {l : Nat}
    (h : nodeAt prog id = some pn) (hk : pn.kind = Kind.op l) : isArg prog id = false := by
  simp [isArg, h, hk]

theorem EnvOK_step (S : Sem Val) (prog : List PNode) (hwf : WF prog) (env : Env Val) (vis : List Nat)
    (b : Nat → Val) (id : Nat) (pn : PNode) (l : Nat) (hpn : nodeAt prog id = some pn) (hk : pn.kind = Kind.op l)
    (ins : List Val) (subs : List (List Val → List Val))
    (hins : ∀ b', Agree prog vis b' b → ins = pn.inputs.map (getVar (table S prog b')))
    (hsubs : ∀ b', Agree prog vis b' b → subs =
      pn.subs.map (fun g => fun vals => g.results.map (getVar (table S prog (updArgs b' g.args vals)))))
    (h : EnvOK S prog env vis b) :
    EnvOK S prog (env.set id (S.op l ins subs)) (id :: vis) b := by
  intro id' hid' b' hag
  have hag' : Agree prog vis b' b := fun a ha harg => hag a (List.mem_cons_of_mem _ ha) harg
  by_cases he : id' = id
  · subst he
    simp only [Env.set, if_true]
    rw [table_unfold S prog hwf b' id' pn hpn]
    unfold nodeVal
    rw [hk]
    simp only
    rw [hins b' hag', hsubs b' hag']
  · simp only [Env.set, if_neg he]
    have : id' ∈ vis := by
      cases hid' with
      | head => exact absurd rfl he
      | tail _ h' => exact h'
    exact h id' this b' hag'

mutual
theorem bodyOK (S : Sem Val) (prog : List PNode) (hwf : WF prog) :
    (body : List ENode) → (env : Env Val) → (vis vis' : List Nat) → (b : Nat → Val) →
    validBody prog body vis = some vis' → EnvOK S prog env vis b →
    ∃ env', evalBody S prog body env = some env' ∧ EnvOK S prog env' vis' b ∧
      (∀ x ∈ vis', x ∈ vis ∨ isArg prog x = false)
  | [], env, vis, vis', b, hv, henv => by
    simp only [validBody] at hv
    cases hv
    exact ⟨env, rfl, henv, fun x hx => Or.inl hx⟩
  | (.mk id subs) :: rest, env, vis, vis', b, hv, henv => by
    simp only [validBody] at hv
    split at hv
    · cases hv
    · rename_i pn hpn
      split at hv
      · cases hv
      · rename_i l hk
        split at hv
        · rename_i hcond
          simp only [Bool.and_eq_true, List.all_eq_true] at hcond
          obtain ⟨hin, hsv⟩ := hcond
          have hin' : ∀ r ∈ pn.inputs, r.node ∈ vis := fun r hr => by
            have := hin r hr; simpa using this
          have hins := mapM_getVar S prog env vis b henv pn.inputs hin'
          have hsubs := subsOK S prog hwf subs pn.subs env vis b hsv henv
          have hstep := EnvOK_step S prog hwf env vis b id pn l hpn hk
            (pn.inputs.map (getVar (table S prog b))) (evalSubs S prog subs env)
            (fun b' hag => by
              have h1 := hins b' hag
              have h2 := hins b (Agree.refl _ _ _)
              rw [h2] at h1
              exact Option.some.inj h1)
            (fun b' hag => hsubs b' hag) henv
          obtain ⟨env', he, hok, hsub⟩ := bodyOK S prog hwf rest _ (id :: vis) vis' b hv hstep
          refine ⟨env', ?_, hok, ?_⟩
          · simp only [evalBody, hpn, hk, hins b (Agree.refl _ _ _)]
            exact he
          · intro x hx
            rcases hsub x hx with h1 | h1
            · cases h1 with
              | head => exact Or.inr (isArg_false_of_op hpn hk)
              | tail _ h' => exact Or.inl h'
            · exact Or.inr h1
        · cases hv
theorem graphOK (S : Sem Val) (prog : List PNode) (hwf : WF prog) :
    (g : EGraph) → (pg : PGraph) → (env : Env Val) → (vis : List Nat) → (b : Nat → Val) →
    validG prog g pg vis = true → EnvOK S prog env vis b →
    ∀ b', Agree prog vis b' b → ∀ vals,
      evalG S prog g env vals = some (pg.results.map (getVar (table S prog (updArgs b' pg.args vals))))
  | .mk args body results, pg, env, vis, b, hv, henv => by
    intro b' hag vals
    simp only [validG, Bool.and_eq_true] at hv
    obtain ⟨⟨⟨hargs, hres⟩, hfresh⟩, hbody⟩ := hv
    have hargs' : args = pg.args := by simpa using hargs
    have hres' : results = pg.results := by simpa using hres
    subst hargs' hres'
    have hfresh' : ∀ a ∈ pg.args, a ∉ vis ∧ isArg prog a = true := by
      intro a ha
      have := List.all_eq_true.mp hfresh a ha
      simp only [Bool.and_eq_true, Bool.not_eq_true', List.contains_eq_mem, decide_eq_false_iff_not] at this
      exact this
    split at hbody
    · cases hbody
    · rename_i vis' hvb
      have henter := EnvOK_enter S prog hwf env vis b pg.args vals hfresh' henv
      obtain ⟨env1, he, hok, hsub⟩ := bodyOK S prog hwf body _ (pg.args ++ vis) vis' _ hvb henter
      simp only [evalG, he]
      apply mapM_getVar S prog env1 vis' _ hok
      · intro r hr
        have := List.all_eq_true.mp hbody r hr
        simpa using this
      · intro a ha harg
        rcases hsub a ha with h1 | h1
        · rcases List.mem_append.mp h1 with h2 | h2
          · exact updArgs_mem _ _ _ _ _ h2
          · have hna : a ∉ pg.args := fun hin => (hfresh' a hin).1 h2
            rw [updArgs_not_mem _ _ _ _ hna, updArgs_not_mem _ _ _ _ hna]
            exact hag a h2 harg
        · rw [h1] at harg; cases harg
theorem subsOK (S : Sem Val) (prog : List PNode) (hwf : WF prog) :
    (gs : List EGraph) → (pgs : List PGraph) → (env : Env Val) → (vis : List Nat) → (b : Nat → Val) →
    validSubs prog gs pgs vis = true → EnvOK S prog env vis b →
    ∀ b', Agree prog vis b' b →
      evalSubs S prog gs env =
        pgs.map (fun g => fun vals => g.results.map (getVar (table S prog (updArgs b' g.args vals))))
  | [], [], env, vis, b, hv, henv => by
    intro b' hag; rfl
  | g :: gs, pg :: pgs, env, vis, b, hv, henv => by
    intro b' hag
    simp only [validSubs, Bool.and_eq_true] at hv
    obtain ⟨hg, hgs⟩ := hv
    simp only [evalSubs, List.map_cons]
    congr 1
    · funext vals
      rw [graphOK S prog hwf g pg env vis b hg henv b' hag vals]
      rfl
    · exact subsOK S prog hwf gs pgs env vis b hgs henv b' hag
  | [], _ :: _, _, _, _, hv, _ => by simp [validSubs] at hv
  | _ :: _, [], _, _, _, hv, _ => by simp [validSubs] at hv
end

/-- Translation validation: any emission accepted by `validG` for the main graph computes,
    on every input binding, exactly the direct dataflow denotation of the requested results. -/
theorem valid_sound (S : Sem Val) (prog : List PNode) (hwf : WF prog) (e : EGraph) (main : PGraph)
    (hv : validG prog e main [] = true) (b : Nat → Val) (vals : List Val) :
    evalG S prog e (fun _ => none) vals =
      some (main.results.map (getVar (table S prog (updArgs b main.args vals)))) := by
  apply graphOK S prog hwf e main (fun _ => none) [] b hv
  · intro id hid; cases hid
  · exact Agree.refl _ _ _

end M
