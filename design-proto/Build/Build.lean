import P.Emit
/-! Prototype: executable model of spox `Builder` (discover order, scope tree by LCA relaxation,
    one DFS postorder over input+subgraph edges, per-scope partition, nested emission). -/
namespace M

inductive GId | main | sub (owner idx : Nat)
deriving DecidableEq, Repr

inductive V | node (n : Nat) | src (g : GId)
deriving DecidableEq, Repr

structure Prog where
  nodes : List PNode            -- newest first
  main : PGraph

def Prog.node? (p : Prog) (n : Nat) : Option PNode := nodeAt p.nodes n

def Prog.graph? (p : Prog) : GId → Option PGraph
  | .main => some p.main
  | .sub o i => (p.node? o).bind (fun pn => pn.subs[i]?)

def Prog.subsOf (p : Prog) (n : Nat) : List GId :=
  match p.node? n with
  | some pn => (List.range pn.subs.length).map (GId.sub n)
  | none => []

/-- input edges only (used by discover / update_scope_tree) -/
def Prog.adjIn (p : Prog) : V → List V
  | .node n => match p.node? n with
    | some pn => pn.inputs.map (fun r => V.node r.node)
    | none => []
  | .src g => match p.graph? g with
    | some pg => pg.results.map (fun r => V.node r.node)
    | none => []

/-- input edges, then subgraph edges (used by resolve_scopes) -/
def Prog.adjFull (p : Prog) : V → List V
  | .node n => p.adjIn (.node n) ++ (p.subsOf n).map V.src
  | v => p.adjIn v

/-- recursive DFS with fuel, `post` doubles as the visited set (DAG). -/
def dfs (adj : V → List V) : Nat → V → List V → List V
  | 0, _, post => post
  | fuel + 1, v, post =>
    if v ∈ post then post else (adj v).foldl (fun p w => dfs adj fuel w p) post ++ [v]

/-- graph_topo before the final reverse: post-order of the discover recursion. -/
def discoverOrder (p : Prog) : Nat → GId → List GId → List GId
  | 0, _, done => done
  | fuel + 1, g, done =>
    if g ∈ done then done else
    let post := dfs p.adjIn (p.nodes.length + 2) (.src g) []
    let subs : List GId := post.flatMap (fun v => match v with | .node n => p.subsOf n | _ => [])
    subs.foldl (fun d s => discoverOrder p fuel s d) done ++ [g]

abbrev ScopeOf := List (V × GId)

def ScopeOf.get (s : ScopeOf) (v : V) : Option GId := (s.find? (fun e => e.1 == v)).map (·.2)
def ScopeOf.set (s : ScopeOf) (v : V) (g : GId) : ScopeOf := (v, g) :: s.filter (fun e => !(e.1 == v))

def parent (s : ScopeOf) : GId → GId
  | .main => .main
  | .sub o i => (s.get (.node o)).getD (.sub o i)

def lcaLoop (s : ScopeOf) : Nat → GId → GId → List GId → List GId → GId
  | 0, a, _, _, _ => a
  | fuel + 1, a, b, visA, visB =>
    if a ∈ visB then a else lcaLoop s fuel b (parent s a) visB (a :: visA)

def lca (s : ScopeOf) (fuel : Nat) (a b : GId) : GId := lcaLoop s fuel a b [a] [b]

def updateScopeTree (p : Prog) (fuel : Nat) (s : ScopeOf) (g : GId) : ScopeOf :=
  let post := dfs p.adjIn fuel (.src g) []
  post.foldl (fun s v => s.set v (lca s fuel g ((s.get v).getD g))) s

structure Built where
  graphTopo : List GId
  scopeOf : ScopeOf
  topo : List V
deriving Repr

def build (p : Prog) : Built :=
  let fuel := 2 * p.nodes.length + 4
  let gt := (discoverOrder p fuel .main []).reverse
  let so := gt.foldl (updateScopeTree p fuel) []
  let topo := dfs p.adjFull fuel (.src .main) []
  ⟨gt, so, topo⟩

def isArgNode (p : Prog) (n : Nat) : Bool := isArg p.nodes n

/-- nested emission of graph `g` -/
def emit (p : Prog) (b : Built) : Nat → GId → EGraph
  | 0, _ => .mk [] [] []
  | fuel + 1, g =>
    let pg := (p.graph? g).getD ⟨[], []⟩
    let own := b.topo.filterMap (fun v => match v with
      | .node n => if b.scopeOf.get v == some g && !isArgNode p n then some n else none
      | _ => none)
    .mk pg.args (own.map (fun n => ENode.mk n ((p.subsOf n).map (emit p b fuel)))) pg.results

def check (p : Prog) : Bool :=
  let b := build p
  validG p.nodes (emit p b (p.nodes.length + 2) .main) p.main []

/-! ### the nested example probed on the real Builder (x=0, c=1, e=exp x, inner add, …) -/
def r (n : Nat) : VarRef := ⟨n, 0⟩
-- ids: 0 x(arg) 1 c(arg) 2 e=Exp(x) 3 neg=Neg(e) [else of outer] 4 addi=Add(e,x) [inner then]
--      5 innerIf = If(c){then:[4], else:[x]}  6 outerIf = If(c){then:[5], else:[3]}  7 y = Add(6, x)
def ex1 : Prog :=
  { nodes := [
      ⟨.op 1, [r 6, r 0], []⟩,                                   -- 7 Add
      ⟨.op 9, [r 1], [⟨[], [r 3]⟩, ⟨[], [r 5]⟩]⟩,                 -- 6 If: attribute order else, then
      ⟨.op 9, [r 1], [⟨[], [r 0]⟩, ⟨[], [r 4]⟩]⟩,                 -- 5 inner If: else [x], then [add]
      ⟨.op 1, [r 2, r 0], []⟩,                                   -- 4 Add(e,x)
      ⟨.op 3, [r 2], []⟩,                                        -- 3 Neg(e)
      ⟨.op 2, [r 0], []⟩,                                        -- 2 Exp(x)
      ⟨.arg, [], []⟩, ⟨.arg, [], []⟩],                           -- 1 c, 0 x
    main := ⟨[0, 1], [r 7]⟩ }

#eval (build ex1).graphTopo
#eval (build ex1).scopeOf.filterMap (fun e => match e.1 with | .node n => some (n, e.2) | _ => none)
#eval (build ex1).topo
#eval check ex1

/-- a Loop body argument (id 2) leaked into a sibling Loop body: must be invalid -/
def ex2 : Prog :=
  { nodes := [
      ⟨.op 8, [r 4], [⟨[5], [r 6]⟩]⟩,        -- 7 Loop2(v_initial = loop1 result){body(arg 5): [6]}
      ⟨.op 1, [r 5, r 2], []⟩,               -- 6 Add(arg5, LEAKED arg2)
      ⟨.arg, [], []⟩,                        -- 5 body2 arg
      ⟨.op 8, [r 0], [⟨[2], [r 3]⟩]⟩,        -- 4 Loop1(x){body(arg 2): [3]}
      ⟨.op 1, [r 2, r 0], []⟩,               -- 3 Add(arg2, x)
      ⟨.arg, [], []⟩,                        -- 2 body1 arg
      ⟨.op 0, [], []⟩,                       -- 1 const
      ⟨.arg, [], []⟩],                       -- 0 x
    main := ⟨[0], [r 7]⟩ }
#eval check ex2
#eval (build ex2).scopeOf.filterMap (fun e => match e.1 with | .node n => some (n, e.2) | _ => none)

end M
