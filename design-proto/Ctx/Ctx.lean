/-! Prototype for C16/C12: generator-based context managers as a tiny IR extracted from source. -/
namespace Ctx

inductive Outcome | ok | exn
deriving DecidableEq, Repr

/-- Statements of a `@contextmanager` generator body, as the translator extracts them. -/
inductive Stmt
  | savePrev                       -- prev = G
  | setArg                         -- G = arg
  | restorePrev                    -- G = prev
  | yield_
  | tryFinally (body fin : List Stmt)
deriving Repr

/-- Three independent global settings. -/
abbrev Globals := Fin 3 → Nat

structure Frame where
  glob : Globals
  prev : Nat

mutual
def exec (which : Fin 3) (arg : Nat) (body : Globals → Globals × Outcome) : List Stmt → Frame → Frame × Outcome
  | [], f => (f, .ok)
  | s :: rest, f =>
    match execStmt which arg body s f with
    | (f1, .ok) => exec which arg body rest f1
    | (f1, .exn) => (f1, .exn)
def execStmt (which : Fin 3) (arg : Nat) (body : Globals → Globals × Outcome) : Stmt → Frame → Frame × Outcome
  | .savePrev, f => ({ f with prev := f.glob which }, .ok)
  | .setArg, f => ({ f with glob := fun i => if i = which then arg else f.glob i }, .ok)
  | .restorePrev, f => ({ f with glob := fun i => if i = which then f.prev else f.glob i }, .ok)
  | .yield_, f => let (g, o) := body f.glob; ({ f with glob := g }, o)
  | .tryFinally b fin, f =>
    match exec which arg body b f with
    | (f1, o1) =>
      match exec which arg body fin f1 with
      | (f2, .ok) => (f2, o1)
      | (f2, .exn) => (f2, .exn)
end

/-- A block program: nested `with` blocks over the three managers; each body runs its inner
    blocks in order and then either completes or raises. -/
inductive Block
  | withB (which : Fin 3) (arg : Nat) (inner : List Block) (raises : Bool)

/-- The (generated) IR of the three managers. -/
structure Managers where
  ir : Fin 3 → List Stmt

mutual
def runBlock (M : Managers) : Block → Globals → Globals × Outcome
  | .withB which arg inner raises, g =>
    let r := exec which arg (fun g' =>
        match runBlocks M inner g' with
        | (g'', .ok) => (g'', if raises then .exn else .ok)
        | (g'', .exn) => (g'', .exn)) (M.ir which) ⟨g, 0⟩
    (r.1.glob, r.2)
def runBlocks (M : Managers) : List Block → Globals → Globals × Outcome
  | [], g => (g, .ok)
  | b :: bs, g =>
    match runBlock M b g with
    | (g1, .ok) => runBlocks M bs g1
    | (g1, .exn) => (g1, .exn)
end

/-- the shape `prev = G; G = arg; try: yield finally: G = prev` -/
def goodIR : List Stmt := [.savePrev, .setArg, .tryFinally [.yield_] [.restorePrev]]
/-- the shape on the pinned tree: `prev = G; G = arg; yield; G = prev` -/
def pinnedIR : List Stmt := [.savePrev, .setArg, .yield_, .restorePrev]

/-- What the theorem needs from an extracted IR: it is `goodIR` (decidable by the translator's
    output being syntactically this list; more shapes can be added with their own lemma). -/
def Managers.Good (M : Managers) : Prop := ∀ i, M.ir i = goodIR

theorem exec_good (which : Fin 3) (arg : Nat) (body : Globals → Globals × Outcome) (g : Globals)
    (hbody : (body (fun i => if i = which then arg else g i)).1 = (fun i => if i = which then arg else g i)) :
    (exec which arg body goodIR ⟨g, 0⟩).1.glob = g := by
  simp only [goodIR, exec, execStmt]
  generalize hb : body (fun i => if i = which then arg else g i) = r at hbody
  obtain ⟨g1, o⟩ := r
  simp only at hbody
  subst hbody
  cases o <;> simp [exec, execStmt] <;> (funext i; by_cases h : i = which <;> simp [h])

mutual
theorem runBlock_restores (M : Managers) (hM : M.Good) : (b : Block) → (g : Globals) → (runBlock M b g).1 = g
  | .withB which arg inner raises, g => by
    simp only [runBlock, hM which]
    apply exec_good
    have := runBlocks_restores M hM inner (fun i => if i = which then arg else g i)
    generalize hr : runBlocks M inner (fun i => if i = which then arg else g i) = r at this
    obtain ⟨g2, o⟩ := r
    cases o <;> simpa using this
theorem runBlocks_restores (M : Managers) (hM : M.Good) : (bs : List Block) → (g : Globals) → (runBlocks M bs g).1 = g
  | [], g => rfl
  | b :: bs, g => by
    have h1 := runBlock_restores M hM b g
    simp only [runBlocks]
    generalize hr : runBlock M b g = r at h1
    obtain ⟨g1, o⟩ := r
    simp only at h1
    subst h1
    cases o
    · exact runBlocks_restores M hM bs g1
    · rfl
end

/-- The pinned source is not restoring: one raising body leaks the setting. -/
theorem pinned_counterexample :
    (runBlock ⟨fun _ => pinnedIR⟩ (.withB 0 7 [] true) (fun _ => 1)).1 0 = 7 := by decide

end Ctx
