/-! Prototype for C02: `ScopeSpace` (flat, as used by the builder) and its invariant over all op sequences. -/
namespace Scope

structure Space where
  pairs : List (Nat × String)        -- object ↦ name  (name_of / of_name kept in sync)
  reserved : List String
  counters : List (String × Nat)
deriving Repr

def Space.nameOf (s : Space) (o : Nat) : Option String := (s.pairs.find? (·.1 == o)).map (·.2)
def Space.ofName (s : Space) (n : String) : Option Nat := (s.pairs.find? (·.2 == n)).map (·.1)
def Space.hasName (s : Space) (n : String) : Bool := s.reserved.contains n || (s.ofName n).isSome
def Space.hasObj (s : Space) (o : Nat) : Bool := (s.nameOf o).isSome

inductive Err | scope | key
deriving Repr, DecidableEq

/-- `ScopeSpace.__setitem__` -/
def Space.setitem (s : Space) (n : String) (o : Nat) : Except Err Space :=
  if s.hasName n then
    match s.ofName n with
    | none => .error .key                       -- reserved name: `self[key]` raises KeyError
    | some o' =>
      if o' ≠ o then .error .scope              -- name taken by another object
      else .ok s                                 -- same object, same name: no-op
  else
    match s.nameOf o with
    | some _ => .error .scope                   -- implicit rename
    | none => .ok { s with pairs := (o, n) :: s.pairs }

/-- `ScopeSpace.reserve` -/
def Space.reserve (s : Space) (n : String) : Except Err Space :=
  if s.hasName n then .error .scope else .ok { s with reserved := n :: s.reserved }

/-- names and objects are in bijection, and no name is reserved -/
structure Inv (s : Space) : Prop where
  objs : (s.pairs.map (·.1)).Nodup
  names : (s.pairs.map (·.2)).Nodup
  disj : ∀ p ∈ s.pairs, p.2 ∉ s.reserved

theorem find_none_obj {ps : List (Nat × String)} {o : Nat}
    (h : (ps.find? (·.1 == o)) = none) : o ∉ ps.map (·.1) := by
  intro hm
  rcases List.mem_map.mp hm with ⟨p, hp, rfl⟩
  have := List.find?_eq_none.mp h p hp
  simp at this

theorem find_none_name {ps : List (Nat × String)} {n : String}
    (h : (ps.find? (·.2 == n)) = none) : n ∉ ps.map (·.2) := by
  intro hm
  rcases List.mem_map.mp hm with ⟨p, hp, rfl⟩
  have := List.find?_eq_none.mp h p hp
  simp at this

theorem setitem_inv (s s' : Space) (n : String) (o : Nat) (h : Inv s)
    (hs : s.setitem n o = .ok s') : Inv s' := by
  unfold Space.setitem at hs
  split at hs
  · split at hs
    · cases hs
    · split at hs
      · cases hs
      · cases hs; exact h
  · rename_i hnn
    split at hs
    · cases hs
    · rename_i hno
      cases hs
      simp only [Space.hasName, Bool.or_eq_true, not_or] at hnn
      obtain ⟨hres, hof⟩ := hnn
      have hof' : s.pairs.find? (·.2 == n) = none := by
        simp only [Space.ofName, Option.isSome_map] at hof
        cases hf : s.pairs.find? (·.2 == n) <;> simp_all
      have hno' : s.pairs.find? (·.1 == o) = none := by
        simp only [Space.nameOf, Option.map_eq_none_iff] at hno; exact hno
      refine ⟨?_, ?_, ?_⟩
      · simp only [List.map_cons, List.nodup_cons]
        exact ⟨find_none_obj hno', h.objs⟩
      · simp only [List.map_cons, List.nodup_cons]
        exact ⟨find_none_name hof', h.names⟩
      · intro p hp
        cases hp with
        | head => simpa using hres
        | tail _ hp' => exact h.disj p hp'

theorem reserve_inv (s s' : Space) (n : String) (h : Inv s) (hs : s.reserve n = .ok s') : Inv s' := by
  unfold Space.reserve at hs
  split at hs
  · cases hs
  · rename_i hnn
    cases hs
    simp only [Space.hasName, Bool.or_eq_true, not_or] at hnn
    obtain ⟨_, hof⟩ := hnn
    have hof' : s.pairs.find? (·.2 == n) = none := by
      simp only [Space.ofName, Option.isSome_map] at hof
      cases hf : s.pairs.find? (·.2 == n) <;> simp_all
    refine ⟨h.objs, h.names, ?_⟩
    intro p hp hmem
    cases hmem with
    | head => exact find_none_name hof' (List.mem_map.mpr ⟨p, hp, rfl⟩)
    | tail _ hm => exact h.disj p hp hm

/-- operations the builder performs on a namespace -/
inductive Op | set (n : String) (o : Nat) | reserve (n : String)

def step (s : Space) : Op → Except Err Space
  | .set n o => s.setitem n o
  | .reserve n => s.reserve n

def run : Space → List Op → Except Err Space
  | s, [] => .ok s
  | s, op :: ops => match step s op with
    | .ok s' => run s' ops
    | .error e => .error e

/-- every state reachable by any operation sequence that does not raise satisfies the invariant:
    all names handed out in a successful build are pairwise distinct and distinct from reserved ones -/
theorem run_inv (s s' : Space) (ops : List Op) (h : Inv s) (hr : run s ops = .ok s') : Inv s' := by
  induction ops generalizing s with
  | nil => simp only [run] at hr; cases hr; exact h
  | cons op ops ih =>
    simp only [run] at hr
    split at hr
    · rename_i s1 hs1
      apply ih s1 _ hr
      cases op with
      | set n o => exact setitem_inv s s1 n o h hs1
      | reserve n => exact reserve_inv s s1 n h hs1
    · cases hr

theorem empty_inv : Inv ⟨[], [], []⟩ := ⟨List.nodup_nil, List.nodup_nil, by intro p hp; cases hp⟩

def outcome : Except Err Space → Option Err
  | .ok _ => none
  | .error e => some e

-- a user name colliding with a generated name raises; a clean sequence does not (non-vacuity)
example : outcome (run ⟨[], [], []⟩ [.set "Abs_0_Y" 1, .set "Abs_0_Y" 2]) = some .scope := by decide
example : outcome (run ⟨[], [], []⟩ [.set "x" 1, .reserve "Inline_0__x", .set "y" 2]) = none := by decide

end Scope
