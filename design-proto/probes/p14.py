import warnings, numpy as np, onnx
warnings.simplefilter("ignore")
from dataclasses import dataclass
from typing import Optional, Sequence, Dict
from spox import argument, build, Tensor, Var, Type
from spox._node import Node, OpType
from spox._fields import BaseAttributes, BaseInputs, BaseOutputs
from spox._attributes import AttrInt64, AttrFloat32s, AttrString, AttrTensor
import spox.opset.ai.onnx.v17 as op

class MyOp(Node):
    op_type = OpType("MyOp", "my.domain", 3)
    @dataclass
    class Attributes(BaseAttributes):
        k: AttrInt64
        fs: Optional[AttrFloat32s]
        s: Optional[AttrString]
    @dataclass
    class Inputs(BaseInputs):
        a: Var
        b: Optional[Var]
        c: Optional[Var]
        rest: Sequence[Var]
    @dataclass
    class Outputs(BaseOutputs):
        y: Var
        zs: Sequence[Var]
    attrs: Attributes; inputs: Inputs; outputs: Outputs
    def infer_output_types(self) -> Dict[str, Type]:
        return {"y": self.inputs.a.type, "zs_0": Tensor(np.int64, (1,))}
    def propagate_values(self):
        return {"zs_0": np.array([7]), "nonexistent": np.array(1), "y": np.array([1., 2.])}

x = argument(Tensor(np.float32, (2,)))
n = MyOp(MyOp.Attributes(k=AttrInt64(3, "k"), fs=None, s=AttrString("hi", "s")), MyOp.Inputs(a=x, b=None, c=x, rest=[x, x]), out_variadic=2)
print([ (k, v.type, v._value) for k, v in n.outputs.get_vars().items()])
y = n.outputs.y
m = build({'x': x}, {'y': op.identity(y), 'z0': n.outputs.zs[0]})
print([(nd.op_type, nd.domain, list(nd.input), list(nd.output), [(a.name) for a in nd.attribute]) for nd in m.graph.node])
print([(o.domain, o.version) for o in m.opset_import])
# trailing None optional
n2 = MyOp(MyOp.Attributes(k=AttrInt64(3, "k"), fs=None, s=None), MyOp.Inputs(a=x, b=None, c=None, rest=[]), out_variadic=0)
m2 = build({'x': x}, {'y': op.identity(n2.outputs.y)})
print([(nd.op_type, list(nd.input), list(nd.output)) for nd in m2.graph.node])
