import warnings, numpy as np, onnx, sys, traceback
warnings.simplefilter("ignore")
import spox
from spox import argument, build, inline, Tensor, Var
import spox.opset.ai.onnx.v17 as op
import spox.opset.ai.onnx.v18 as op18
import spox.opset.ai.onnx.v19 as op19
import spox.opset.ai.onnx.v21 as op21
import spox.opset.ai.onnx.ml.v3 as ml
import onnxruntime as ort
def run(model, **kw):
    s = ort.InferenceSession(model.SerializeToString())
    return s.run(None, kw)
def attempt(name, f):
    try:
        r = f(); print(name, "OK", r)
    except Exception as e:
        print(name, "EXC", type(e).__name__, str(e)[:300])

print("=== C19 scan with rank-1 state")
def scan_state():
    st = argument(Tensor(np.float32, (3,)))
    xs = argument(Tensor(np.float32, (5, 3)))
    seen = []
    def body(s, x):
        seen.append((s.type, x.type))
        y = op.add(s, x)
        return [y, y]
    outs = op.scan([st, xs], body=body, num_scan_inputs=1)
    print("body arg types", seen)
    m = build({'st': st, 'xs': xs}, {'f': outs[0], 'ys': outs[1]})
    return run(m, st=np.zeros(3, np.float32), xs=np.ones((5,3), np.float32))
attempt("scan", scan_state)

print("=== C19 sequence_map with tensor additional input")
def seqmap():
    from spox import Sequence
    sq = argument(Sequence(Tensor(np.float32, (2,))))
    t = argument(Tensor(np.float32, (2,)))
    outs = op.sequence_map(sq, [t], body=lambda a, b: [op.add(a, b)])
    m = build({'sq': sq, 't': t}, {'o': outs[0]})
    return "built"
attempt("seqmap", seqmap)

print("=== C06 loop body arg declared type vs runtime")
def loopargs():
    x = argument(Tensor(np.float32, (2,)))
    seen=[]
    def body(i, c, v):
        seen.append((i.type, c.type, v.type))
        return [c, op.add(v, op.cast(op.reshape(i, op.const([1])), to=np.float32)), op.shape(i), op.shape(c)]
    outs = op.loop(op.const(3), v_initial=[x], body=body)
    print(seen, [o.type for o in outs])
    m = build({'x': x}, {'v': outs[0], 'si': outs[1], 'sc': outs[2]})
    return run(m, x=np.zeros(2, np.float32))
attempt("loopargs", loopargs)

print("=== C06 loop carried shape change")
def loopshape():
    x = argument(Tensor(np.float32, (2,)))
    def body(i, c, v):
        return [c, op.concat([v, v], axis=0)]
    outs = op.loop(op.const(0), v_initial=[x], body=body)
    print([o.type for o in outs])
    m = build({'x': x}, {'v': outs[0]})
    return [r.shape for r in run(m, x=np.zeros(2, np.float32))]
attempt("loopshape", loopshape)

print("=== C06 LinearRegressor")
def linreg():
    x = argument(Tensor(np.float32, (4, 3)))
    y = ml.linear_regressor(x, coefficients=[1.,2.,3.], intercepts=[0.], targets=1)
    print(y.type)
    m = build({'x': x}, {'y': y})
    return [r.shape for r in run(m, x=np.zeros((4,3), np.float32))]
attempt("linreg", linreg)
def treecls():
    x = argument(Tensor(np.float32, (4, 2)))
    y, z = ml.tree_ensemble_classifier(x, class_ids=[0,0,0], class_nodeids=[1,2,2], class_treeids=[0,0,0], class_weights=[1.,0.5, 0.5],
       classlabels_int64s=[0,1], nodes_falsenodeids=[2,0,0], nodes_featureids=[0,0,0], nodes_hitrates=[1.,1.,1.], nodes_missing_value_tracks_true=[0,0,0],
       nodes_modes=["BRANCH_LEQ","LEAF","LEAF"], nodes_nodeids=[0,1,2], nodes_treeids=[0,0,0], nodes_truenodeids=[1,0,0], nodes_values=[0.5,0.,0.], post_transform="NONE")
    print(y.type, z.type)
    m = build({'x': x}, {'y': y, 'z': z})
    return [r.shape for r in run(m, x=np.zeros((4,2), np.float32))]
attempt("treecls", treecls)
def afe():
    x = argument(Tensor(np.float32, (5,)))
    i = argument(Tensor(np.int64, (2,)))
    z = ml.array_feature_extractor(x, i)
    print(z.type)
    m = build({'x': x, 'i': i}, {'z': z})
    return [r.shape for r in run(m, x=np.zeros((5,), np.float32), i=np.array([0,1]))]
attempt("afe", afe)
def ohe():
    x = argument(Tensor(np.int64, (5,)))
    z = ml.one_hot_encoder(x, cats_int64s=[1,2,3])
    print(z.type)
    m = build({'x': x}, {'z': z})
    return [r.shape for r in run(m, x=np.zeros((5,), np.int64))]
attempt("ohe", ohe)
