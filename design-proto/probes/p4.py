import warnings, numpy as np, onnx, sys, traceback
warnings.simplefilter("ignore")
import spox
from spox import argument, build, inline, Tensor, Var
import spox.opset.ai.onnx.v17 as op
import spox.opset.ai.onnx.v18 as op18
import onnxruntime as ort
def run(model, **kw):
    s = ort.InferenceSession(model.SerializeToString())
    return s.run(None, kw)
def attempt(name, f):
    try:
        r = f(); print(name, "OK", r)
    except Exception as e:
        print(name, "EXC", type(e).__name__, str(e)[:400])
def show(g, ind=0):
    for n in g.node:
        print(" "*ind, n.op_type, list(n.input), "->", list(n.output))
        for a in n.attribute:
            if a.type == onnx.AttributeProto.GRAPH:
                print(" "*ind, " [", a.name, "] in:", [i.name for i in a.g.input], "out:", [o.name for o in a.g.output])
                show(a.g, ind+4)

print("=== C01/C04: created in then-branch, used in else-branch and after")
def leak():
    x = argument(Tensor(np.float32, (2,)))
    c = argument(Tensor(np.bool_, ()))
    box = {}
    def then():
        box['t'] = op.mul(x, x)
        return [box['t']]
    def els():
        return [op.add(box['t'], x)]
    r = op.if_(c, then_branch=then, else_branch=els)
    y = op.add(r[0], box['t'])
    m = build({'x': x, 'c': c}, {'y': y})
    show(m.graph)
    return run(m, x=np.array([1,2],np.float32), c=np.array(False))
attempt("leak", leak)
print("=== nested: value used only in nested body")
def nested():
    x = argument(Tensor(np.float32, (2,)))
    c = argument(Tensor(np.bool_, ()))
    e = op.exp(x)
    def inner_then(): return [op.add(e, x)]
    def outer_then():
        return op.if_(c, then_branch=inner_then, else_branch=lambda: [x])
    r = op.if_(c, then_branch=outer_then, else_branch=lambda: [op.neg(x)])
    m = build({'x': x, 'c': c}, {'y': r[0]})
    show(m.graph)
    return run(m, x=np.array([1,2],np.float32), c=np.array(True))
attempt("nested", nested)
print("=== loop body arg leak")
def argleak():
    x = argument(Tensor(np.float32, (2,)))
    box = {}
    def body(i, c, v):
        box['v'] = v
        return [c, op.add(v, x)]
    outs = op.loop(op.const(3), v_initial=[x], body=body)
    y = op.add(outs[0], box['v'])
    m = build({'x': x}, {'y': y})
    return "built?!"
attempt("argleak", argleak)
def argleak_sibling():
    x = argument(Tensor(np.float32, (2,)))
    box = {}
    def body(i, c, v):
        box['v'] = v
        return [c, op.add(v, x)]
    outs = op.loop(op.const(3), v_initial=[x], body=body)
    def body2(i, c, v):
        return [c, op.add(v, box['v'])]
    outs2 = op.loop(op.const(3), v_initial=[outs[0]], body=body2)
    m = build({'x': x}, {'y': outs2[0]})
    show(m.graph)
    return "built?!"
attempt("argleak_sibling", argleak_sibling)
print("=== C07 multi-output value prop")
def multi():
    a = op.const(np.array([3,1,2,5,4], np.int64))
    v, i = op.top_k(a, op.const([2]))
    print(v._value, i._value)
    s1, s2 = op.split(op.const(np.arange(6, dtype=np.float32)), op.const([2,4]), outputs_count=2)
    print(s1._value, s2._value)
    u = op.unique(op.const(np.array([2,1,1,3], np.int64)))
    print([x._value for x in u])
multi()
