import warnings, numpy as np, onnx, sys
warnings.simplefilter("ignore")
import spox
from spox import argument, build, inline, Tensor, Var
import spox.opset.ai.onnx.v17 as op
import spox._future as fut
import spox._node, spox._value_prop
import onnxruntime as ort

def run(model, **kw):
    s = ort.InferenceSession(model.SerializeToString())
    return s.run(None, kw)

print("=== C16 settings restore on exception")
for name, cm, getter in [
    ("type_warning_level", lambda: fut.type_warning_level(fut.TypeWarningLevel.NONE), lambda: spox._node._TYPE_WARNING_LEVEL),
    ("value_prop_backend", lambda: fut.value_prop_backend(fut.ValuePropBackend.NONE), lambda: spox._value_prop._VALUE_PROP_BACKEND),
    ("operator_overloading", lambda: fut.operator_overloading(op), lambda: type(Var._operator_dispatcher).__name__),
]:
    before = getter()
    try:
        with cm():
            raise KeyError("x")
    except KeyError: pass
    after = getter()
    print(name, before, after, "RESTORED" if before == after else "LEAKED")
# reset
spox._node._TYPE_WARNING_LEVEL = fut.TypeWarningLevel.INITIAL
spox._value_prop._VALUE_PROP_BACKEND = fut.ValuePropBackend.REFERENCE
from spox._var import NotImplementedOperatorDispatcher
Var._operator_dispatcher = NotImplementedOperatorDispatcher()

print("=== C17 int floordiv")
a = argument(Tensor(np.int64, ())); b = argument(Tensor(np.int64, ()))
with fut.operator_overloading(op, type_promotion=True):
    c = a // b
m = build({'a': a, 'b': b}, {'c': c})
print("spox -7//2 =", run(m, a=np.array(-7), b=np.array(2)), "numpy", np.array(-7)//np.array(2))

print("=== C03 drop_unused_inputs order")
xs = [argument(Tensor(np.float32, ())) for _ in range(6)]
s = op.add(xs[4], op.add(xs[1], xs[3]))
m = build({f"x{i}": x for i, x in enumerate(xs)}, {'s': s}, drop_unused_inputs=True)
print([i.name for i in m.graph.input])

print("=== C13 alias dtype")
for alias in [np.longlong, np.ulonglong, np.intc, np.double, np.single, 'int64', int, float, bool, str, np.str_, np.bool_, np.long if hasattr(np,'long') else None]:
    if alias is None: continue
    try:
        t = Tensor(alias, (1,))
        rt = spox._type_system.Type._from_onnx(t._to_onnx())
        print(alias, t, "roundtrip-eq", rt == t, 'elem', t._elem_type, rt._elem_type)
    except Exception as e:
        print(alias, "ERR", type(e).__name__, e)
