import warnings, numpy as np
warnings.simplefilter("ignore")
import spox.opset.ai.onnx.v17 as op
import spox._value_prop as vp
a = op.const(np.array([1,2], np.int64))
orig = vp._run_reference_implementation
vp._run_reference_implementation = lambda m, f: {m.graph.output[0].name: [np.array([1.5, 2.5, 3.5]), np.array(["x"])]}
s2 = op.sequence_construct([a, a])
vp._run_reference_implementation = orig
print("faulty seq:", s2.type, s2._value)
vp._run_reference_implementation = lambda m, f: {m.graph.output[0].name: np.array([1.5])}
o2 = op.optional(a)
vp._run_reference_implementation = orig
print("faulty optional:", o2.type, o2._value)
e = op.sequence_at(s2, op.const(0))
print("downstream of faulty seq:", e.type, e._value)
