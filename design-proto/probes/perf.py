import warnings, time, numpy as np, onnx
warnings.simplefilter("ignore")
from spox import argument, build, Tensor
import spox.opset.ai.onnx.v17 as op
import onnxruntime as ort
import spox._future as fut
def prog(n):
    x = argument(Tensor(np.float32, (2,))); c = argument(Tensor(np.bool_, ()))
    v = x
    for i in range(n):
        if i % 5 == 4:
            vv = v
            v = op.if_(c, then_branch=lambda: [op.add(vv, x)], else_branch=lambda: [op.neg(vv)])[0]
        else:
            v = op.add(op.mul(v, x), x)
    return x, c, v
t=time.time(); N=50
for _ in range(N): x,c,v = prog(20)
t1=time.time()-t
t=time.time()
for _ in range(N): m = build({'x':x,'c':c},{'v':v})
t2=time.time()-t
so = ort.SessionOptions(); so.log_severity_level=3
t=time.time()
for _ in range(N): s = ort.InferenceSession(m.SerializeToString(), so); s.run(None, {'x': np.ones(2,np.float32), 'c': np.array(True)})
t3=time.time()-t
t=time.time()
for _ in range(N): onnx.checker.check_model(m, full_check=True)
t4=time.time()-t
print(f"construct(20 ops+4 ifs) {t1/N*1000:.1f} ms; build {t2/N*1000:.1f} ms; ort load+run {t3/N*1000:.1f} ms; full check {t4/N*1000:.1f} ms; nodes {len(m.graph.node)}")
with fut.value_prop_backend(fut.ValuePropBackend.NONE):
    t=time.time()
    for _ in range(N): x,c,v = prog(20)
    print(f"construct w/o valueprop {(time.time()-t)/N*1000:.1f} ms")
