import warnings, importlib, dataclasses, inspect, typing
warnings.simplefilter("ignore")
import numpy as np, onnx
from spox._schemas import SCHEMAS
from spox._fields import VarFieldKind
from spox._standard import StandardNode
from spox import _attributes as A
mods = {"ai.onnx": [17,18,19,20,21], "ai.onnx.ml": [3,4,5]}
KIND = {onnx.defs.OpSchema.FormalParameterOption.Single: VarFieldKind.SINGLE, onnx.defs.OpSchema.FormalParameterOption.Optional: VarFieldKind.OPTIONAL, onnx.defs.OpSchema.FormalParameterOption.Variadic: VarFieldKind.VARIADIC}
AT = onnx.defs.OpSchema.AttrType
ATTRK = {AT.FLOAT: A.AttrFloat32, AT.INT: A.AttrInt64, AT.STRING: A.AttrString, AT.TENSOR: A.AttrTensor, AT.GRAPH: A.AttrGraph, AT.TYPE_PROTO: A.AttrType, AT.FLOATS: A.AttrFloat32s, AT.INTS: A.AttrInt64s, AT.STRINGS: A.AttrStrings, AT.TENSORS: A.AttrTensors, AT.SPARSE_TENSOR: None}
total = 0; issues = []
for dom, vers in mods.items():
    for v in vers:
        m = importlib.import_module(f"spox.opset.{dom}.v{v}")
        ops = m._OPERATORS; cons = m._CONSTRUCTORS
        d = "" if dom == "ai.onnx" else dom
        schemas = SCHEMAS[d][v]
        # every non-deprecated schema present?
        missing = [n for n, s in schemas.items() if not s.deprecated and n not in ops]
        extra = [n for n in ops if n not in schemas]
        if missing or extra: issues.append((dom, v, "missing", missing, "extra", extra))
        for name, cls in ops.items():
            total += 1
            s = schemas.get(name)
            if s is None: continue
            ot = cls.op_type
            if (ot.identifier, ot.domain, ot.version) != (s.name, s.domain, s.since_version):
                issues.append((dom, v, name, "op_type", ot, s.since_version))
            ins = [(f.name, cls.Inputs._get_field_type(f)) for f in dataclasses.fields(cls.Inputs)]
            sins = [(p.name, KIND[p.option]) for p in s.inputs]
            if ins != sins: issues.append((dom, v, name, "inputs", ins, sins))
            outs = [(f.name, cls.Outputs._get_field_type(f)) for f in dataclasses.fields(cls.Outputs)]
            souts = [(p.name, KIND[p.option]) for p in s.outputs]
            if outs != souts: issues.append((dom, v, name, "outputs", outs, souts))
            hints = typing.get_type_hints(cls.Attributes, vars(m) | vars(typing))
            an = {f.name for f in dataclasses.fields(cls.Attributes)}
            sn = set(s.attributes)
            if an != sn: issues.append((dom, v, name, "attrs", sorted(an - sn), sorted(sn - an)))
print("pairs", total)
for i in issues: print(i)
