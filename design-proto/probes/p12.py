import onnx, numpy as np
from onnx import helper as h, TensorProto as TP
import onnxruntime as ort
then_g = h.make_graph([h.make_node("Abs", ["x"], ["v"]), h.make_node("Identity", ["v"], ["t_out"])], "then", [], [h.make_tensor_value_info("t_out", TP.FLOAT, [2])])
else_g = h.make_graph([h.make_node("Neg", ["x"], ["e_out"])], "else", [], [h.make_tensor_value_info("e_out", TP.FLOAT, [2])])
g = h.make_graph([h.make_node("Exp", ["x"], ["v"]), h.make_node("If", ["c"], ["r"], then_branch=then_g, else_branch=else_g), h.make_node("Add", ["r", "v"], ["y"])], "g",
   [h.make_tensor_value_info("x", TP.FLOAT, [2]), h.make_tensor_value_info("c", TP.BOOL, [])], [h.make_tensor_value_info("y", TP.FLOAT, [2])])
m = h.make_model(g, opset_imports=[h.make_operatorsetid("", 17)], ir_version=8)
for full in (False, True):
    try: onnx.checker.check_model(m, full_check=full); print("checker ok full=", full)
    except Exception as e: print("checker", full, str(e)[:200])
try:
    s = ort.InferenceSession(m.SerializeToString()); print(s.run(None, {"x": np.array([1,-2],np.float32), "c": np.array(True)}))
except Exception as e: print("ort", str(e)[:300])
