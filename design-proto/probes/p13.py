import warnings, numpy as np, onnx
warnings.simplefilter("ignore")
from spox import argument, Tensor
import spox.opset.ai.onnx.v17 as op
from spox._graph import results
from spox._build import Builder
x = argument(Tensor(np.float32, (2,))); c = argument(Tensor(np.bool_, ()))
e = op.exp(x)                      # used only in innermost then-branch and in sibling else
def inner_then(): return [op.add(e, x)]
def outer_then(): return op.if_(c, then_branch=inner_then, else_branch=lambda: [x])
r = op.if_(c, then_branch=outer_then, else_branch=lambda: [op.neg(e)])
y = op.add(r[0], x)
g = results(y=y).with_arguments(x, c)
b = Builder(g); res = b.build_main()
names = res.scope.node.name_of
def gname(gr):
    if gr is b.main: return "main"
    o = b.scope_tree.subgraph_owner[gr]
    key = [k for k, a in o.attrs.get_fields().items() if a is not None and getattr(a, 'value', None) is gr][0]
    return f"{names[o]}.{key}"
print("graph_topo:", [gname(gr) for gr in b.graph_topo])
for nd, gr in b.scope_tree.scope_of.items():
    print(f"  scope_of[{names.get(nd, type(nd).__name__)}] = {gname(gr)}")
for gr, lst in b.scope_own.items():
    print("scope_own", gname(gr), [names.get(n) for n in lst])
print("arguments_of", {gname(k): [res.scope.var.name_of[v] for v in vs] for k, vs in b.arguments_of.items()})
