import warnings; warnings.simplefilter("ignore")
import numpy as np, onnx
from spox import Tensor
from spox._utils import dtype_to_tensor_type, tensor_type_to_dtype
classes = sorted({v for v in np.sctypeDict.values()}, key=lambda c: c.__name__)
print(len(classes), [c.__name__ for c in classes])
for c in classes:
    try:
        t = Tensor(c); e = dtype_to_tensor_type(c)
        print(f"{c.__name__:12s} -> elem {t._elem_type.__name__:12s} onnx {e:3d} back {tensor_type_to_dtype(e)}  is-canon {t._elem_type is np.dtype(tensor_type_to_dtype(e)).type}")
    except Exception as ex:
        print(f"{c.__name__:12s} REFUSED {type(ex).__name__}")
for e in range(0, 24):
    try: print(e, onnx.TensorProto.DataType.Name(e), tensor_type_to_dtype(e))
    except Exception as ex: print(e, "ERR", type(ex).__name__, str(ex)[:60])
print("=== result_type / truediv")
import itertools
for a in [np.int8, np.uint8, np.int32, np.float16, np.float32]:
    arr = np.ones(2, a)
    print(a.__name__, (arr/arr).dtype, (arr//arr).dtype, (arr/2).dtype, (arr+2.5).dtype, np.result_type(arr.dtype, 2.5))
print("=== f16 exhaustive roundtrip via spox.from_array")
from spox._utils import from_array
allbits = np.arange(65536, dtype=np.uint16).view(np.float16)
tp = from_array(allbits, "x")
back = onnx.numpy_helper.to_array(tp)
print("f16 bit-exact:", back.view(np.uint16).tolist() == allbits.view(np.uint16).tolist())
f32 = np.array([0x7fc00000, 0x7f800001, 0xffc00001, 0x80000000, 0x00000001, 0x7fa00000], dtype=np.uint32).view(np.float32)
b32 = onnx.numpy_helper.to_array(from_array(f32, "y"))
print([hex(x) for x in b32.view(np.uint32)])
i8 = np.arange(-128,128,dtype=np.int8); print("i8", (onnx.numpy_helper.to_array(from_array(i8))==i8).all())
u64 = np.array([2**64-1, 2**63, 0], np.uint64); print("u64", onnx.numpy_helper.to_array(from_array(u64)).tolist())
