import warnings, importlib, dataclasses, inspect, typing, ast, sys
warnings.simplefilter("ignore")
import numpy as np, onnx
from spox._schemas import SCHEMAS
mods = {"ai.onnx": [17,18,19,20,21], "ai.onnx.ml": [3,4,5]}
AT = onnx.defs.OpSchema.AttrType
issues=[]; n=0; nattr=0
import re
def snake(name):  # not needed
    return name
for dom, vers in mods.items():
    for v in vers:
        m = importlib.import_module(f"spox.opset.{dom}.v{v}")
        d = "" if dom == "ai.onnx" else dom
        schemas = SCHEMAS[d][v]
        inv = {}
        for cname, fn in m._CONSTRUCTORS.items():
            inv.setdefault(fn, []).append(cname)
        for opname, cls in m._OPERATORS.items():
            s = schemas[opname]
            fn = m._CONSTRUCTORS[opname]
            sig = inspect.signature(fn)
            n += 1
            for aname, a in s.attributes.items():
                if aname not in sig.parameters:
                    issues.append((dom, v, opname, aname, "no-param")); continue
                nattr += 1
                p = sig.parameters[aname]
                hasdef = a.default_value is not None and a.default_value.type != 0
                if a.type == AT.GRAPH: continue
                if a.required:
                    if p.default is not inspect._empty:
                        issues.append((dom, v, opname, aname, "required-but-default", p.default))
                else:
                    if p.default is inspect._empty:
                        issues.append((dom, v, opname, aname, "optional-but-no-default"))
                    elif hasdef:
                        dv = onnx.helper.get_attribute_value(a.default_value)
                        if isinstance(dv, bytes): dv = dv.decode()
                        pd = p.default
                        if isinstance(dv, float):
                            ok = pd is not None and np.float32(pd) == np.float32(dv)
                        elif isinstance(dv, list):
                            ok = pd is not None and list(pd) == [x.decode() if isinstance(x, bytes) else x for x in dv]
                        else:
                            ok = pd == dv
                        if not ok:
                            issues.append((dom, v, opname, aname, "default-mismatch", pd, dv))
                    else:
                        if p.default is not None:
                            issues.append((dom, v, opname, aname, "default-but-schema-none", p.default))
print(n, nattr)
from collections import Counter
print(Counter(i[4] for i in issues))
for i in issues[:60]: print(i)
