import warnings, numpy as np, onnx
warnings.simplefilter("ignore")
from spox import argument, build, inline, Tensor
import spox.opset.ai.onnx.v17 as op
a = argument(Tensor(np.float32, (2,)))
m = build({'a': a}, {'b': op.add(a, a)})
z = argument(Tensor(np.float32, (2,))); w = argument(Tensor(np.float32, (2,)))
try:
    r = inline(m)(z, w); print("extra positional accepted:", r)
except Exception as e: print("EXC", type(e).__name__, e)
try:
    r = inline(m)(z, q=w); print("unknown kw accepted:", r)
except Exception as e: print("EXC", type(e).__name__, e)
try:
    r = inline(m)(); print("missing accepted", r)
except Exception as e: print("EXC", type(e).__name__, e)
try:
    r = inline(m)(z, a=w); print("dup accepted", r)
except Exception as e: print("EXC", type(e).__name__, e)
i64 = argument(Tensor(np.int64, (2,)))
try:
    r = inline(m)(i64); print("wrong type accepted", r)
except Exception as e: print("EXC", type(e).__name__, e)
