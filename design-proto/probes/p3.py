import warnings, numpy as np, onnx, sys, traceback
warnings.simplefilter("ignore")
import spox
from spox import argument, build, inline, Tensor, Var
import spox.opset.ai.onnx.v17 as op
import spox.opset.ai.onnx.v18 as op18
import spox.opset.ai.onnx.v19 as op19
import spox.opset.ai.onnx.v20 as op20
import spox.opset.ai.onnx.v21 as op21
import onnxruntime as ort
def run(model, **kw):
    s = ort.InferenceSession(model.SerializeToString())
    return s.run(None, kw)
def attempt(name, f):
    try:
        r = f(); print(name, "OK", r)
    except Exception as e:
        print(name, "EXC", type(e).__name__, str(e)[:400])

print("=== C08 pass-through output")
def passthrough():
    a = argument(Tensor(np.float32, (2,)))
    inner = build({'a': a}, {'b': op.add(a, a)})
    # hand-build model where output is directly an input
    g = onnx.helper.make_graph([onnx.helper.make_node("Add", ["x","x"], ["y"])], "g",
        [onnx.helper.make_tensor_value_info("x", onnx.TensorProto.FLOAT, [2])],
        [onnx.helper.make_tensor_value_info("y", onnx.TensorProto.FLOAT, [2]), onnx.helper.make_tensor_value_info("x", onnx.TensorProto.FLOAT, [2])])
    m = onnx.helper.make_model(g, opset_imports=[onnx.helper.make_operatorsetid("", 17)])
    onnx.checker.check_model(m, full_check=True)
    z = argument(Tensor(np.float32, (2,)))
    outs = inline(m)(z)
    mm = build({'z': z}, {'y': outs['y'], 'x2': outs['x']})
    return run(mm, z=np.ones(2, np.float32))
attempt("passthrough", passthrough)

def init_output():
    g = onnx.helper.make_graph([onnx.helper.make_node("Add", ["x","w"], ["y"])], "g",
        [onnx.helper.make_tensor_value_info("x", onnx.TensorProto.FLOAT, [2])],
        [onnx.helper.make_tensor_value_info("y", onnx.TensorProto.FLOAT, [2]), onnx.helper.make_tensor_value_info("w", onnx.TensorProto.FLOAT, [2])],
        initializer=[onnx.numpy_helper.from_array(np.array([1,2],np.float32), "w")])
    m = onnx.helper.make_model(g, opset_imports=[onnx.helper.make_operatorsetid("", 17)])
    onnx.checker.check_model(m, full_check=True)
    z = argument(Tensor(np.float32, (2,)))
    outs = inline(m)(z)
    mm = build({'z': z}, {'y': outs['y'], 'w2': outs['w']})
    return run(mm, z=np.ones(2, np.float32))
attempt("init_output", init_output)

print("=== C09 two converted nodes")
def twoconv():
    x = argument(Tensor(np.float32, (2,3)))
    a = op.reduce_sum(x, op.const([1]), keepdims=0)   # v13 ReduceSum - unchanged
    r1 = op.reduce_mean(x, axes=[1])   # v17: axes attr; v18: axes input
    r2 = op.reduce_max(x, axes=[0])
    y = op18.add(r1, op18.reduce_mean(x, op18.const([1]), keepdims=0))
    m = build({'x': x}, {'y': y, 'r2': r2})
    return [ (n.op_type, list(n.input), list(n.output)) for n in m.graph.node]
attempt("twoconv", twoconv)
def conv_in_body():
    x = argument(Tensor(np.float32, (2,3)))
    c = argument(Tensor(np.bool_, ()))
    r = op.if_(c, then_branch=lambda: [op.reduce_mean(x, axes=[1])], else_branch=lambda: [op18.reduce_mean(x, op18.const([1]))])
    m = build({'x': x, 'c': c}, {'y': r[0]})
    onnx.checker.check_model(m, full_check=True)
    return run(m, x=np.ones((2,3),np.float32), c=np.array(True))
attempt("conv_in_body", conv_in_body)
def conv_unknown_rank():
    x = argument(Tensor(np.float32, (2,3)))
    s = argument(Tensor(np.int64, (None,)))
    t = op.reshape(x, s)  # unknown rank
    r = op.reduce_mean(t, axes=[0])
    y = op18.identity(r)
    print(t.type, r.type)
    m = build({'x': x, 's': s}, {'y': op.reshape(y, op.const([-1]))})
    return [(n.op_type) for n in m.graph.node]
attempt("conv_unknown_rank", conv_unknown_rank)
def min13():
    x = argument(Tensor(np.float32, (2,)))
    m = build({'x': x}, {'y': op.abs(x)})
    return [(o.domain, o.version) for o in m.opset_import]
attempt("opsets", min13)

print("=== C02 full check of ordinary builds")
def fullcheck():
    x = argument(Tensor(np.float32, ('N',3)))
    y = op.matmul(x, op.const(np.ones((3,2),np.float32)))
    m = build({'x': x}, {'y': y})
    onnx.checker.check_model(m, full_check=True)
    onnx.shape_inference.infer_shapes(m, check_type=True, strict_mode=True, data_prop=True)
    return "ok"
attempt("fullcheck", fullcheck)
def name_clash():
    x = argument(Tensor(np.float32, (2,)))
    m = build({'x': x}, {'y': op.add(x, op.abs(x))})
    names = [o for n in m.graph.node for o in n.output]
    print(names)
    x2 = argument(Tensor(np.float32, (2,)))
    m2 = build({names[0]: x2}, {'y': op.add(x2, op.abs(x2))})
    onnx.checker.check_model(m2, full_check=True)
    return [ (n.op_type, list(n.input), list(n.output)) for n in m2.graph.node]
attempt("name_clash", name_clash)
def out_name_clash():
    x = argument(Tensor(np.float32, (2,)))
    m2 = build({'x': x}, {'Abs_0_Y': op.add(x, op.abs(x))})
    onnx.checker.check_model(m2, full_check=True)
    return [ (n.op_type, list(n.input), list(n.output)) for n in m2.graph.node]
attempt("out_name_clash", out_name_clash)
