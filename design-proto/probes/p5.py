import warnings, numpy as np, onnx, sys, traceback, hashlib
warnings.simplefilter("ignore")
import spox
from spox import argument, build, inline, Tensor, Var
import spox.opset.ai.onnx.v17 as op
import spox.opset.ai.onnx.v18 as op18
from spox._function import to_function
import onnxruntime as ort
def run(model, **kw):
    s = ort.InferenceSession(model.SerializeToString())
    return s.run(None, kw)
def attempt(name, f):
    try:
        r = f(); print(name, "OK", r)
    except Exception as e:
        print(name, "EXC", type(e).__name__, str(e)[:400])

print("=== C12 determinism + history")
def prog():
    x = argument(Tensor(np.float32, (2,))); c = argument(Tensor(np.bool_, ()))
    e = op.exp(x)
    r = op.if_(c, then_branch=lambda: [op.add(e, x)], else_branch=lambda: [op.neg(e)])
    s = op.add(r[0], op.const(np.float32(2)))
    return x, c, s
x, c, s = prog()
m1 = build({'x': x, 'c': c}, {'s': s})
x2, c2, s2 = prog()
_ = build({'q': x2, 'c': c2}, {'t': op.abs(s2)})
m2 = build({'x': x, 'c': c}, {'s': s})
x3, c3, s3 = prog()
m3 = build({'x': x3, 'c': c3}, {'s': s3})
h = lambda m: hashlib.sha256(m.SerializeToString(deterministic=True)).hexdigest()[:12]
print(h(m1), h(m2), h(m3), x._name, s._name)
# failing build leaves names?
y = argument(Tensor(np.float32, (2,)))
try:
    build({'x': x}, {'s': op.add(x, y)})
except Exception as e: print("fail build:", type(e).__name__, e)
print("names after failed", x._name, y._name)

print("=== C14 functions")
@to_function("f", "dom")
def f(a, b):
    return [op.add(op.mul(a, a), b)]
def fn():
    x = argument(Tensor(np.float32, (2,)))
    (y,) = f(x, x); (z,) = f(y, x)
    m = build({'x': x}, {'z': z})
    return len(m.functions), [ (o.domain,o.version) for o in m.functions[0].opset_import], run(m, x=np.array([1,2],np.float32))
attempt("fn", fn)
cnt = [0]
@to_function("g", "dom")
def g(a):
    cnt[0] += 1
    return [op.add(a, op.const(np.float32(cnt[0])))] 
def fvary():
    x = argument(Tensor(np.float32, (2,)))
    (y,) = g(x); (z,) = g(y)
    m = build({'x': x}, {'z': z})
    return "built", cnt
attempt("fvary", fvary)
def fn_in_body():
    x = argument(Tensor(np.float32, (2,))); c = argument(Tensor(np.bool_, ()))
    r = op.if_(c, then_branch=lambda: f(x, x), else_branch=lambda: [x])
    m = build({'x': x, 'c': c}, {'z': r[0]})
    return len(m.functions), run(m, x=np.array([1,2],np.float32), c=np.array(True))
attempt("fn_in_body", fn_in_body)
def fn_mixed():
    @to_function("h", "dom")
    def h(a):
        return [op18.reduce_mean(op.reduce_mean(a, axes=[0]), op18.const([0]))]
    x = argument(Tensor(np.float32, (2,3)))
    (y,) = h(x)
    m = build({'x': x}, {'z': y})
    onnx.checker.check_model(m, full_check=True)
    return [(o.domain,o.version) for o in m.functions[0].opset_import], [(n.op_type, [a.name for a in n.attribute]) for n in m.functions[0].node], run(m, x=np.ones((2,3),np.float32))
attempt("fn_mixed", fn_mixed)

print("=== C10 bit exact")
def bits():
    out = {}
    for arr in [np.array([np.nan, -0.0, np.inf, 1e-45], np.float32), np.array(2**64-1, np.uint64), np.array([], np.int8), np.array(["ü","日本"]), np.array([-0.0, np.nan], np.float16), np.array([1+2j], np.complex64), np.array([True, False]), np.array(5, np.uint16)]:
        v = op.const(arr)
        m = build({}, {'v': v})
        cn = [n for n in m.graph.node if n.op_type == "Constant"][0]
        back = onnx.numpy_helper.to_array(cn.attribute[0].t)
        same = back.dtype == arr.dtype or arr.dtype.kind == 'U'
        eqb = back.tobytes() == arr.tobytes() if arr.dtype.kind != 'U' else list(back.flatten()) == list(arr.flatten())
        print(arr.dtype, arr.shape, back.shape, same, eqb, v.type)
attempt("bits", bits)
