import warnings, numpy as np, onnx
warnings.simplefilter("ignore")
from spox import argument, build, inline, Tensor, Var
import spox.opset.ai.onnx.v17 as op
from spox._function import to_function
@to_function("f", "dom")
def f(a, b):
    return [op.add(op.mul(a, a), b)]
x = argument(Tensor(np.float32, (2,))); c = argument(Tensor(np.bool_, ()))
r = op.if_(c, then_branch=lambda: f(x, x), else_branch=lambda: [x])
m = build({'x': x, 'c': c}, {'z': r[0]})
print(len(m.functions), [(o.domain,o.version) for o in m.opset_import])
try:
    onnx.checker.check_model(m, full_check=True); print("full check passed")
except Exception as e: print("full check:", str(e)[:300])
