import warnings, numpy as np, onnx
warnings.simplefilter("ignore")
from spox import argument, build, inline, Tensor, Var
import spox.opset.ai.onnx.v17 as op
import spox._value_prop as vp, spox._standard as st
def attempt(name, f):
    try:
        r = f(); print(name, "OK", r)
    except BaseException as e:
        print(name, "EXC", type(e).__name__, str(e)[:300])
print("=== C12 same var under two names")
x = argument(Tensor(np.float32, (2,)))
attempt("dup", lambda: build({'a': x, 'b': x}, {'y': op.abs(x)}) and "built")
print("name after:", x._name)
print("=== C15 faults")
orig = vp._run_reference_implementation
def inject(ret):
    def fake(model, feed):
        if callable(ret): return ret(model, feed)
        return ret
    return fake
def mk():
    a = op.const(np.array([1,2,3], np.int64))
    b = op.add(a, a)
    return b.type, b._value
junks = {
 'list2': lambda m,f: {m.graph.output[0].name: [np.array(1), np.array(2)]},
 'none': lambda m,f: {m.graph.output[0].name: None},
 'scalar': lambda m,f: {m.graph.output[0].name: 3.0},
 'wrongdtype': lambda m,f: {m.graph.output[0].name: np.array([1.,2.,3.])},
 'wrongshape': lambda m,f: {m.graph.output[0].name: np.array([1,2])},
 'unknownname': lambda m,f: {'zzz': np.array([1,2])},
 'empty': lambda m,f: {},
 'str': lambda m,f: {m.graph.output[0].name: "abc"},
 'objarr': lambda m,f: {m.graph.output[0].name: np.array([None, 1], dtype=object)},
}
for k, j in junks.items():
    vp._run_reference_implementation = inject(j)
    attempt(k, mk)
vp._run_reference_implementation = orig
# exception inside ReferenceEvaluator is caught; what about BaseException-derived? skip
print("=== C05 repeated var")
y = op.add(x, x); print(y.type)
m, sc = y._op.to_singleton_onnx_model()
print([i.name for i in m.graph.input], list(m.graph.node[0].input))
