import Lean.Data.Json
import SpoxModel.Drv.C01
import SpoxModel.Drv.C02
import SpoxModel.Drv.C03
import SpoxModel.Drv.C04
import SpoxModel.Drv.C05
import SpoxModel.Drv.C06
import SpoxModel.Drv.C07
import SpoxModel.Drv.C08
import SpoxModel.Drv.C09
import SpoxModel.Drv.C10
import SpoxModel.Drv.C11
import SpoxModel.Drv.C12
import SpoxModel.Drv.C13
import SpoxModel.Drv.C14
import SpoxModel.Drv.C15
import SpoxModel.Drv.C16
import SpoxModel.Drv.C17
import SpoxModel.Drv.C18
import SpoxModel.Drv.C19
/-!
Line-protocol driver. Each input line is `<KEY> <json>`; the answer is one line of JSON.
`KEY` selects the property handler. The Python harness pipes the same cases to the real
implementation and diffs the canonicalised outputs.
-/
open Lean

def dispatch (key : String) (req : Json) : Json :=
  match key with
  | "C01" => Drv.C01.handle req | "C02" => Drv.C02.handle req | "C03" => Drv.C03.handle req
  | "C04" => Drv.C04.handle req | "C05" => Drv.C05.handle req | "C06" => Drv.C06.handle req
  | "C07" => Drv.C07.handle req | "C08" => Drv.C08.handle req | "C09" => Drv.C09.handle req
  | "C10" => Drv.C10.handle req | "C11" => Drv.C11.handle req | "C12" => Drv.C12.handle req
  | "C13" => Drv.C13.handle req | "C14" => Drv.C14.handle req | "C15" => Drv.C15.handle req
  | "C16" => Drv.C16.handle req | "C17" => Drv.C17.handle req | "C18" => Drv.C18.handle req
  | "C19" => Drv.C19.handle req
  | _ => Json.mkObj [("error", "unknown-key")]

partial def loop (hin hout : IO.FS.Stream) : IO Unit := do
  let line ← hin.getLine
  if line.isEmpty then return ()
  let line := line.trimAscii.toString
  if line.isEmpty then loop hin hout else
  let (key, rest) := match line.splitOn " " with
    | k :: r => (k, " ".intercalate r)
    | [] => ("", "")
  let out := match Json.parse rest with
    | .ok j => dispatch key j
    | .error e => Json.mkObj [("error", Json.str s!"bad-json: {e}")]
  hout.putStrLn out.compress
  hout.flush
  loop hin hout

def main : IO Unit := do
  loop (← IO.getStdin) (← IO.getStdout)
