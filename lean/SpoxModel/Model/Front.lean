import SpoxModel.Model.Renames
/-!
# The front end of `spox.build` (C03, C12)

`_public.build`: type checks, `_temporary_renames`, `results(**outputs)[.with_arguments(*inputs)]`,
the argument sets computed by `Builder.discover` (`all_arguments`, `claimed_arguments`,
`used_arguments`, the three `BuildError` checks), the naming of arguments and results in
`compile_graph`, the value infos emitted by `Graph.to_onnx`, the post-hoc missing-input test and
(after the fix) the re-ordering of the surviving inputs with `drop_unused_inputs=True`.

A program is a list of objects, **newest first**; the identity of an object is the number of older
objects (its creation index). Every reference inside an object points to an older object, so all
definitions are structurally recursive on the list. Python `set` iteration order is the explicit
parameter `π` (any function returning a permutation of its argument).

Core Lean only (the driver links this file).
-/
namespace Front
open Renames (Store Outcome)

/-- A subgraph held by a node: its formal arguments (`requested_arguments`) and its results. -/
structure Body where
  formals : List Nat
  results : List Nat
deriving Repr

/-- Anything that can be put into the `inputs` / `outputs` dictionaries, seen from `build`. -/
structure Obj where
  isVar : Bool           -- `isinstance(obj, Var)`
  isArg : Bool           -- `isinstance(obj._op, Argument)`
  ty : String            -- the Var's type (opaque token: element type and dimensions)
  deps : List Nat        -- input edges of the Var's node
  subs : List Body       -- subgraph attributes of the Var's node
deriving Repr

/-- What `discover` knows about the part of the program reachable from some Vars. -/
structure Info where
  all : List Nat         -- `all_arguments`
  claimed : List Nat     -- `claimed_arguments`
  used : List Nat        -- `used_arguments`: arguments reached by input edges only
  bad : Bool             -- a `BuildError` was raised below
deriving Repr

def Info.empty : Info := ⟨[], [], [], false⟩

/-- `t` lists the infos of the objects `t.length-1, …, 0`. -/
def look (t : List Info) (id : Nat) : Info :=
  if id < t.length then t.getD (t.length - 1 - id) Info.empty else Info.empty

def joinInfos (is : List Info) : Info :=
  ⟨is.flatMap (·.all), is.flatMap (·.claimed), is.flatMap (·.used), is.any (·.bad)⟩

/-- `discover(subgraph)` for a body with requested arguments `formals`. -/
def bodyInfo (t : List Info) (b : Body) : Info :=
  let j := joinInfos (b.results.map (look t))
  { all := j.all ++ b.formals
    claimed := j.claimed ++ b.formals
    used := j.used
    bad := j.bad || b.formals.any (fun a => j.claimed.contains a)      -- "already claimed"
             || j.claimed.any (fun a => j.used.contains a) }            -- "leaked"

/-- What the traversal started at object `id` collects (input edges; subgraphs when a node is left). -/
def objInfo (t : List Info) (id : Nat) (o : Obj) : Info :=
  let d := joinInfos (o.deps.map (look t))
  let s := o.subs.map (bodyInfo t)
  { all := (if o.isArg then [id] else []) ++ d.all ++ s.flatMap (·.all)
    claimed := d.claimed ++ s.flatMap (·.claimed)
    used := (if o.isArg then [id] else []) ++ d.used
    bad := d.bad || s.any (·.bad) }

def table : List Obj → List Info
  | [] => []
  | o :: older => objInfo (table older) older.length o :: table older

/-- Executable well-formedness: every reference inside an object points to an older object
    (`Lemmas/Reach.lean` proves `wfb P = true ↔ WF P`; the driver reports it for every program). -/
def wfb : List Obj → Bool
  | [] => true
  | o :: older =>
      o.deps.all (fun d => decide (d < older.length)) &&
      o.subs.all (fun b => b.results.all (fun r => decide (r < older.length)) &&
                           b.formals.all (fun f => decide (f < older.length))) &&
      wfb older

def getObj (P : List Obj) (id : Nat) : Option Obj :=
  if id < P.length then P[P.length - 1 - id]? else none

def isVar (P : List Obj) (id : Nat) : Bool := match getObj P id with | some o => o.isVar | none => false
def isArg (P : List Obj) (id : Nat) : Bool := match getObj P id with | some o => o.isVar && o.isArg | none => false
def tyOf (P : List Obj) (id : Nat) : String := match getObj P id with | some o => o.ty | none => ""

/-- One entry of the `inputs` / `outputs` dictionary. -/
structure Entry where
  name : String
  obj : Nat
deriving Repr, DecidableEq

structure Request where
  inputs : List Entry
  outputs : List Entry
  drop : Bool

/-- A `ValueInfoProto`: name and type. -/
structure VInfo where
  name : String
  ty : String
deriving Repr, DecidableEq

inductive Err | type | value | key | build | scope
deriving Repr, DecidableEq

/-- The observable part of the returned `ModelProto`. -/
structure Model where
  inputs : List VInfo
  outputs : List VInfo
  outVars : List Nat         -- the Var each graph output is an `Identity` of
deriving Repr, DecidableEq

def dedup : List Nat → List Nat
  | [] => []
  | a :: r => if r.contains a then dedup r else a :: dedup r

def hasDup : List Nat → Bool
  | [] => false
  | a :: r => r.contains a || hasDup r

/-- `discover(main)` for the requested outputs. -/
def mainInfo (P : List Obj) (outs : List Entry) : Info :=
  joinInfos (outs.map (fun e => look (table P) e.obj))

/-- `all_arguments - claimed_arguments` as a duplicate-free list (in *some* order). -/
def freeArgs (P : List Obj) (outs : List Entry) : List Nat :=
  let j := mainInfo P outs
  dedup (j.all.filter (fun a => !j.claimed.contains a))

/-- The part of `build` inside `with _temporary_renames(**inputs):`, run with the names `s`.
    `fixed = true` is the code after the `fix:` commit (surviving inputs in the given order). -/
def body (P : List Obj) (π : List Nat → List Nat) (fixed : Bool) (req : Request) (s : Store) :
    Except Err Model :=
  let j := mainInfo P req.outputs
  let free := freeArgs P req.outputs
  let argsOf := if req.drop then π free else req.inputs.map (·.obj)
  let keys := req.inputs.map (·.name)
  -- discover: BuildError
  if j.bad || argsOf.any (fun a => j.claimed.contains a) || j.claimed.any (fun a => j.used.contains a) then
    .error .build
  -- compile_graph: an argument node introduced twice
  else if hasDup argsOf then .error .scope
  -- compile_graph: a node uses an argument that is not in scope (`scope.var[...]`)
  else if free.any (fun a => !argsOf.contains a) then .error .key
  -- compile_graph: a result name is already taken by an argument
  else if req.outputs.any (fun e => argsOf.any (fun a => s a == some e.name)) then .error .scope
  -- build: "Model requires additional inputs"
  else if argsOf.any (fun a => match s a with | some n => !keys.contains n | none => true) then
    .error .key
  else
    let built := argsOf.map (fun a => (⟨(s a).getD "", tyOf P a⟩ : VInfo))
    let inputs := if req.drop && fixed
      then req.inputs.filterMap (fun e => built.find? (fun i => i.name == e.name))
      else built
    .ok { inputs := inputs
          outputs := req.outputs.map (fun e => ⟨e.name, tyOf P e.obj⟩)
          outVars := req.outputs.map (·.obj) }

def kwargs (req : Request) : List (String × Nat) := req.inputs.map (fun e => (e.name, e.obj))

/-- `spox.build(inputs, outputs, drop_unused_inputs=drop)` started with the Vars named as in `s`:
    the names afterwards and the result. `ir` is the IR of `_temporary_renames`. -/
def build (ir : List Renames.Stmt) (P : List Obj) (π : List Nat → List Nat) (fixed : Bool)
    (req : Request) (s : Store) : Store × Except Err Model :=
  if !req.inputs.all (fun e => isVar P e.obj) then (s, .error .type)
  else if !req.outputs.all (fun e => isVar P e.obj) then (s, .error .type)
  else if !req.inputs.all (fun e => isArg P e.obj) then (s, .error .type)
  else if req.outputs.isEmpty then (s, .error .value)
  else
    match Renames.run ir (kwargs req)
        (fun s' => let r := body P π fixed req s'
                   (s', (match r with | .ok _ => Outcome.ok | .error _ => Outcome.exn), r)) s with
    | (s1, _, some r) => (s1, r)
    | (s1, _, none) => (s1, .error .value)    -- the manager never reached its `yield`

end Front
