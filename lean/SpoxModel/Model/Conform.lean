import SpoxModel.Model.Emit
/-!
# C11 — operator classes / constructor functions vs. ONNX schemas

The data types the translator (`translator/constructors.py`) fills in from the *source text* of the
shipped opset modules (`Generated/Constructors_*.lean`) and from `onnx.defs`
(`Generated/Schemas_*.lean`), the conformance predicate `conformsTo` (decided per operator by the
kernel), and the model of a constructor call (`callAttrs`, `callInputs`). Core Lean only.

Attribute lists (class fields, wiring, schema attributes) are sorted by name by the translator:
NodeProto attribute order carries no meaning; input/output/parameter order is kept as written.
-/
namespace Conform

inductive FieldKind where | single | optional | variadic
  deriving Repr, DecidableEq, BEq, ReflBEq, LawfulBEq

/-- spox `Attr*` classes. -/
inductive AttrKind where
  | float | int | string | tensor | graph | type | floats | ints | strings | tensors | dtype
  | unknown
  deriving Repr, DecidableEq, BEq, ReflBEq, LawfulBEq

/-- `onnx.defs.OpSchema.AttrType`. -/
inductive SType where
  | FLOAT | INT | STRING | TENSOR | GRAPH | SPARSE_TENSOR | TYPE_PROTO
  | FLOATS | INTS | STRINGS | TENSORS | GRAPHS | SPARSE_TENSORS | TYPE_PROTOS | UNDEFINED
  deriving Repr, DecidableEq, BEq, ReflBEq, LawfulBEq

/-- Attribute values as far as defaults need them. Floats are IEEE-754 binary32 bit patterns. -/
inductive Val where
  | none                      -- Python `None` / no schema default
  | int (i : Int)
  | float (bits : Nat)
  | str (s : String)
  | ints (l : List Int)
  | floats (l : List Nat)
  | strs (l : List String)
  | dtype (name : String)     -- `np.float32` … (constructor side only)
  | other (src : String)      -- anything else (never equal to a schema default)
  deriving Repr, DecidableEq, BEq, ReflBEq, LawfulBEq

/-- `dtype_to_tensor_type` on the numpy scalar types that occur as constructor defaults
    (`TensorProto.DataType`). -/
def dtypeCode : String → Option Int
  | "float32" => some 1 | "uint8" => some 2 | "int8" => some 3 | "uint16" => some 4
  | "int16" => some 5 | "int32" => some 6 | "int64" => some 7 | "str_" => some 8
  | "bool_" => some 9 | "float16" => some 10 | "float64" => some 11 | "uint32" => some 12
  | "uint64" => some 13 | "complex64" => some 14 | "complex128" => some 15
  | _ => Option.none

/-- What `Attr*._to_onnx` stores for a value (only the dtype kind transforms it). -/
def encode (k : AttrKind) (v : Val) : Val :=
  match k, v with
  | .dtype, .dtype n => match dtypeCode n with
      | some c => .int c
      | Option.none => .other n
  | _, v => v

structure AttrField where
  name : String
  kind : AttrKind
  optional : Bool
  deriving Repr, DecidableEq, BEq, ReflBEq, LawfulBEq

/-- An operator class (`class _X(StandardNode)`). -/
structure ClassSig where
  pyName : String
  base : String
  opName : String
  domain : String
  version : Nat
  inputs : List (String × FieldKind)
  outputs : List (String × FieldKind)
  attrs : List AttrField            -- sorted by name
  deriving Repr

inductive PKind where
  | var | optVar | seqVar           -- `Var`, `Optional[Var]`, `Sequence[Var]`
  | callback                        -- `Callable[..., Iterable[Var]]`
  | attr                            -- any attribute-valued annotation
  deriving Repr, DecidableEq, BEq, ReflBEq, LawfulBEq

structure Param where
  name : String
  kwOnly : Bool
  kind : PKind
  /-- `Option.none` = no default (required); `some .none` = default `None`. -/
  default : Option Val
  deriving Repr

/-- `field=AttrX[.maybe](src, name="onnxName")` inside `_X.Attributes(...)`. -/
structure AttrWire where
  field : String
  kind : AttrKind
  maybe : Bool
  onnxName : String
  /-- parameter the value comes from (directly, or through `subgraph(..., param)`) -/
  param : String
  viaSubgraph : Bool
  deriving Repr

/-- `out_variadic=` of the node call. -/
inductive OutVar where
  | none
  | param (p : String)                         -- `Split`: an output-count parameter
  | lenResults (attr : String) (minus : Nat)   -- control flow: `len(_<attr>_subgraph.requested_results) - k`
  | other (src : String)
  deriving Repr, DecidableEq, BEq, ReflBEq, LawfulBEq

/-- What the constructor returns. -/
inductive Ret where
  | field (f : String)      -- `.outputs.<f>`
  | unpack                  -- `.outputs._unpack_to_any()`
  | other (src : String)
  deriving Repr, DecidableEq, BEq, ReflBEq, LawfulBEq

/-- A constructor function together with the class it instantiates. -/
structure Ctor where
  pyName : String
  cls : ClassSig
  params : List Param                      -- in signature order
  attrWires : List AttrWire                -- sorted by field
  inputWires : List (String × String)      -- (Inputs field, parameter), in call order
  outVar : OutVar
  ret : Ret
  deriving Repr

structure SAttr where
  name : String
  type : SType
  required : Bool
  default : Val
  deriving Repr

/-- An `onnx.defs.OpSchema` (the one in force at a module's version). -/
structure Schema where
  name : String
  domain : String
  since : Nat
  deprecated : Bool
  minInput : Nat
  minOutput : Nat
  inputs : List (String × FieldKind)
  outputs : List (String × FieldKind)
  attrs : List SAttr                       -- sorted by name
  deriving Repr

/-! ## conformance -/

/-- spox attribute class ↔ schema attribute type. The one documented deviation:
    `AttrDtype` stands for an `INT` attribute holding a `TensorProto.DataType`. -/
def kindMatches : AttrKind → SType → Bool
  | .float, .FLOAT | .int, .INT | .string, .STRING | .tensor, .TENSOR | .graph, .GRAPH
  | .type, .TYPE_PROTO | .floats, .FLOATS | .ints, .INTS | .strings, .STRINGS
  | .tensors, .TENSORS => true
  | .dtype, .INT => true
  | _, _ => false

def findParam (ps : List Param) (n : String) : Option Param :=
  match ps with
  | [] => Option.none
  | p :: rest => if p.name == n then some p else findParam rest n

/-- requiredness and default of one attribute: constructor parameter default `pd` against the
    schema attribute (`optional` = the class field is `Optional[Attr…]`, `k` its kind). -/
def defaultOK (optional : Bool) (k : AttrKind) (pd : Option Val) (a : SAttr) : Bool :=
  if a.required then !optional && pd.isNone && a.default == Val.none
  else if a.default == Val.none then optional && pd == some Val.none
  else !optional && match pd with
    | some v => v != Val.none && encode k v == a.default
    | Option.none => false

/-- One attribute: class field, constructor wiring and parameter against the schema attribute. -/
def attrOK (ps : List Param) (f : AttrField) (w : AttrWire) (a : SAttr) : Bool :=
  f.name == a.name && w.field == a.name && w.onnxName == a.name && w.param == a.name &&
  kindMatches f.kind a.type && w.kind == f.kind && w.maybe == f.optional &&
  match findParam ps a.name with
  | Option.none => false
  | some p =>
    p.kwOnly &&
    -- deviation: GRAPH attributes are taken as Python callbacks, built by `subgraph(...)`
    (if a.type == .GRAPH then w.viaSubgraph && p.kind == .callback && a.required
     else !w.viaSubgraph && p.kind == .attr) &&
    defaultOK f.optional f.kind p.default a

def attrsOK (ps : List Param) : List AttrField → List AttrWire → List SAttr → Bool
  | [], [], [] => true
  | f :: fs, w :: ws, a :: as => attrOK ps f w a && attrsOK ps fs ws as
  | _, _, _ => false

def pkindOf : FieldKind → PKind
  | .single => .var | .optional => .optVar | .variadic => .seqVar

/-- One input: class field (already compared with the schema), wiring `field=param`, and the
    parameter at the same position of the signature. -/
def inputOK (fld : String × FieldKind) (w : String × String) (p : Param) : Bool :=
  w.1 == fld.1 && w.2 == fld.1 && p.name == fld.1 && !p.kwOnly && p.kind == pkindOf fld.2 &&
  match fld.2 with
  | .single => p.default.isNone
  | .optional => p.default == some Val.none
  | .variadic => p.default.isNone || p.default == some (Val.other "()")

def inputsOK : List (String × FieldKind) → List (String × String) → List Param → Bool
  | [], [], [] => true
  | f :: fs, w :: ws, p :: ps => inputOK f w p && inputsOK fs ws ps
  | _, _, _ => false

def positional (ps : List Param) : List Param := ps.filter (fun p => !p.kwOnly)
def keywordOnly (ps : List Param) : List Param := ps.filter (fun p => p.kwOnly)

def hasVariadic (l : List (String × FieldKind)) : Bool := l.any (fun f => f.2 == .variadic)

/-- keyword-only parameters that are *not* schema attributes: only an output-count parameter that
    feeds `out_variadic` is allowed (`split(..., outputs_count=…)` in opset 17). -/
def extraParamsOK (c : Ctor) (s : Schema) : Bool :=
  (keywordOnly c.params).all fun p =>
    s.attrs.any (fun a => a.name == p.name) ||
    (c.outVar == .param p.name && p.kind == .attr && p.default.isNone)

/-- `out_variadic` is given exactly when there is a variadic output; it is an integer parameter
    (`Split`) or the number of results of a GRAPH attribute's subgraph (control flow). -/
def outVarOK (c : Ctor) (s : Schema) : Bool :=
  match c.outVar with
  | .none => !hasVariadic s.outputs
  | .param p => hasVariadic s.outputs && (findParam c.params p).isSome
  | .lenResults a _ => hasVariadic s.outputs &&
      s.attrs.any (fun x => x.name == a && x.type == .GRAPH)
  | .other _ => false

/-- a single declared output is returned by name, otherwise all outputs are returned as a tuple -/
def retOK (c : Ctor) (s : Schema) : Bool :=
  match c.ret, s.outputs with
  | .field f, [o] => f == o.1
  | .unpack, _ :: _ :: _ => true
  | .unpack, [] => true
  | _, _ => false

def namesDistinct : List String → Bool
  | [] => true
  | x :: rest => !rest.contains x && namesDistinct rest

/-- **The conformance predicate** (one `decide` obligation per operator and module). -/
def conformsTo (c : Ctor) (s : Schema) : Bool :=
  -- operator name, domain, since-version
  c.cls.opName == s.name && c.cls.domain == s.domain && c.cls.version == s.since &&
  !s.deprecated && c.cls.base == "StandardNode" &&
  -- number, order, names, kinds of inputs and outputs
  c.cls.inputs == s.inputs && c.cls.outputs == s.outputs &&
  -- positional parameters ↔ inputs, in order
  inputsOK s.inputs c.inputWires (positional c.params) &&
  -- attributes: names, kinds, requiredness, defaults; wiring under the schema name
  attrsOK c.params c.cls.attrs c.attrWires s.attrs &&
  namesDistinct (c.params.map (·.name)) &&
  extraParamsOK c s && outVarOK c s && retOK c s


/-! ## per-module tables (filled in by the translator) -/

/-- (class the module's `_OPERATORS` table names, constructor of `_CONSTRUCTORS`, schema in force) -/
abbrev Entry := String × Ctor × Schema

/-- The obligation of one operator/module pair: `_OPERATORS[op]` is the class the constructor
    instantiates, and the pair conforms to the schema in force at the module's version. -/
def entryOK (e : Entry) : Bool := e.2.1.cls.pyName == e.1 && conformsTo e.2.1 e.2.2

def dropAttrs (s : Schema) (names : List String) : Schema :=
  { s with attrs := s.attrs.filter (fun a => !names.contains a.name) }

/-- the pseudo-name `"@deprecated"` in a deviation list stands for "the schema in force is marked
    deprecated by ONNX" -/
def undeprecate (s : Schema) (names : List String) : Schema :=
  if names.contains "@deprecated" then { s with deprecated := false } else s

/-- Conformance in everything but the listed deviations (known findings): schema attributes
    without counterpart, and/or the schema being deprecated at the module's version. -/
def entryOKExcept (names : List String) (e : Entry) : Bool :=
  entryOK (e.1, e.2.1, undeprecate (dropAttrs e.2.2 names) names)

theorem all_nil {α : Type} {f : α → Bool} : ([] : List α).all f = true := rfl

theorem all_cons {α : Type} {f : α → Bool} {a : α} {l : List α}
    (h : f a = true) (ht : l.all f = true) : (a :: l).all f = true := by
  simp [List.all_cons, h, ht]

/-! ## the constructor call (what the generated function body does) -/

/-- effective value of a parameter: supplied, else its default (`none` for `None`/absent) -/
def effective (ps : List Param) (supplied : String → Option Val) (n : String) : Option Val :=
  match supplied n with
  | some v => some v
  | Option.none => match findParam ps n with
    | some p => match p.default with
      | some Val.none => Option.none
      | d => d
    | Option.none => Option.none

/-- `AttrX(v, name=n)` / `AttrX.maybe(v, name=n)`: the `Attributes(...)` object, in wire order.
    (`AttrX(None, …)` raises in the real code; the conformance predicate excludes the case.) -/
def callAttrs (c : Ctor) (supplied : String → Option Val) : List (Option (String × Val)) :=
  c.attrWires.map fun w =>
    match effective c.params supplied w.param with
    | some v => some (w.onnxName, encode w.kind v)
    | Option.none => Option.none

/-- `Inputs(field=param, …)`: the positional argument list in `Inputs` field order. -/
def callInputs {α : Type} (c : Ctor) (args : String → Emit.Arg α) : List (Emit.Arg α) :=
  c.cls.inputs.map fun f =>
    match c.inputWires.find? (fun w => w.1 == f.1) with
    | some w => args w.2
    | Option.none => Emit.Arg.opt Option.none

/-- `Node._init_output_vars`: a fresh Var for *every* declared output — optional ones included —
    and `out_variadic` fresh Vars for the variadic field. The constructors give the caller no way
    to leave an optional output out. -/
def initOutputs (outs : List (String × FieldKind)) (nvar : Nat) : List (Emit.Arg String) :=
  outs.map fun f => match f.2 with
    | .single => Emit.Arg.single f.1
    | .optional => Emit.Arg.opt (some f.1)
    | .variadic => Emit.Arg.variadic ((List.range nvar).map fun i => f.1 ++ "_" ++ toString i)

/-! ## the call with every *spelling* of a keyword argument, error branch included

`conforming_call` above speaks about well-formed calls only. The generated constructors also decide
what happens for the other spellings of an attribute argument — left out, `None`, a value that is not
of the attribute's kind — and the property's "requiredness and default values" is about exactly that:
`AttrX(value, name=…)` validates (`Attr._validate`, `AttrDtype._validate` → `dtype_to_tensor_type`,
`_AttrIterable.__init__` → `tuple(value)`; all leave with `TypeError`), `AttrX.maybe(None, …)` is
`None` (attribute absent), `AttrX(None, …)` raises — it never invents a value. -/

/-- How the caller spells one keyword argument. `bad` = a value that is not of the attribute's kind. -/
inductive Spell where
  | omitted | none | ok (v : Val) | bad
  deriving Repr, DecidableEq

/-- What the parameter is bound to when the function body starts: the spelled value, else the
    signature default. `Option.none` = Python's own `TypeError` (required keyword-only argument
    missing). -/
def bound (ps : List Param) (n : String) : Spell → Option Spell
  | .omitted => match findParam ps n with
    | some p => match p.default with
      | some Val.none => some Spell.none
      | some v => some (Spell.ok v)
      | Option.none => Option.none
    | Option.none => Option.none
  | s => some s

/-- `AttrX(value, name=…)` (`w.maybe = false`) / `AttrX.maybe(value, name=…)`.
    Outer `Option.none` = the constructor leaves with `TypeError`. -/
def mkAttr (w : AttrWire) : Spell → Option (Option (String × Val))
  | .ok v => some (some (w.onnxName, encode w.kind v))
  | .none => if w.maybe then some Option.none else Option.none
  | .bad => Option.none
  | .omitted => Option.none

/-- one keyword of the `Attributes(...)` expression -/
def callAttrE (ps : List Param) (spelled : String → Spell) (w : AttrWire) :
    Option (Option (String × Val)) :=
  match bound ps w.param (spelled w.param) with
  | some sp => mkAttr w sp
  | Option.none => Option.none

/-- all results, or `none` as soon as one of them is `none` (an exception leaves the call) -/
def allSome {γ : Type} : List (Option γ) → Option (List γ)
  | [] => some []
  | Option.none :: _ => Option.none
  | some a :: rest => match allSome rest with
    | some l => some (a :: l)
    | Option.none => Option.none

/-- The `Attributes(...)` object of a call with arbitrary spellings; `none` = `TypeError`. -/
def callAttrsE (c : Ctor) (spelled : String → Spell) : Option (List (Option (String × Val))) :=
  allSome (c.attrWires.map (callAttrE c.params spelled))

/-- The schema-level reading of a spelling: is the call refused? -/
def rejects (a : SAttr) : Spell → Bool
  | .bad => true
  | .omitted => a.required
  | .none => a.required || a.default != Val.none
  | .ok _ => false

/-- The schema-level reading of an accepted spelling: the value given under the schema name, else
    the schema default if there is one, else nothing. -/
def acceptedAttr (spelled : String → Spell) (a : SAttr) (w : AttrWire) : Option (String × Val) :=
  match spelled a.name with
  | .ok v => some (a.name, encode w.kind v)
  | _ => if a.default == Val.none then Option.none else some (a.name, a.default)

/-! ## the input side of a call, error branch included

Positional parameters: `X: Var` (required), `X: Optional[Var] = None`, `X: Sequence[Var]` (variadic; a few
constructors default it to `()`). `Inputs.__post_init__` (`_fields.py`) checks every field against its
kind and raises `TypeError` otherwise; a missing required positional argument is Python's own
`TypeError`. -/

/-- How the caller spells one input argument. `bad` = not a `Var` / not an iterable of `Var`s. -/
inductive InSpell (α : Type) where
  | omitted | none | var (v : α) | vars (vs : List α) | bad
  deriving Repr, DecidableEq

/-- what the positional parameter is bound to (`Option.none` = missing required argument) -/
def boundIn {α : Type} (ps : List Param) (n : String) : InSpell α → Option (InSpell α)
  | .omitted => match findParam ps n with
    | some p => match p.default with
      | some Val.none => some InSpell.none
      | some _ => some (InSpell.vars [])       -- the `()` default of a variadic parameter
      | Option.none => Option.none
    | Option.none => Option.none
  | s => some s

/-- `Inputs.__post_init__` on one field; `Option.none` = `TypeError`. -/
def mkInput {α : Type} : FieldKind → InSpell α → Option (Emit.Arg α)
  | .single, .var v => some (Emit.Arg.single v)
  | .optional, .var v => some (Emit.Arg.opt (some v))
  | .optional, .none => some (Emit.Arg.opt Option.none)
  | .variadic, .vars vs => some (Emit.Arg.variadic vs)
  | _, _ => Option.none

def callInputE {α : Type} (c : Ctor) (spelled : String → InSpell α) (f : String × FieldKind) :
    Option (Emit.Arg α) :=
  match c.inputWires.find? (fun w => w.1 == f.1) with
  | some w => match boundIn c.params w.2 (spelled w.2) with
    | some sp => mkInput f.2 sp
    | Option.none => Option.none
  | Option.none => Option.none

/-- `Inputs(field=param, …)` for arbitrary spellings; `none` = `TypeError`. -/
def callInputsE {α : Type} (c : Ctor) (spelled : String → InSpell α) : Option (List (Emit.Arg α)) :=
  allSome (c.cls.inputs.map (callInputE c spelled))

/-- schema-level reading: is this spelling of a formal input refused? (`hasDefault`: the constructor
    lets a variadic input be left out, meaning "no inputs") -/
def rejectsIn {α : Type} (k : FieldKind) (hasDefault : Bool) : InSpell α → Bool
  | .var _ => k == .variadic
  | .none => k != .optional
  | .vars _ => k != .variadic
  | .omitted => match k with
    | .single => true
    | .optional => false
    | .variadic => !hasDefault
  | .bad => true

/-- schema-level reading of an accepted spelling -/
def acceptedIn {α : Type} (k : FieldKind) : InSpell α → Emit.Arg α
  | .var v => match k with
    | .single => Emit.Arg.single v
    | _ => Emit.Arg.opt (some v)
  | .vars vs => Emit.Arg.variadic vs
  | _ => match k with
    | .variadic => Emit.Arg.variadic []
    | _ => Emit.Arg.opt Option.none

/-- does the constructor give the (variadic) input parameter a default? -/
def paramHasDefault (ps : List Param) (n : String) : Bool :=
  match findParam ps n with
  | some p => p.default.isSome
  | Option.none => false

/-! ## per-pair slotting obligation (generated: `slots_<m>_<Op>`)

For one shipped (constructor, schema) pair: on *every* presence pattern of its inputs (each optional
input present / `None`, the variadic one with 0 / 1 / 2 Vars) the constructor-call model followed by
`Node.to_onnx`'s trimming yields exactly the list an independently written closed form demands — the
schema's formal inputs in order, cut after the last present one but never below `min_input` —, and the
number of emitted outputs is the number of declared non-variadic outputs plus the requested variadic
ones. -/

def presenceCases : List (String × FieldKind) → List (List (String × InSpell String))
  | [] => [[]]
  | (n, .single) :: rest => (presenceCases rest).map ((n, InSpell.var n) :: ·)
  | (n, .optional) :: rest =>
    (presenceCases rest).flatMap fun r => [(n, InSpell.var n) :: r, (n, InSpell.none) :: r]
  | (n, .variadic) :: rest =>
    (presenceCases rest).flatMap fun r =>
      [(n, InSpell.vars []) :: r, (n, InSpell.vars [n ++ "_0"]) :: r,
       (n, InSpell.vars [n ++ "_0", n ++ "_1"]) :: r]

def spellOf (l : List (String × InSpell String)) (n : String) : InSpell String :=
  match l.find? (fun x => x.1 == n) with
  | some x => x.2
  | Option.none => InSpell.omitted

/-- the positional name list, straight from the schema's formal inputs -/
def specNames (fs : List (String × FieldKind)) (sp : String → InSpell String) : List (Option String) :=
  fs.flatMap fun f => match sp f.1 with
    | .var v => [some v]
    | .vars vs => vs.map some
    | _ => [Option.none]

/-- 1 + index of the last present name (0 if there is none) -/
def lastPresent (xs : List (Option String)) : Nat :=
  (xs.foldl (fun (acc : Nat × Nat) x => (acc.1 + 1, if x.isSome then acc.1 + 1 else acc.2)) (0, 0)).2

/-- closed form of "omitted trailing optionals dropped, never below `min_input`" -/
def specSlots (minN : Nat) (xs : List (Option String)) : List (Option String) :=
  xs.take (max (min minN xs.length) (lastPresent xs))

def slotOK (e : Entry) : Bool :=
  (presenceCases e.2.2.inputs).all (fun l =>
    match callInputsE e.2.1 (spellOf l) with
    | some ins => Emit.emitSlots e.2.2.minInput ins ==
        specSlots e.2.2.minInput (specNames e.2.2.inputs (spellOf l))
    | Option.none => false) &&
  [0, 2].all (fun nv =>
    (Emit.emitSlots e.2.2.minOutput (initOutputs e.2.1.cls.outputs nv)).length ==
      (e.2.2.outputs.filter (fun o => o.2 != .variadic)).length +
        (if hasVariadic e.2.2.outputs then nv else 0))

/-! ## what of `_attributes.py` / `_utils.dtype_to_tensor_type` `mkAttr` covers (tie G, compared with
`Generated/AdaptAttrInventory.lean`)

`mkAttr` has one rule for all kinds: `ok v ↦ encode`, `None ↦ absent iff .maybe`, `bad ↦ TypeError`. That is
sound for the override table below: only `Attr` and `_AttrIterable` define `maybe` (both `None ↦ None`);
`__init__` is overridden by `AttrTensor` / `_AttrIterable` / `AttrTensors` only (type guard, `tuple(value)`,
copies — no canonicalisation of `None`); `_validate` by `AttrDtype` (→ `dtype_to_tensor_type`) and `AttrGraph`
only; every raise site is a `TypeError` (or the abstract `NotImplementedError`s). A class that gains an
`__init__` / `maybe` / `_validate` of its own is a code path `mkAttr` does not have. -/
def coveredAttrClasses : List (String × List String × List String × List (String × String) × List String) := [
  ("Attr", ["ABC", "Generic"], ["__init__", "deref", "maybe", "value", "_validate", "_to_onnx", "_attribute_proto_type", "_to_onnx_deref", "_get_pretty_type_exception"],
   [], ["_validate: self._get_pretty_type_exception", "_validate: self._get_pretty_type_exception", "_attribute_proto_type: NotImplementedError", "_to_onnx_deref: NotImplementedError"]),
  ("_Ref", ["Generic"], ["__init__", "copy", "_to_onnx"],
   [], []),
  ("AttrFloat32", ["Attr"], ["_to_onnx_deref"],
   [("_attribute_proto_type", "AttributeProto.FLOAT")], []),
  ("AttrInt64", ["Attr"], ["_to_onnx_deref"],
   [("_attribute_proto_type", "AttributeProto.INT")], []),
  ("AttrString", ["Attr"], ["_to_onnx_deref"],
   [("_attribute_proto_type", "AttributeProto.STRING")], []),
  ("AttrTensor", ["Attr"], ["__init__", "_to_onnx_deref"],
   [("_attribute_proto_type", "AttributeProto.TENSOR")], ["__init__: TypeError"]),
  ("AttrType", ["Attr"], ["_to_onnx_deref"],
   [("_attribute_proto_type", "AttributeProto.TYPE_PROTO")], ["_to_onnx_deref: NotImplementedError"]),
  ("AttrDtype", ["Attr"], ["_validate", "_to_onnx_deref"],
   [("_attribute_proto_type", "AttributeProto.INT")], []),
  ("AttrGraph", ["Attr"], ["_validate", "_to_onnx_deref"],
   [("_attribute_proto_type", "AttributeProto.GRAPH")], ["_validate: TypeError", "_to_onnx_deref: TypeError"]),
  ("_AttrIterable", ["Attr", "ABC"], ["__init__", "maybe", "_to_onnx_deref"],
   [], []),
  ("AttrFloat32s", ["_AttrIterable"], [],
   [("_attribute_proto_type", "AttributeProto.FLOATS")], []),
  ("AttrInt64s", ["_AttrIterable"], [],
   [("_attribute_proto_type", "AttributeProto.INTS")], []),
  ("AttrStrings", ["_AttrIterable"], [],
   [("_attribute_proto_type", "AttributeProto.STRINGS")], []),
  ("AttrTensors", ["_AttrIterable"], ["__init__", "_to_onnx_deref"],
   [("_attribute_proto_type", "AttributeProto.TENSORS")], []),
  ("<def _deref>", [], [],
   [], [])
]

/-- (kind, guards) of the exits of `dtype_to_tensor_type`: `None`, numpy's `ValueError` for a malformed
    spec, `object`, and ONNX's unknown-dtype errors all leave as `TypeError`. -/
def coveredDtypeExits : List (String × List String) := [("raise", ["p0 is None"]), ("raise", ["<except ValueError>"]), ("raise", ["np.dtype(np.dtype(p0).type) == np.dtype(object)"]), ("return", ["not (np.dtype(np.dtype(p0).type) == np.dtype(object))", "np.dtype(np.dtype(p0).type) == np.dtype(str)"]), ("return", ["<try>"]), ("raise", ["<except (KeyError, ValueError)>"])]

end Conform
