import SpoxModel.Model.Singleton
/-!
# `Type._subtype`, `Shape.__le__`, `Natural.__le__` and `PropValue.check` (C05, round 10)

The membership comparison of `src/spox/_type_system.py` / `src/spox/_shape.py` and its one use on the
constructor path: `Node.inference` attaches a propagated value to an output Var only if
`PropValue(var.type, value).check()` holds, and `check` compares the array's concrete shape with the
inferred type through `Shape.__le__` (and, for sequence elements, `Type._subtype`).

Written down as the code is, quirks included:
* `Unknown.__le__` answers `True` whatever the other side is, `Constant.__le__` answers
  `isinstance(other, Unknown) or self == other` - a *named* dimension is an `Unknown(label)`, so it is
  compatible with everything, constants included;
* `Shape.__le__`: an unknown rank on either side is compatible with everything;
* every `_subtype` starts with the shortcut `other == Type() or self == other` (the anonymous top
  `Type()` is not a `Ty`; the tie observes separately that everything is below it).

Tie H (every run): the driver evaluates these functions on generated pairs of types / (array, type)
pairs and the harness compares with the real `Type._subtype`, `Shape.__le__`, `PropValue.check`.
Core Lean only (linked into the driver).
-/
namespace Sing

/-- `Natural.__le__` on `Shape.from_simple` elements: `int` → `Constant`, `str`/`None` → `Unknown` -/
def natLe : Dim → Dim → Bool
  | .const n, .const m => n == m
  | _, _ => true

/-- `self.rank != other.rank → False`, else `all(x <= y for x, y in zip(self.dims, other.dims))` -/
def dimsLe : List Dim → List Dim → Bool
  | [], [] => true
  | x :: xs, y :: ys => natLe x y && dimsLe xs ys
  | _, _ => false

/-- `Shape.__le__`: `self.dims is None or other.dims is None → True` -/
def shapeLe : Option (List Dim) → Option (List Dim) → Bool
  | some xs, some ys => dimsLe xs ys
  | _, _ => true

/-- `Tensor._subtype` / `Sequence._subtype` / `Optional._subtype`, shortcut `self == other` included
    (`issubclass` of two concrete numpy scalar types = the same element type) -/
def subtype : Ty → Ty → Bool
  | .tensor e sh, .tensor e' sh' =>
    decide (Ty.tensor e sh = Ty.tensor e' sh') || (e == e' && shapeLe sh sh')
  | .seq t, .seq t' => decide (t = t') || subtype t t'
  | .opt t, .opt t' => decide (t = t') || subtype t t'
  | _, _ => false

/-- The specification `_subtype` refines: two types are *compatible* when they have the same
    constructors and element type and their shapes do not contradict each other. -/
def compatible : Ty → Ty → Bool
  | .tensor e sh, .tensor e' sh' => e == e' && shapeLe sh sh'
  | .seq t, .seq t' => compatible t t'
  | .opt t, .opt t' => compatible t t'
  | _, _ => false

/-- the concrete shape of an ndarray as `Shape.from_simple(value.shape)` -/
def arrayShape (vs : List Nat) : List Dim := vs.map (fun n => Dim.const (Int.ofNat n))

/-- `PropValue(ty, value).check()` for an **ndarray** `value` of (non-string) element type `ve` and
    shape `vs`: a Tensor type wants `Shape.from_simple(value.shape) <= type._shape` and the same
    dtype; a Sequence type wants a `list`, an Optional type `None` or a `PropValue` - an ndarray is
    neither. -/
def propCheck (ve : Nat) (vs : List Nat) : Ty → Bool
  | .tensor e sh => shapeLe (some (arrayShape vs)) sh && ve == e
  | _ => false

/-- What a value-propagation backend hands back for one output: the array's element type, shape and
    a digest of its contents. -/
structure RawVal where
  elem : Nat
  shape : List Nat
  digest : String
  deriving DecidableEq, Repr, Inhabited

def lookupRaw (k : String) : List (String × RawVal) → Option RawVal
  | [] => none
  | (k', v) :: rest => if k' = k then some v else lookupRaw k rest

/-- The second loop of `Node.inference` with `PropValue.check` written out: `raw` is what
    `propagate_values()` returned (by output key); a value is attached iff the output is typed and the
    value passes `check` against that type - otherwise it is dropped with a warning. -/
def checkedProp (raw : List (String × RawVal)) (tys : List (String × Option Ty)) : List (String × String) :=
  tys.filterMap (fun p => match p.2, lookupRaw p.1 raw with
    | some t, some v => if propCheck v.elem v.shape t then some (p.1, v.digest) else none
    | _, _ => none)

/-! ## Flows: Vars that carry values through several constructor calls

`VarState` = what a Var carries (type; element type / shape / digest of an attached ndarray).
`attachOne` = the attach loop of `Node.inference` for one output Var. A `Step` is one constructor call
of a flow (arguments by Var id, an arbitrary value-propagation backend); `Step.call env` is the call as
the Vars stand (type → value info, digest of the attached value → initializer); outputs get fresh ids;
a rejected call leaves the environment unchanged. -/


structure VarState where
  ty : Option Ty
  raw : Option RawVal
  deriving Repr, Inhabited

def VarState.fits (s : VarState) : Bool :=
  match s.raw with
  | none => true
  | some v => match s.ty with
    | some t => propCheck v.elem v.shape t
    | none => false

def attachOne (raw : List (String × RawVal)) (p : String × Option Ty) : VarState :=
  match p.2, lookupRaw p.1 raw with
  | some t, some v => if propCheck v.elem v.shape t then ⟨some t, some v⟩ else ⟨some t, none⟩
  | ot, _ => ⟨ot, none⟩

abbrev Env := Nat → VarState

structure Step where
  sig : Sig
  args : List Arg
  attrs : List (String × Option String)
  outVariadic : Nat
  backend : Call → List (String × Option Ty) → List (String × RawVal)

def Step.call (s : Step) (env : Env) : Call :=
  { sig := s.sig, args := s.args, attrs := s.attrs, outVariadic := s.outVariadic,
    info := fun v => ⟨(env v).ty, (env v).raw.map (fun r => r.digest)⟩ }

def stepOut (st : Env × Nat) (s : Step) (c : Call) : Result → Env × Nat
  | .error _ => st
  | .ok tys =>
    let outs := tys.map (attachOne (s.backend c tys))
    (fun v => if st.2 ≤ v ∧ v < st.2 + outs.length then outs.getD (v - st.2) default else st.1 v,
      st.2 + outs.length)

def stepEnv (Infer : InferFn) (st : Env × Nat) (s : Step) : (Env × Nat) × Result :=
  (stepOut st s (s.call st.1) (construct Infer (s.call st.1)), construct Infer (s.call st.1))

def runFlow (Infer : InferFn) : Env × Nat → List Step → (Env × Nat) × List Result
  | st, [] => (st, [])
  | st, s :: ss =>
    let r := stepEnv Infer st s
    let rest := runFlow Infer r.1 ss
    (rest.1, r.2 :: rest.2)


end Sing
