/-!
# Bit-level IEEE-754 conversions used on the attribute path  (C10)

Core Lean only. `r32` is C's `(float)double` (what protobuf's Python layer does to a Python float put
into a `float` field; what `np.float32(x)` does): round to nearest, ties to even, gradual underflow,
overflow to infinity, NaNs quietened with the top 22 payload bits kept. `i2d` is Python's `float(int)`
(correctly rounded, `OverflowError` = `none`). Both are built on one integer primitive, `rne`.
-/
namespace FloatBits

/-- `M / 2^k` rounded to the nearest integer, ties to the even one. -/
def rne (M k : Nat) : Nat :=
  let t := M / 2 ^ k
  let r := M % 2 ^ k
  if 2 * r < 2 ^ k then t
  else if 2 * r = 2 ^ k ∧ t % 2 = 0 then t
  else t + 1

/-- |a − b| on naturals. -/
def absDiff (a b : Nat) : Nat := if a ≤ b then b - a else a - b

def f32Inf : Nat := 255 * 2 ^ 23

/-- binary64 pattern → binary32 pattern. -/
def r32 (b : Nat) : Nat :=
  let sign := b / 2 ^ 63 % 2
  let e := b / 2 ^ 52 % 2048
  let m := b % 2 ^ 52
  let s := sign * 2 ^ 31
  if e = 2047 then
    if m = 0 then s + f32Inf
    else s + f32Inf + 2 ^ 22 + (m / 2 ^ 29) % 2 ^ 22          -- quiet bit set, top payload bits kept
  else if 897 ≤ e then
    -- normal range of binary32: 24 significant bits of `2^52 + m`; a carry out of the significand
    -- moves into the exponent field by plain addition; anything from 2^128 on is infinity
    s + min ((e - 897) * 2 ^ 23 + rne (2 ^ 52 + m) 29) f32Inf
  else
    -- result is subnormal (or the smallest normal, by the same carry): units of 2^-149
    let M := if e = 0 then m else 2 ^ 52 + m
    let k := if e = 0 then 925 else 926 - e
    s + rne M k

/-- Python `float(n)` as a binary64 pattern; `none` = OverflowError. -/
def i2d (n : Int) : Option Nat :=
  if n = 0 then some 0 else
  let a := n.natAbs
  let L := Nat.log2 a
  let s := if n < 0 then 2 ^ 63 else 0
  if L ≤ 52 then some (s + (L + 1023) * 2 ^ 52 + (a * 2 ^ (52 - L) - 2 ^ 52))
  else
    let mag := (L + 1022) * 2 ^ 52 + rne a (L - 52)
    if 2047 * 2 ^ 52 ≤ mag then none else some (s + mag)

end FloatBits
