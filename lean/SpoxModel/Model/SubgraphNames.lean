/-!
# `enum_arguments` / `enum_results` — the name glue inside `subgraph(types, fun)` (C19, round 10)

`subgraph` does not build its argument tuple and its result dict positionally: both go through a Python
`dict` keyed by *generated names*:

```python
def enum_arguments(*infos, prefix="in"):  return arguments(**{f"{prefix}{i}": info for i, info in enumerate(infos)})
def arguments(**kwargs):                  return tuple(arguments_dict(**kwargs).values())
def enum_results(*vars, prefix="out"):    return results(**{f"{prefix}{i}": var for i, var in enumerate(vars)})
```

so "argument `i` is typed for position `i`" and "the operator has as many outputs as the callback returned
Vars" both rest on the generated names being pairwise different (a colliding key would overwrite an entry and
shorten the dict) and on the dict keeping insertion order. This file models exactly that: an insertion-ordered
dict with overwrite-in-place (`dictSet`), the comprehension (`enumInto`), Python's `f"{prefix}{i}"` (`pyKey`).
Core Lean only (the driver links this file).
-/
namespace SubgraphNames

/-- `d[k] = v` on a Python dict (insertion ordered): an existing key keeps its position and gets the new
    value, a new key is appended. -/
def dictSet (d : List (String × α)) (k : String) (v : α) : List (String × α) :=
  match d with
  | [] => [(k, v)]
  | (k', v') :: rest => if k' = k then (k, v) :: rest else (k', v') :: dictSet rest k v

/-- `{key(i): x for i, x in enumerate(xs, start=i)}` added to `d`. -/
def enumInto (key : Nat → String) : List α → Nat → List (String × α) → List (String × α)
  | [], _, d => d
  | x :: xs, i, d => enumInto key xs (i + 1) (dictSet d (key i) x)

/-- Python's `f"{prefix}{i}"`. -/
def pyKey (pre : String) (i : Nat) : String := pre ++ toString i

/-- `{f"{prefix}{i}": x for i, x in enumerate(xs)}`. -/
def enumDict (pre : String) (xs : List α) : List (String × α) := enumInto (pyKey pre) xs 0 []

/-- `enum_arguments(*infos, prefix=pre)`: one argument per dict entry, `tuple(dict.values())`. -/
def enumArguments (pre : String) (infos : List α) : List α := (enumDict pre infos).map (·.2)

/-- `enum_results(*vars, prefix=pre)._results`: the dict itself (name ↦ Var, in dict order). -/
def enumResults (pre : String) (vars : List α) : List (String × α) := enumDict pre vars

/-- What positional naming gives: entry `i` is `(key (start+i), xs[i])`. -/
def named (key : Nat → String) : List α → Nat → List (String × α)
  | [], _ => []
  | x :: xs, i => (key i, x) :: named key xs (i + 1)

/-- The graph `subgraph` returns, as stored state: `enum_results(*outs).with_arguments(*ins)._with_constructor(fun)`. -/
structure StoredGraph where
  results : List (String × Nat)      -- `_results`: name ↦ id of the returned Var, in dict order
  arguments : List Nat               -- `_arguments`
  constructor : Nat                  -- `_constructor`: identity of the callback
deriving DecidableEq, Repr, Inhabited

/-- The tail of `subgraph(types, fun)` after a successful call: `ins` = ids of the Vars created by
    `enum_arguments(*types)` in *dict order* (one fresh id per entry, `start`, `start+1`, …), `outs` = ids of
    the Vars the callback returned. Returns the argument ids the callback is invoked with, their types, and
    the stored graph. -/
def subgraphTail (types : List τ) (start : Nat) (cb : Nat) (outs : List Nat) :
    List Nat × List τ × StoredGraph :=
  let entries := enumDict "in" types                       -- arguments_dict(**{in0: t0, …})
  let ins := (List.range entries.length).map (· + start)   -- one new Var per entry, in dict order
  let tys := entries.map (·.2)                              -- its type = the entry's value
  (ins, tys, ⟨enumResults "out" outs, ins, cb⟩)

/-- A *wrong* variant, for the counterexamples: entries listed in name order (`in0, in1, in10, in11, in2, …`). -/
def sortedByName (d : List (String × α)) : List (String × α) :=
  d.foldl (fun acc p =>
    let lt := acc.takeWhile (fun q => decide (q.1 < p.1))
    lt ++ p :: acc.drop lt.length) []

/-! ## `_make_dummy_subgraph` — what type inference sees instead of the callback

`StandardNode.infer_output_types_onnx` does not re-trace a subgraph: `_make_dummy_subgraph(node, key, graph)`
(`_standard.py`) builds a body-less GraphProto *from the stored argument Vars and result Vars' types only*:
input `i` `__dummy_input{i}` typed like `requested_arguments[i]`, output `i` `__dummy_output{i}` typed like the
`i`-th value of `requested_results`, fed by `Identity(__dummy_outer_output{i})`. -/

structure DummyGraph (τ : Type) where
  name : String
  inputs : List (String × τ)
  outputs : List (String × τ)
  valueInfos : List (String × τ)
  nodes : List (String × String)       -- `Identity`: (input name, output name)
deriving DecidableEq, Repr, Inhabited

/-- `_make_dummy_subgraph(_node, key, graph)` as a function of the types of `graph.requested_arguments` and of
    `graph.requested_results.values()` — it has no other input (in particular not `graph._constructor`). -/
def makeDummy (key : String) (argTys resTys : List τ) : DummyGraph τ :=
  ⟨"__dummy_" ++ key,
   named (pyKey "__dummy_input") argTys 0,
   named (pyKey "__dummy_output") resTys 0,
   named (pyKey "__dummy_outer_output") resTys 0,
   (List.range resTys.length).map (fun i => (pyKey "__dummy_outer_output" i, pyKey "__dummy_output" i))⟩

/-- The dummy of the graph `subgraph(types, fun)` returned, `resTys` = types of the Vars `fun` returned: the
    argument types are read off the `in{i}` dict, the result types off the values of the `out{i}` dict. -/
def dummyOfSubgraph (key : String) (types resTys : List τ) : DummyGraph τ :=
  makeDummy key ((enumDict "in" types).map (·.2)) ((enumResults "out" resTys).map (·.2))

end SubgraphNames
