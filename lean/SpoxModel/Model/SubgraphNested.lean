import SpoxModel.Model.Subgraph
/-!
# Nested subgraph callbacks (C19)

A callback passed to a control-flow constructor may itself call control-flow constructors (an If
inside a Loop body inside a Scan body …). Each `subgraph(types, fun)` invocation is a node of a tree:
the callback `cb`, the argument types it is handed, the number of Vars it returns, and — in order —
the `subgraph` invocations its own execution performs (the children; the `subgraph` calls of all
constructors called by the body, flattened in program order).

`runTree` is `subgraph` for such a callback: fresh arguments, the invocation is logged, *then* the
callback runs (its children, depth first), and only then the next sibling.

Core Lean only (the driver links this file).
-/
namespace SubgraphNested
open Subgraph

inductive Tree
  | node (cb : Nat) (types : List Ty) (nResults : Nat) (children : List Tree)
deriving Repr, Inhabited

mutual
/-- `subgraph(types, cb)` where calling `cb` performs the `children` invocations. -/
def runTree : Tree → World → World
  | .node cb types _ children, w =>
    runForest children
      { events := ⟨cb, freshIds w.fresh types.length, types⟩ :: w.events,
        fresh := w.fresh + types.length }
/-- consecutive `subgraph` invocations (siblings, in program order) -/
def runForest : List Tree → World → World
  | [], w => w
  | t :: ts, w => runForest ts (runTree t w)
end

mutual
/-- callback ids in depth-first pre-order -/
def ids : Tree → List Nat
  | .node cb _ _ children => cb :: idsF children
def idsF : List Tree → List Nat
  | [] => []
  | t :: ts => ids t ++ idsF ts
end

mutual
/-- (callback, argument types) in depth-first pre-order: what the invocation log must show -/
def sigs : Tree → List (Nat × List Ty)
  | .node cb types _ children => (cb, types) :: sigsF children
def sigsF : List Tree → List (Nat × List Ty)
  | [] => []
  | t :: ts => sigs t ++ sigsF ts
end

mutual
/-- total number of argument Vars created -/
def nArgs : Tree → Nat
  | .node _ types _ children => types.length + nArgsF children
def nArgsF : List Tree → Nat
  | [] => 0
  | t :: ts => nArgs t + nArgsF ts
end

/-! ## Failing nested calls

Callbacks of any behaviour at any depth. A body first runs (its inner constructor calls, in order), then
its result is validated; a failure anywhere — a non-callable or malformed inner callback, an inner
callback that raises — propagates out of every enclosing body and constructor unchanged and stops
everything that would have followed. -/

inductive TreeE
  | node (cb : Nat) (types : List Ty) (beh : CbBehaviour) (children : List TreeE)
deriving Repr, Inhabited

mutual
def runTreeE : TreeE → World → Option Err × World
  | .node cb types beh children, w =>
    if beh.callable then
      match runForestE children
          { events := ⟨cb, freshIds w.fresh types.length, types⟩ :: w.events, fresh := w.fresh + types.length } with
      | (some e, w2) => (some e, w2)
      | (none, w2) =>
        match beh.result with
        | .ok _ => (none, w2)
        | .error e => (some e, w2)
    else (some .typeError, { w with fresh := w.fresh + types.length })
def runForestE : List TreeE → World → Option Err × World
  | [], w => (none, w)
  | t :: ts, w =>
    match runTreeE t w with
    | (some e, w1) => (some e, w1)
    | (none, w1) => runForestE ts w1
end

mutual
def idsE : TreeE → List Nat
  | .node cb _ _ children => cb :: idsFE children
def idsFE : List TreeE → List Nat
  | [] => []
  | t :: ts => idsE t ++ idsFE ts
end

mutual
/-- forget the behaviours: the tree of a successful run -/
def erase : TreeE → Tree
  | .node cb types beh children =>
    .node cb types (match beh.result with | .ok n => n | .error _ => 0) (eraseF children)
def eraseF : List TreeE → List Tree
  | [] => []
  | t :: ts => erase t :: eraseF ts
end

/-- A callback without inner control flow. -/
def leaf (cb : Nat) (types : List Ty) (n : Nat) : Tree := .node cb types n []

end SubgraphNested
