/-!
# A call graph and reachability in it (C19)

`Generated/CallGraph.lean` holds a conservative call graph of `src/spox` extracted from the source:
numbered functions, call edges, the functions that invoke a stored callback (`sinks`) and the entry
points of the steps that can follow a constructor call. Here: reachability as an inductive
relation, an executable closure (used by the driver), and the *checkable certificate* — a bit mask of
functions that contains the entry points, is closed under the edges and avoids the sinks.

Core Lean only (the driver links this file).
-/
namespace CallGraph

structure Graph where
  n : Nat
  edges : List (Nat × Nat)
  sinks : List Nat
  entries : List (String × List Nat)
deriving Repr, Inhabited

/-- entry functions of one kind of step -/
def Graph.entriesOf (g : Graph) (kind : String) : List Nat :=
  ((g.entries.find? (fun p => p.1 == kind)).map (·.2)).getD []

def Graph.allEntries (g : Graph) : List Nat := g.entries.flatMap (·.2)

/-- `Reach edges es x`: function `x` can be reached from one of the entry functions `es`. -/
inductive Reach (edges : List (Nat × Nat)) (es : List Nat) : Nat → Prop
  | entry {e : Nat} : e ∈ es → Reach edges es e
  | step {u v : Nat} : Reach edges es u → (u, v) ∈ edges → Reach edges es v

/-- one round: everything reached so far plus the targets of the edges leaving it -/
def expand (edges : List (Nat × Nat)) (cur : List Nat) : List Nat :=
  edges.foldl (fun acc e => if acc.contains e.1 && !acc.contains e.2 then e.2 :: acc else acc) cur

/-- executable closure: `fuel` rounds (the number of functions suffices) -/
def closure (edges : List (Nat × Nat)) : Nat → List Nat → List Nat
  | 0, cur => cur
  | fuel + 1, cur =>
    let nxt := expand edges cur
    if nxt.length == cur.length then cur else closure edges fuel nxt

/-- Does a step entering at `es` reach a function that invokes a stored callback? -/
def Graph.reachesSink (g : Graph) (es : List Nat) : Bool :=
  (closure g.edges g.n es).any (fun x => g.sinks.contains x)

/-- membership in a set of functions given as a bit mask -/
def inMask (mask : Nat) (i : Nat) : Bool := mask.testBit i

/-- The certificate: `mask` contains every entry point, is closed under every edge, and contains no
    sink. (Checked by evaluation for the generated graph.) -/
def Graph.safe (g : Graph) (mask : Nat) : Bool :=
  g.allEntries.all (inMask mask)
    && g.edges.all (fun e => !inMask mask e.1 || inMask mask e.2)
    && g.sinks.all (fun s => !inMask mask s)

end CallGraph
