/-!
# The `Builder` algorithm of `spox._build` (C04; shared by C01/C03/C12 when they need it)

An executable, step-by-step model of `Builder(graph).build_main()`:

* `discover`            — `Builder.discover`: one fresh source (`_Introduce`) vertex per graph, input-edge
                          DFS, recursive discovery of the subgraphs when a node is *left*, `graph_topo`
                          (post-order, then reversed), `all/claimed/used` argument sets and the three
                          `BuildError`s (multiple owners, already claimed, leaked);
* `lcaLoop`, `parent`   — `ScopeTree.lca` / `ScopeTree.parent` (the alternating-ancestor walk);
* `updateScopeTree`     — the relaxation `scope_of[n] = lca(graph, scope_of.setdefault(n, graph))` in DFS
                          post-order, graphs in `graph_topo` order (main first);
* `resolveScopes`       — one DFS over input **and** subgraph edges; per-scope lists are the sub-sequences
                          of that post-order;
* `compileG`            — `compile_graph`: arguments first, then `scope_own`, recursing into the bodies of a
                          node right after the node, through one *flat* `Scope` (`Scope.update(force=True)`
                          ⇒ `ScopeError` on a second introduction; `scope.var[v]` ⇒ `KeyError` on a value
                          that was not introduced yet; `Graph.get_results` ⇒ `KeyError` for a body whose
                          source was never introduced);
* `structOk`            — ONNX's structural rule on the nested emission (what `onnx.checker` does at the
                          end of `build`): a node sees what was defined earlier in its own graph and in
                          the enclosing graphs.

Abstract programs: nodes in creation order (id = index), each with its input node ids and the ids
of the graphs held in its attributes (attribute order); graphs (id = index, 0 = main) with optional
requested arguments and results (node ids).  Core Lean only (the driver links this file).
-/
namespace BuildAlg

/-- A vertex of the traversals: a node of the program, or the per-graph source (`_Introduce`). -/
inductive V | node (n : Nat) | src (g : Nat)
deriving DecidableEq, Repr

structure PGraph where
  args : Option (List Nat)      -- `requested_arguments` (`none` = not specified)
  results : List Nat            -- `requested_results` (node ids, in order)
deriving Repr

structure PNode where
  isArg : Bool                  -- `isinstance(node, Argument)`
  inputs : List Nat             -- `node.dependencies` (node ids, field order)
  subs : List Nat               -- `node.subgraphs` (graph ids, attribute order)
deriving Repr

structure Prog where
  nodes : List PNode            -- creation order, id = index
  graphs : List PGraph          -- id = index, 0 = main
deriving Repr

def Prog.isArg (p : Prog) (n : Nat) : Bool := match p.nodes[n]? with | some pn => pn.isArg | none => false
def Prog.inputs (p : Prog) (n : Nat) : List Nat := match p.nodes[n]? with | some pn => pn.inputs | none => []
def Prog.subs (p : Prog) (n : Nat) : List Nat := match p.nodes[n]? with | some pn => pn.subs | none => []
def Prog.results (p : Prog) (g : Nat) : List Nat := match p.graphs[g]? with | some pg => pg.results | none => []

/-- input edges only (`discover`, `update_scope_tree`) -/
def Prog.adjIn (p : Prog) : V → List V
  | .node n => (p.inputs n).map V.node
  | .src g => (p.results g).map V.node

/-- input edges, then subgraph edges (`resolve_scopes`) -/
def Prog.adjFull (p : Prog) : V → List V
  | .node n => (p.inputs n).map V.node ++ (p.subs n).map V.src
  | .src g => (p.results g).map V.node

def V.isArgOf (p : Prog) : V → Bool
  | .node n => p.isArg n
  | .src _ => false

/-- `iterative_dfs` on a DAG: recursive DFS with fuel; `post` (the post-order so far) doubles as the
    visited set, which on an acyclic graph is the same as marking on entry. -/
def visit {α : Type} [DecidableEq α] (adj : α → List α) : Nat → α → List α → List α
  | 0, _, post => post
  | fuel + 1, v, post =>
    if v ∈ post then post else (adj v).foldl (fun p w => visit adj fuel w p) post ++ [v]

/-- enough fuel for every traversal of the program (rank of a vertex ≤ 2·id+3) -/
def Prog.fuel (p : Prog) : Nat := 2 * p.nodes.length + 5

/-! ### small list-as-set helpers -/
def union (a b : List Nat) : List Nat := a ++ b.filter (fun x => !a.contains x)
def inter (a b : List Nat) : List Nat := a.filter (fun x => b.contains x)
def diff (a b : List Nat) : List Nat := a.filter (fun x => !b.contains x)
def insertSorted (x : Nat) : List Nat → List Nat
  | [] => [x]
  | y :: ys => if x ≤ y then x :: y :: ys else y :: insertSorted x ys
def sortNat (l : List Nat) : List Nat := l.foldr insertSorted []

def lookupL (l : List (Nat × List Nat)) (g : Nat) : List Nat :=
  match l.find? (fun e => e.1 == g) with | some e => e.2 | none => []
def lookupN (l : List (Nat × Nat)) (g : Nat) : Option Nat :=
  match l.find? (fun e => e.1 == g) with | some e => some e.2 | none => none

inductive Err
  | build (why : String)     -- BuildError
  | scope                    -- ScopeError (second introduction of a node / argument)
  | key                      -- KeyError (a value used before any introduction)
  | fuel                     -- model ran out of fuel (never on a well-formed program)
deriving Repr, DecidableEq

def foldE {α β ε : Type} (f : β → α → Except ε β) : β → List α → Except ε β
  | b, [] => .ok b
  | b, a :: as => match f b a with
    | .error e => .error e
    | .ok b' => foldE f b' as

/-! ### discover -/

structure DState where
  entered : List Nat                      -- `self.graphs`
  topo : List Nat                         -- `self.graph_topo` (append order, before the reverse)
  owner : List (Nat × Nat)                -- `scope_tree.subgraph_owner`
  allIn : List (Nat × List Nat)           -- `all_arguments_in` (final value)
  claimedIn : List (Nat × List Nat)       -- `claimed_arguments_in` (final value)
  argsOf : List (Nat × List Nat)          -- `arguments_of`
deriving Repr

def DState.empty : DState := ⟨[], [], [], [], [], []⟩

structure Acc where
  all : List Nat
  claimed : List Nat
  used : List Nat
deriving Repr

/-- one iteration of `for subgraph in nd.subgraphs` in `collect_arguments` -/
def subStep (rec : Nat → DState → Except Err DState) (n : Nat)
    (x : DState × Acc) (sub : Nat) : Except Err (DState × Acc) :=
  match rec sub x.1 with
  | .error e => .error e
  | .ok st =>
    let acc : Acc := { x.2 with all := union x.2.all (lookupL st.allIn sub),
                                claimed := union x.2.claimed (lookupL st.claimedIn sub) }
    match lookupN st.owner sub with
    | none => .ok ({ st with owner := (sub, n) :: st.owner }, acc)
    | some o => if o = n then .ok (st, acc) else .error (.build "multiple-owners")

/-- `collect_arguments(nd)` (the post-callback of the DFS) -/
def collectStep (p : Prog) (rec : Nat → DState → Except Err DState)
    (x : DState × Acc) (v : V) : Except Err (DState × Acc) :=
  match v with
  | .src _ => .ok x
  | .node n =>
    let acc : Acc := if p.isArg n then { x.2 with all := union x.2.all [n], used := union x.2.used [n] } else x.2
    foldE (subStep rec n) (x.1, acc) (p.subs n)

/-- the vertices reached from the source of `g` by input edges, in DFS post-order -/
def Prog.postIn (p : Prog) (g : Nat) : List V := visit p.adjIn p.fuel (.src g) []

/-- `arguments_of[graph]`: the request, or `list(all - claimed)` (set order; compared sorted) -/
def argsFor (pg : PGraph) (acc : Acc) : List Nat :=
  match pg.args with
  | none => sortNat (diff acc.all acc.claimed)
  | some a => a

/-- `all_arguments` after `all_arguments |= set(graph.requested_arguments)` -/
def allFor (pg : PGraph) (acc : Acc) : List Nat :=
  match pg.args with
  | none => acc.all
  | some a => union acc.all a

def finishDiscover (pg : PGraph) (g : Nat) (st : DState) (acc : Acc) : Except Err DState :=
  if inter (argsFor pg acc) acc.claimed ≠ [] then .error (.build "already-claimed")
  else if inter acc.claimed acc.used ≠ [] then .error (.build "leaked")
  else .ok { st with topo := st.topo ++ [g],
                     allIn := (g, allFor pg acc) :: st.allIn,
                     claimedIn := (g, union acc.claimed (argsFor pg acc)) :: st.claimedIn,
                     argsOf := (g, argsFor pg acc) :: st.argsOf }

def discover (p : Prog) : Nat → Nat → DState → Except Err DState
  | 0, _, _ => .error .fuel
  | fuel + 1, g, st =>
    if g ∈ st.entered then .ok st else
    match p.graphs[g]? with
    | none => .error (.build "no-graph")
    | some pg =>
      if pg.results.isEmpty then .error (.build "no-results") else
      let st1 := { st with entered := g :: st.entered }
      match foldE (collectStep p (discover p fuel)) (st1, ⟨[], [], []⟩) (p.postIn g) with
      | .error e => .error e
      | .ok (st2, acc) => finishDiscover pg g st2 acc

/-! ### scope tree -/

abbrev ScopeOf := List (V × Nat)

def ScopeOf.get (s : ScopeOf) (v : V) : Option Nat :=
  match s.find? (fun e => e.1 == v) with | some e => some e.2 | none => none
def ScopeOf.set (s : ScopeOf) (v : V) (g : Nat) : ScopeOf := (v, g) :: s.filter (fun e => !(e.1 == v))

/-- `ScopeTree.parent`: the scope of the owner *at the time of the call*; the graph itself for main -/
def parent (owner : List (Nat × Nat)) (s : ScopeOf) (g : Nat) : Nat :=
  match lookupN owner g with
  | none => g
  | some o => (s.get (.node o)).getD g

/-- `ScopeTree.lca`: test `a ∈ vis_b`, remember `a`, step `a` to its parent, swap the roles. -/
def lcaLoop (par : Nat → Nat) : Nat → Nat → Nat → List Nat → List Nat → Nat
  | 0, a, _, _, _ => a
  | fuel + 1, a, b, visA, visB =>
    if a ∈ visB then a else lcaLoop par fuel b (par a) visB (a :: visA)

def lca (par : Nat → Nat) (fuel a b : Nat) : Nat := lcaLoop par fuel a b [a] [b]

/-- fuel for the walk: 2·(depth a + depth b) + 3 ≤ 4·#graph_topo + 3 -/
def lcaFuel (gt : List Nat) : Nat := 4 * gt.length + 4

/-- `satisfy_constraints(node)` -/
def relax (owner : List (Nat × Nat)) (fuel : Nat) (g : Nat) (s : ScopeOf) (v : V) : ScopeOf :=
  s.set v (lca (parent owner s) fuel g ((s.get v).getD g))

/-- `update_scope_tree(graph)` -/
def updateScopeTree (p : Prog) (owner : List (Nat × Nat)) (fuel : Nat) (s : ScopeOf) (g : Nat) :
    ScopeOf :=
  (p.postIn g).foldl (relax owner fuel g) s

/-! ### resolve_scopes, compile -/

structure Built where
  graphTopo : List Nat
  owner : List (Nat × Nat)
  argsOf : List (Nat × List Nat)
  scopeOf : ScopeOf
  topo : List V
deriving Repr

def Built.scopeOwn (b : Built) (g : Nat) : List V :=
  b.topo.filter (fun v => b.scopeOf.get v == some g)

/-- events of the compilation walk, in order: the nested emission, flattened -/
inductive Ev | enter (g : Nat) | arg (a : Nat) | emit (v : V) | leave (g : Nat)
deriving DecidableEq, Repr

structure CState where
  intro : List V            -- everything introduced into the (single, flat) `Scope` so far
  trace : List Ev           -- newest first
deriving Repr

def argStep (cs : CState) (a : Nat) : Except Err CState :=
  if V.node a ∈ cs.intro then .error .scope
  else .ok ⟨V.node a :: cs.intro, Ev.arg a :: cs.trace⟩

def emitStep (p : Prog) (rec : Nat → CState → Except Err CState) (cs : CState) (v : V) :
    Except Err CState :=
  if v ∈ cs.intro then .error .scope else
  let cs1 : CState := ⟨v :: cs.intro, Ev.emit v :: cs.trace⟩
  if (p.adjIn v).all (fun u => decide (u ∈ cs1.intro)) then
    match v with
    | .node n => foldE (fun c sub => rec sub c) cs1 (p.subs n)
    | .src _ => .ok cs1
  else .error .key

/-- `compile_graph(g, scope, prefix)` followed, for a body, by `Graph.to_onnx`'s `get_results` -/
def compileG (p : Prog) (b : Built) : Nat → Nat → CState → Except Err CState
  | 0, _, _ => .error .fuel
  | fuel + 1, g, cs =>
    match foldE argStep ⟨cs.intro, Ev.enter g :: cs.trace⟩ (lookupL b.argsOf g) with
    | .error e => .error e
    | .ok cs1 =>
      match foldE (emitStep p (compileG p b fuel)) cs1
          ((b.scopeOwn g).filter (fun v => !v.isArgOf p)) with
      | .error e => .error e
      | .ok cs2 =>
        if V.src g ∈ cs2.intro then .ok ⟨cs2.intro, Ev.leave g :: cs2.trace⟩ else .error .key

/-- the whole of `build_main` followed by `get_results` of the main graph -/
def build (p : Prog) : Except Err (Built × List Ev) :=
  match discover p (p.graphs.length + 1) 0 DState.empty with
  | .error e => .error e
  | .ok st =>
    let gt := st.topo.reverse
    let so := gt.foldl (updateScopeTree p st.owner (lcaFuel gt)) []
    let topo := visit p.adjFull p.fuel (.src 0) []
    if so.any (fun e => !topo.contains e.1) then .error (.build "missing-in-topo") else
    let b : Built := ⟨gt, st.owner, st.argsOf, so, topo⟩
    match compileG p b (p.graphs.length + 1) 0 ⟨[], []⟩ with
    | .error e => .error e
    | .ok cs => .ok (b, cs.trace.reverse)

/-! ### what `onnx.checker` verifies structurally on the nested emission -/

/-- `frames`: visible names, innermost graph first -/
def structOk (p : Prog) : List Ev → List (List V) → Bool
  | [], _ => true
  | .enter _ :: rest, frames => structOk p rest ([] :: frames)
  | .leave _ :: rest, frames => structOk p rest frames.tail
  | .arg a :: rest, frames =>
    match frames with
    | [] => false
    | f :: fs => structOk p rest ((V.node a :: f) :: fs)
  | .emit v :: rest, frames =>
    (p.adjIn v).all (fun u => frames.any (fun f => f.contains u)) &&
    match frames with
    | [] => false
    | f :: fs => structOk p rest ((v :: f) :: fs)

/-! ### `spox.build(inputs, outputs, drop_unused_inputs=…)` (`_public.build`)

`results(**outputs)`, then `.with_arguments(*inputs)` unless `drop_unused_inputs`; `to_onnx_model()` —
the build and then the final `onnx.checker` (`structOk`; a `ValidationError` comes BEFORE the test for
missing inputs); after that a `KeyError` if the model needs an input that was not given; with `drop_unused_inputs` the inputs found
by the traversal (set order) are re-listed in the relative order of `inputs`. -/

/-- the main graph with the requested argument list `build` gives it -/
def Prog.withMainArgs (p : Prog) (args : Option (List Nat)) : Prog :=
  { p with graphs := match p.graphs with
      | [] => []
      | g :: gs => { g with args := args } :: gs }

inductive PubErr
  | build (e : Err)          -- whatever the Builder raised inside `to_onnx_model`
  | validation               -- `onnx.checker` at the end of `to_onnx_model` (before the missing-input test)
  | missingInput             -- KeyError: "Model requires additional inputs not provided in 'inputs'."
deriving Repr, DecidableEq

/-- the inputs of the returned model, in order -/
def keptInputs (inputs found : List Nat) (drop : Bool) : List Nat :=
  if drop then inputs.filter (fun a => found.contains a) else found

def publicBuild (p : Prog) (inputs : List Nat) (drop : Bool) :
    Except PubErr (Built × List Ev × List Nat) :=
  match build (p.withMainArgs (if drop then none else some inputs)) with
  | .error e => .error (.build e)
  | .ok (b, tr) =>
    match structOk (p.withMainArgs (if drop then none else some inputs)) tr [] with
    | false => .error .validation
    | true =>
      let found := lookupL b.argsOf 0
      if found.any (fun a => !inputs.contains a) then .error .missingInput
      else .ok (b, tr, keptInputs inputs found drop)

/-- the vertices emitted as operator applications -/
def emitted : List Ev → List V
  | [] => []
  | .emit v :: rest => v :: emitted rest
  | _ :: rest => emitted rest

/-- the graph in which each vertex was emitted (innermost open graph at the event) -/
def placed : List Ev → List Nat → List (V × Nat)
  | [], _ => []
  | .enter g :: rest, st => placed rest (g :: st)
  | .leave _ :: rest, st => placed rest st.tail
  | .arg _ :: rest, st => placed rest st
  | .emit v :: rest, st => (v, st.headD 0) :: placed rest st

/-! ### well-formedness: creation order (Python objects are immutable, so every node is created
    after its inputs and after the graphs in its attributes) -/
def Prog.WFb (p : Prog) : Bool :=
  (List.range p.nodes.length).all (fun n =>
    (p.inputs n).all (fun i => decide (i < n)) &&
    (p.subs n).all (fun g => decide (g < p.graphs.length) && decide (0 < g) &&
      (p.results g).all (fun r => decide (r < n))) &&
    (!p.isArg n || ((p.inputs n).isEmpty && (p.subs n).isEmpty))) &&
  p.graphs.all (fun pg => pg.results.all (fun r => decide (r < p.nodes.length)) &&
    match pg.args with
    | none => true
    | some a => a.all (fun x => p.isArg x))

end BuildAlg
