import SpoxModel.Model.Func
/-!
# Whole-program requirement collection with function calls (C14, round 10)

`Func.RGraph` abstracts a `Function` node to its finished `opset_req`. Here the *whole program* is one
tree, so that "the requirements of a function's body are part of the model's requirements" — the
hypothesis of `C14.imports_agree_with_model` — becomes a theorem about the code's collection:

* `Node.opset_req` of a plain node / a control-flow node = its own `(domain, version)` set (`req`);
* `Function.opset_req` = `Node.opset_req.fget(self) | self.func_graph._get_build_result().opset_req`
  (`own ++ preqG body`);
* `compile_graph`: node loop `update_metadata` (`opset_req.update(node.opset_req)`), then
  `opset_req |= subgraph_opset_req` (what the builds of the nodes' body graphs collected).

Core Lean only.
-/
namespace Func

mutual
inductive PNode where
  | op (req : List (String × Nat))
  | call (own : List (String × Nat)) (key : Key) (fp : Nat) (body : PGraph)
  | ctrl (req : List (String × Nat)) (subs : List PGraph)
inductive PGraph where
  | mk (nodes : List PNode)
end

mutual
/-- `BuildResult.opset_req` of `compile_graph(g)` (list for set) -/
def preqG : PGraph → List (String × Nat)
  | .mk nodes => pownNs nodes ++ psubNs nodes
/-- collected in the node loop: every node's `opset_req`; a `Function` node's includes its body build's -/
def pownNs : List PNode → List (String × Nat)
  | [] => []
  | .op r :: rest => r ++ pownNs rest
  | .call own _ _ body :: rest => (own ++ preqG body) ++ pownNs rest
  | .ctrl r _ :: rest => r ++ pownNs rest
/-- merged after the node loop: what the builds of body graphs collected -/
def psubNs : List PNode → List (String × Nat)
  | [] => []
  | .op _ :: rest => psubNs rest
  | .call _ _ _ _ :: rest => psubNs rest
  | .ctrl _ subs :: rest => preqGs subs ++ psubNs rest
def preqGs : List PGraph → List (String × Nat)
  | [] => []
  | g :: gs => preqG g ++ preqGs gs
end

mutual
/-- every `Function` node reachable from the program (main graph, control-flow bodies, bodies of called
    functions, recursively) with its body graph — plain structural descent -/
def bodiesG : PGraph → List (Inst × PGraph)
  | .mk nodes => bodiesNs nodes
def bodiesNs : List PNode → List (Inst × PGraph)
  | [] => []
  | .op _ :: rest => bodiesNs rest
  | .call _ k fp body :: rest => ((k, fp), body) :: (bodiesG body ++ bodiesNs rest)
  | .ctrl _ subs :: rest => bodiesGs subs ++ bodiesNs rest
def bodiesGs : List PGraph → List (Inst × PGraph)
  | [] => []
  | g :: gs => bodiesG g ++ bodiesGs gs
end

mutual
/-- forgetting the requirements gives the tree the collection theorems (`defined_once` …) talk about -/
def toF : PGraph → FGraph
  | .mk nodes => .mk (toFNs nodes)
def toFNs : List PNode → List FNode
  | [] => []
  | .op _ :: rest => .op :: toFNs rest
  | .call _ k fp body :: rest => .call k fp (toF body) :: toFNs rest
  | .ctrl _ subs :: rest => .ctrl (toFGs subs) :: toFNs rest
def toFGs : List PGraph → List FGraph
  | [] => []
  | g :: gs => toF g :: toFGs gs
end

end Func
