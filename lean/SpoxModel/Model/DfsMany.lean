import SpoxModel.Model.BuildAlg
/-!
# `iterative_dfs(sources, adj, post_callback)` with several sources (C04, round 10)

The `for s in sources:` loop of `spox._traverse.iterative_dfs`: one DFS per source, all sharing the
visited set / post-order. Core Lean only (the driver runs it against the real function on explicit
generated graphs — `harness/lib_dfstie.py`).
-/
namespace BuildAlg

def visitMany {α : Type} [DecidableEq α] (adj : α → List α) (fuel : Nat) (sources : List α)
    (post : List α) : List α :=
  sources.foldl (fun post s => visit adj fuel s post) post

end BuildAlg
