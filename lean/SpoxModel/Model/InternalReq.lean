/-!
Opset requirement of spox's internal forwarding operators (C02): `_Introduce.opset_req`
(`_internal_op.py`; `build` wraps the requested outputs in one, `intros` is one) and the pass-through part of
`_Inline.opset_req` (`_inline.py`). Both are built into ONNX `Identity` nodes.

    if any(isinstance(var.type, Optional) for var in self.inputs.inputs): return {("", 16)}
    return {("", INTERNAL_MIN_OPSET)}            # 14

A forwarded value is abstracted to the outermost constructor of its static type (`untyped` = no type known).
Core Lean only (the driver links this file). Tie H: the real `opset_req` of `intros(...)` nodes on every
combination of kinds up to length 3, every run.
-/
namespace InternalReq

inductive Kind
  | untyped
  | tensor
  | seq
  | optional
deriving DecidableEq, Repr, Inhabited

/-- `_Introduce.opset_req` (the version asked of the default domain) -/
def introReq (ks : List Kind) : Nat := if ks.any (· == Kind.optional) then 16 else 14

/-- from which version on `Identity` takes a value of that kind, given the three generated constants -/
def identityMin (minTensor minSeq minOptional : Nat) : Kind → Nat
  | .untyped => minTensor
  | .tensor => minTensor
  | .seq => minSeq
  | .optional => minOptional

/-- `_Inline.opset_req` (`_inline.py`): the inlined model's own imports, the internal minimum, and 16 when an
    output that is directly one of the model's inputs - forwarded by an `Identity` that `_Inline.to_onnx` adds -
    is optional-typed. `passThrough` = kinds of the outputs that are directly inputs. -/
def inlineReq (imports : List (String × Nat)) (passThrough : List Kind) : List (String × Nat) :=
  imports ++ [("", 14)] ++ (if passThrough.any (· == Kind.optional) then [("", 16)] else [])

end InternalReq
