/-!
# Named ONNX graphs and the structural checker (C02)

`NGraph` is what a `GraphProto` looks like to the structural half of the property: names only.
`checkStructural` is executed by the driver on the **real** ModelProto of every generated build
(translation validation of the actual output); `Lemmas/Named.lean` proves that acceptance implies
the declarative statement (`defs … Nodup`, `ScopedG`).
Core Lean only.
-/
namespace Named

mutual
inductive NNode where
  | mk (name : String) (inputs outputs : List String) (subs : List NGraph)
inductive NGraph where
  | mk (inputs inits : List String) (nodes : List NNode) (outputs : List String)
end

/-- a definition in the model-wide namespace: `(true, v)` a value name, `(false, n)` a node name -/
abbrev Def := Bool × String

/-- names defined on entering a graph: inputs, then initializers that are not also inputs
    (an initializer carrying an input's name is that input's default value — one definition) -/
def entryNames (ins inits : List String) : List String := ins ++ inits.filter (fun x => decide (x ∉ ins))
def val (xs : List String) : List Def := xs.map (fun x => (true, x))
def nonEmpty (xs : List String) : List String := xs.filter (fun x => decide (x ≠ ""))
def nodeDef (name : String) : List Def := if name = "" then [] else [(false, name)]

mutual
/-- `vis`: value names visible here (this graph so far + enclosing graphs);
    `st`: every definition met so far in the whole model. -/
def checkGraph (vis : List String) (st : List Def) : NGraph → Option (List Def)
  | .mk ins inits nodes outs =>
    if ins.Nodup ∧ inits.Nodup ∧ "" ∉ entryNames ins inits ∧ (∀ d ∈ val (entryNames ins inits), d ∉ st) then
      checkNodes (entryNames ins inits ++ vis) (val (entryNames ins inits) ++ st) nodes outs
    else none
def checkNodes (vis : List String) (st : List Def) : List NNode → List String → Option (List Def)
  | [], outs => if ∀ o ∈ outs, o ∈ vis then some st else none
  | (.mk name ins os subs) :: rest, outs =>
    if (∀ d ∈ nodeDef name, d ∉ st) ∧ (∀ i ∈ ins, i ≠ "" → i ∈ vis) then
      match checkSubs vis (nodeDef name ++ st) subs with
      | none => none
      | some st2 =>
        if (nonEmpty os).Nodup ∧ (∀ d ∈ val (nonEmpty os), d ∉ st2) then
          checkNodes (nonEmpty os ++ vis) (val (nonEmpty os) ++ st2) rest outs
        else none
    else none
def checkSubs (vis : List String) (st : List Def) : List NGraph → Option (List Def)
  | [] => some st
  | g :: gs =>
    match checkGraph vis st g with
    | none => none
    | some st' => checkSubs vis st' gs
end

def checkStructural (g : NGraph) : Bool := (checkGraph [] [] g).isSome

/-! ### the declarative statement -/
mutual
/-- every definition of the graph tree, in order of appearance -/
def defsG : NGraph → List Def
  | .mk ins inits nodes _ => val (entryNames ins inits) ++ defsNs nodes
def defsNs : List NNode → List Def
  | [] => []
  | (.mk name _ os subs) :: rest => nodeDef name ++ (defsGs subs ++ (val (nonEmpty os) ++ defsNs rest))
def defsGs : List NGraph → List Def
  | [] => []
  | g :: gs => defsG g ++ defsGs gs
end

mutual
/-- every non-empty node input is defined earlier in the same graph or in an enclosing graph, and the
    graph's outputs are defined in it or in an enclosing graph -/
def ScopedG (vis : List String) : NGraph → Prop
  | .mk ins inits nodes outs => ScopedNs (entryNames ins inits ++ vis) nodes outs
def ScopedNs (vis : List String) : List NNode → List String → Prop
  | [], outs => ∀ o ∈ outs, o ∈ vis
  | (.mk _ ins os subs) :: rest, outs =>
    (∀ i ∈ ins, i ≠ "" → i ∈ vis) ∧ ScopedGs vis subs ∧ ScopedNs (nonEmpty os ++ vis) rest outs
def ScopedGs (vis : List String) : List NGraph → Prop
  | [] => True
  | g :: gs => ScopedG vis g ∧ ScopedGs vis gs
end

mutual
/-- the two well-formedness clauses the checker asks for besides the declarative statement: the
    initializer list of every graph has no repetition and no entry name is empty -/
def WfG : NGraph → Prop
  | .mk ins inits nodes _ => inits.Nodup ∧ "" ∉ entryNames ins inits ∧ WfNs nodes
def WfNs : List NNode → Prop
  | [] => True
  | (.mk _ _ _ subs) :: rest => WfGs subs ∧ WfNs rest
def WfGs : List NGraph → Prop
  | [] => True
  | g :: gs => WfG g ∧ WfGs gs
end

mutual
/-- `WfG` as a program (run by the driver on every real graph next to `checkStructural`) -/
def wfB : NGraph → Bool
  | .mk ins inits nodes _ => decide inits.Nodup && !(entryNames ins inits).contains "" && wfNsB nodes
def wfNsB : List NNode → Bool
  | [] => true
  | (.mk _ _ _ subs) :: rest => wfGsB subs && wfNsB rest
def wfGsB : List NGraph → Bool
  | [] => true
  | g :: gs => wfB g && wfGsB gs
end

def valueNames (ds : List Def) : List String := (ds.filter (fun d => d.1)).map (·.2)
def nodeNames (ds : List Def) : List String := (ds.filter (fun d => !d.1)).map (·.2)

end Named
