/-!
# Generator-based context managers (C16, C12)

A tiny IR for the bodies of spox's `@contextmanager` functions, CPython's `with` semantics for
them (normal exit, or an exception thrown into the generator at its `yield`), and block programs
nesting the three scoped settings in any order, every body completing normally or raising.

The IR of the three managers is *generated from the source* (`Generated/CtxIR.lean`).
Core Lean only (the driver links this file).
-/
namespace Ctx

inductive Outcome | ok | exn
deriving DecidableEq, Repr

/-- Statements of a `@contextmanager` generator body, as the translator extracts them. -/
inductive Stmt
  | savePrev                       -- prev = G
  | setArg                         -- G = arg          (directly or through the one-line setter)
  | restorePrev                    -- G = prev
  | yield_
  | tryFinally (body fin : List Stmt)
  | opaque                         -- anything the translator could not classify
deriving Repr

/-- The three settings: 0 = type warning level, 1 = value-prop backend, 2 = operator dispatcher. -/
abbrev Globals := Fin 3 → Nat

/-- Observable state: the settings and a log of snapshots taken at probe points. -/
structure World where
  glob : Globals
  log : List (List Nat)

def World.snap (w : World) : World :=
  { w with log := w.log ++ [[w.glob 0, w.glob 1, w.glob 2]] }

structure Frame where
  world : World
  prev : Nat

def setG (g : Globals) (which : Fin 3) (v : Nat) : Globals := fun i => if i = which then v else g i

mutual
def exec (which : Fin 3) (arg : Nat) (body : World → World × Outcome) :
    List Stmt → Frame → Frame × Outcome
  | [], f => (f, .ok)
  | s :: rest, f =>
    match execStmt which arg body s f with
    | (f1, .ok) => exec which arg body rest f1
    | (f1, .exn) => (f1, .exn)
def execStmt (which : Fin 3) (arg : Nat) (body : World → World × Outcome) :
    Stmt → Frame → Frame × Outcome
  | .savePrev, f => ({ f with prev := f.world.glob which }, .ok)
  | .setArg, f => ({ f with world := { f.world with glob := setG f.world.glob which arg } }, .ok)
  | .restorePrev, f =>
      ({ f with world := { f.world with glob := setG f.world.glob which f.prev } }, .ok)
  | .yield_, f => let (w, o) := body f.world; ({ f with world := w }, o)
  | .opaque, f => (f, .ok)
  | .tryFinally b fin, f =>
    match exec which arg body b f with
    | (f1, o1) =>
      match exec which arg body fin f1 with
      | (f2, .ok) => (f2, o1)
      | (f2, .exn) => (f2, .exn)
end

/-- A block program: a `with` block over manager `which` with argument `arg`; its body takes a
    snapshot, runs the inner blocks in order, and then completes or raises. Both the `with` form
    and the decorator form of a manager create a fresh generator per entry, so they coincide. -/
inductive Block
  | withB (which : Fin 3) (arg : Nat) (inner : List Block) (raises : Bool)

structure Managers where
  ir : Fin 3 → List Stmt

mutual
def runBlock (M : Managers) : Block → World → World × Outcome
  | .withB which arg inner raises, w =>
    let r := exec which arg (fun w' =>
        match runBlocks M inner w'.snap with
        | (w'', .ok) => (w'', if raises then .exn else .ok)
        | (w'', .exn) => (w'', .exn)) (M.ir which) ⟨w, 0⟩
    (r.1.world.snap, r.2)
/-- A raising block is caught by the enclosing test harness only at top level; inside a body an
    exception propagates (skipping the remaining siblings). -/
def runBlocks (M : Managers) : List Block → World → World × Outcome
  | [], w => (w, .ok)
  | b :: bs, w =>
    match runBlock M b w with
    | (w1, .ok) => runBlocks M bs w1
    | (w1, .exn) => (w1, .exn)
end

/-- Top level of a history: every block is run inside `try: … except Exception: pass`. -/
def runTop (M : Managers) : List Block → World → World
  | [], w => w
  | b :: bs, w => runTop M bs (runBlock M b w).1

/-- `prev = G; G = arg; try: yield finally: G = prev` -/
def shapeA : List Stmt := [.savePrev, .setArg, .tryFinally [.yield_] [.restorePrev]]
/-- `prev = G; try: G = arg; yield finally: G = prev` -/
def shapeB : List Stmt := [.savePrev, .tryFinally [.setArg, .yield_] [.restorePrev]]
/-- the shape on the pinned tree: `prev = G; G = arg; yield; G = prev` (leaks on exception) -/
def pinnedIR : List Stmt := [.savePrev, .setArg, .yield_, .restorePrev]

def goodShape : List Stmt → Bool
  | [.savePrev, .setArg, .tryFinally [.yield_] [.restorePrev]] => true
  | [.savePrev, .tryFinally [.setArg, .yield_] [.restorePrev]] => true
  | _ => false

theorem goodShape_cases {ir : List Stmt} (h : goodShape ir = true) : ir = shapeA ∨ ir = shapeB := by
  unfold goodShape at h
  split at h
  · exact Or.inl rfl
  · exact Or.inr rfl
  · exact absurd h (by simp)

/-- What the theorems need from the extracted IR (decidable; checked on the generated IR). -/
def Managers.Good (M : Managers) : Prop := ∀ i, goodShape (M.ir i) = true

instance (M : Managers) : Decidable M.Good := by unfold Managers.Good; infer_instance

end Ctx
