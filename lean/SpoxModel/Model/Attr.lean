import SpoxModel.Model.Tensor
import SpoxModel.Model.Float
import SpoxModel.Model.AttrBase
import SpoxModel.Generated.AttrKinds
/-!
# Attribute constructors (`spox/_attributes.py`) and "captured at the call"  (C10)

Core Lean only.

Part 1 — `construct`: what `AttrX(value, name)` does: the class-specific `__init__` steps, the
conversion `_to_onnx_deref` through `onnx.helper.make_attribute`, and `_validate`. The outcome is
either the stored value and the `AttributeProto`, or the *class* of the exception that leaves the call.
Which classes use the generic `_validate`, their declared `AttributeProto` types and the guards in
front of the validation come from `Generated/AttrKinds.lean`.

The numeric conversions on the float path — C's `(float)double` and Python's `float(int)` — are the
bit-level functions `FloatBits.r32` and `FloatBits.i2d` of `Model/Float.lean` (round to nearest, ties to even).

Part 2 — `Capture`: a heap of caller-owned mutable objects, the four ways a constructor can store an
argument, caller-side mutations, and what spox later reads.
-/
namespace Attr
open Tensor Generated.AttrKinds FloatBits

/-- `float(n)` narrowed to binary32; `none` = OverflowError. -/
def intF32 (n : Int) : Option Nat := (i2d n).map r32

/-- A Python value as an attribute constructor sees it (items of a list argument, or the argument). -/
inductive Atom
  | none
  | bool (b : Bool)
  | int (n : Int)
  /-- a Python float, as its binary64 pattern -/
  | float (bits : Nat)
  | str (cs : List Char)
  | bytes (bs : ByteArray)
  /-- an ndarray of one of the 16 representable element types -/
  | ndarray (a : Arr)
  /-- an ndarray of any other element type (object, datetime64, longdouble, …) -/
  | badarray
  /-- a `spox.Type` -/
  | typ
  /-- a dtype-like: `some d` if it denotes one of the 16 element types, `none` for a numpy dtype
      that has no ONNX element type (datetime64, `S3`, longdouble) -/
  | npdtype (d : Option DType)
  | graph
  /-- a list / tuple (as an *item* of a list argument, or where a scalar is expected) -/
  | sequence
  /-- any other object that is neither iterable nor has a `.copy()` -/
  | obj
  deriving DecidableEq

inductive PyVal
  | atom (a : Atom)
  /-- a list / tuple / iterator of items -/
  | seq (items : List Atom)
  deriving DecidableEq

/-- `onnx.AttributeProto` (the fields spox's classes fill). -/
structure AProto where
  name : String
  type : Nat
  f : Nat := 0
  i : Int := 0
  s : ByteArray := ByteArray.empty
  t : Option TProto := none
  hasTypeProto : Bool := false
  floats : List Nat := []
  ints : List Int := []
  strings : List ByteArray := []
  tensors : List TProto := []
  deriving DecidableEq

/-! ONNX IR: `AttributeProto.AttributeType`. -/
def FLOAT := 1
def INT := 2
def STRING := 3
def TENSOR := 4
def GRAPH := 5
def FLOATS := 6
def INTS := 7
def STRINGS := 8
def TENSORS := 9
def TYPE_PROTO := 13

/-- The attribute type the ONNX operator schemas mean by each spox class. -/
def specKind : Cls → Nat
  | .float32 => FLOAT | .int64 => INT | .string => STRING | .tensor => TENSOR | .type_ => TYPE_PROTO
  | .dtype => INT | .graph => GRAPH | .float32s => FLOATS | .int64s => INTS | .strings => STRINGS
  | .tensors => TENSORS

def inInt64 (n : Int) : Bool := decide (-(2 ^ 63 : Int) ≤ n) && decide (n < (2 ^ 63 : Int))

/-- `make_attribute(name, v)` on a non-iterable value; `none` = it (or protobuf) raises. -/
def scalarProto (q : Bool) (name : String) : Atom → Option AProto
  | .bool b => some { name, type := INT, i := if b then 1 else 0 }          -- numbers.Integral
  | .int n => if inInt64 n then some { name, type := INT, i := n } else none  -- protobuf: out of range
  | .float b => some { name, type := FLOAT, f := r32 b }
  | .str cs => some { name, type := STRING, s := encodeStr cs }
  | .bytes bs => some { name, type := STRING, s := bs }
  | .ndarray a => match fromArray q a with                                     -- via from_array: a TensorProto
      | some t => some { name, type := TENSOR, t := some t }
      | none => none
  | .typ => some { name, type := TYPE_PROTO, hasTypeProto := true }
  | _ => none

def itemInt : Atom → Option Int
  | .int n => if inInt64 n then some n else none      -- protobuf refuses bool and float in an int64 field
  | _ => none
def itemFloat : Atom → Option Nat
  | .float b => some (r32 b)
  | .int n => intF32 n
  | .bool b => some (if b then 0x3f800000 else 0)
  | _ => none
def itemStr : Atom → Option ByteArray
  | .str cs => some (encodeStr cs)
  | .bytes bs => some bs
  | _ => none
def itemTensor (q : Bool) : Atom → Option TProto
  | .ndarray a => fromArray q a
  | _ => none

/-- `tuple(value)` as `_AttrIterable.__init__` calls it (`none` = TypeError: not iterable).
    A `str` iterates over its characters. -/
def tupleOf : PyVal → Option (List Atom)
  | .seq items => some items
  | .atom (.str cs) => some (cs.map fun c => .str [c])
  | .atom _ => none

/-- Values outside the model's domain (the theorems `validate_spec` / `wrong_kind_typeerror` and the
    constructor correspondence are about the rest):
    * an ndarray, `bytes` or a nested sequence handed to a *list* attribute class iterates over numpy
      scalars / sub-arrays / byte values, which `Atom` does not describe;
    * for `AttrDtype` the value goes through `np.dtype(value)`, and three of numpy's dtype-like
      grammars are not modelled: **strings / bytes** (type codes and names: `"f"`, `"i4"`, `"float32"`
      are dtypes, `"foo"` is not), **sequences** (`(base, shape)` sub-array specifications —
      `(None, None)` and `("i4", ())` *are* float64 / int32 — and structured field lists), and objects
      with a **`.dtype` attribute** (a spox `Type`). What the model does cover for `AttrDtype`: dtype
      objects and numpy scalar types (`npdtype`), `None`, numbers, arrays, other objects. -/
def inDomain (c : Cls) (v : PyVal) : Bool :=
  if c == .dtype then
    match v with
    | .atom (.str _) | .atom (.bytes _) | .atom .sequence | .atom .typ | .seq _ => false
    | _ => true
  else
    match v with
    | .atom (.ndarray _) | .atom .badarray | .atom .sequence | .atom (.bytes _) => !iterable c
    | _ => true

/-- The stored `_value` and the `AttributeProto`, or the class of the exception. -/
abbrev Outcome := Except Err (PyVal × AProto)

/-- The generic `Attr._validate`: any exception of the conversion becomes TypeError (when the
    handler is the catch-all one), and so does a conversion of another attribute type. -/
def validated (c : Cls) (stored : PyVal) (p : Option AProto) : Outcome :=
  match p with
  | none => .error (if validateCatchAll then .typeError else .other)
  | some p => if p.type ≠ kindOf c then .error .typeError else .ok (stored, p)

/-- `AttrX(value, name)`. -/
def construct (q : Bool) (c : Cls) (name : String) (v : PyVal) : Outcome :=
  match c with
  | .float32 =>
    match v with
    | .atom a =>
      -- `if isinstance(self.value, int): make_attribute(name, float(self.value))`
      let p := match a with
        | .int n => (intF32 n).map fun p => ({ name, type := FLOAT, f := p } : AProto)
        | .bool b => some { name, type := FLOAT, f := if b then 0x3f800000 else 0 }
        | a => scalarProto q name a
      validated c v p
    | .seq _ => validated c v none
  | .int64 | .string | .type_ =>
    match v with
    | .atom a => validated c v (scalarProto q name a)
    | .seq _ => validated c v none   -- iterable branch of make_attribute: INTS/… or ValueError, never the scalar type
  | .tensor =>
    -- `__init__`: (guard) → `value.copy()` → `_validate`
    match v with
    | .atom (.ndarray a) => validated c v (scalarProto q name (.ndarray a))
    | .atom .badarray => validated c v none
    | .atom .sequence | .seq _ =>
      if tensorGuard then .error .typeError else validated c v none     -- a list has `.copy()`; from_array then fails
    | .atom _ => if tensorGuard then .error .typeError else .error .attributeError   -- no `.copy()`
  | .dtype =>
    -- `_validate` = `dtype_to_tensor_type(value)`
    match v with
    | .atom (.npdtype (some d)) => .ok (v, { name, type := INT, i := Generated.TensorEnum.enumOf d })
    | .atom (.npdtype none) =>
      if dtypeCatches.contains "ValueError" then .error .typeError else .error .valueError
    | .seq _ =>
      -- `np.dtype((int, -1))`: numpy reports a malformed specification with ValueError
      if dtypeSpecCatches.contains "ValueError" then .error .typeError else .error .valueError
    | _ => .error .typeError        -- `np.dtype(x)` itself raises TypeError
  | .graph =>
    match v with
    | .atom .graph => .ok (v, { name, type := GRAPH })   -- the proto itself is made by the build callback
    | _ => .error .typeError
  | .float32s | .int64s | .strings | .tensors =>
    match tupleOf v with
    | none => .error .typeError
    | some items =>
      let stored := PyVal.seq items
      let p : Option AProto :=
        match c with
        | .float32s => (items.mapM itemFloat).map fun xs => { name, type := FLOATS, floats := xs }
        | .int64s => (items.mapM itemInt).map fun xs => { name, type := INTS, ints := xs }
        | .strings => (items.mapM itemStr).map fun xs => { name, type := STRINGS, strings := xs }
        | _ => (items.mapM (itemTensor q)).map fun xs => { name, type := TENSORS, tensors := xs }
      validated c stored p

/-- Declarative: the values each class is meant for. -/
def rightKind (c : Cls) (v : PyVal) : Bool :=
  match c, v with
  | .float32, .atom (.float _) => true
  | .float32, .atom (.int n) => (intF32 n).isSome
  | .float32, .atom (.bool _) => true
  | .int64, .atom (.int n) => inInt64 n
  | .int64, .atom (.bool _) => true
  | .string, .atom (.str _) => true
  | .string, .atom (.bytes _) => true
  | .tensor, .atom (.ndarray _) => true
  | .type_, .atom .typ => true
  | .dtype, .atom (.npdtype (some _)) => true
  | .graph, .atom .graph => true
  | .float32s, v => match tupleOf v with
      | some items => items.all fun a => (itemFloat a).isSome
      | none => false
  | .int64s, v => match tupleOf v with
      | some items => items.all fun a => (itemInt a).isSome
      | none => false
  | .strings, v => match tupleOf v with
      | some items => items.all fun a => (itemStr a).isSome
      | none => false
  | .tensors, v => match tupleOf v with
      | some items => items.all fun a => match a with | .ndarray _ => true | _ => false
      | none => false
  | _, _ => false

end Attr

namespace Capture

/-- The caller's mutable objects. `flat l`: contents of the flat container at location `l` (array
    payload, or the items of a list of immutables); `nest l`: the item locations of the list at `l`. -/
structure Heap where
  flat : Nat → List Nat
  nest : Nat → List Nat

/-- The argument the caller passes. -/
inductive Arg
  | imm (v : Nat)
  | flat (l : Nat)
  | nest (l : Nat)
  deriving DecidableEq

def Arg.kind : Arg → Kind
  | .imm _ => .imm | .flat _ => .flat | .nest _ => .nest

/-- What the constructor keeps. Private data is *held by value*: it has no location a caller could
    reach. -/
inductive Stored
  | ref (a : Arg)                        -- the caller's object itself
  | val (xs : List Nat)                  -- private container / tuple of immutable items
  | refs (ls : List Nat)                 -- private list / tuple whose items are still the caller's containers
  | vals (xss : List (List Nat))         -- private list of private containers
  deriving DecidableEq

def capture (m : Mode) (h : Heap) : Arg → Stored
  | .imm v => .val [v]
  | .flat l => match m with
    | .alias | .opaque => .ref (.flat l)
    | _ => .val (h.flat l)
  | .nest l => match m with
    | .alias | .opaque => .ref (.nest l)
    | .copy | .freeze => .refs (h.nest l)
    | .deep => .vals ((h.nest l).map h.flat)

/-- What spox reads from the stored value later (when it builds the model, when it propagates the
    value): model bytes and `_value` are functions of this. -/
def observe (h : Heap) : Stored → List (List Nat)
  | .ref (.imm v) => [[v]]
  | .ref (.flat l) => [h.flat l]
  | .ref (.nest l) => (h.nest l).map h.flat
  | .val xs => [xs]
  | .refs ls => ls.map h.flat
  | .vals xss => xss

/-- A caller-side mutation: any in-place change of one of the caller's objects (item assignment,
    append, `del`, `sort`, `arr[...] = …`, `arr.resize`) replaces its contents. -/
inductive Mut
  | setFlat (l : Nat) (xs : List Nat)
  | setNest (l : Nat) (ls : List Nat)

def Mut.apply (h : Heap) : Mut → Heap
  | .setFlat l xs => { h with flat := fun k => if k = l then xs else h.flat k }
  | .setNest l ls => { h with nest := fun k => if k = l then ls else h.nest k }

def mutate (h : Heap) (ms : List Mut) : Heap := ms.foldl Mut.apply h

/-- Which ways of storing are proof against later mutation, per kind of argument. -/
def safe : Mode → Kind → Bool
  | _, .imm => true
  | .copy, .flat | .freeze, .flat | .deep, .flat => true
  | .deep, .nest => true
  | _, _ => false

/-- A table row passes if what was *observed* is safe and the source text says the same or is at
    least not recognisably an alias. -/
def Entry.ok (e : Entry) : Bool :=
  safe e.observed e.kind && (safe e.ast e.kind || e.ast == .opaque)

end Capture
