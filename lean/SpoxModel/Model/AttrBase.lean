/-!
# Attribute classes and capture modes (shared by the generated tables and `Model/Attr.lean`)  (C10)
Core Lean only.
-/
namespace Attr

/-- The `Attr*` classes of `spox/_attributes.py`. -/
inductive Cls
  | float32 | int64 | string | tensor | type_ | dtype | graph
  | float32s | int64s | strings | tensors
  deriving DecidableEq, Repr, Inhabited

def Cls.all : List Cls :=
  [.float32, .int64, .string, .tensor, .type_, .dtype, .graph, .float32s, .int64s, .strings, .tensors]

def Cls.name : Cls → String
  | .float32 => "AttrFloat32" | .int64 => "AttrInt64" | .string => "AttrString"
  | .tensor => "AttrTensor" | .type_ => "AttrType" | .dtype => "AttrDtype" | .graph => "AttrGraph"
  | .float32s => "AttrFloat32s" | .int64s => "AttrInt64s" | .strings => "AttrStrings"
  | .tensors => "AttrTensors"

def Cls.ofName? (s : String) : Option Cls := Cls.all.find? (fun c => c.name == s)

/-- Python exception classes the constructors can leave with. -/
inductive Err
  | typeError | attributeError | valueError | other
  deriving DecidableEq, Repr, Inhabited

def Err.ofName : String → Err
  | "TypeError" => .typeError | "AttributeError" => .attributeError | "ValueError" => .valueError
  | _ => .other

def Err.name : Err → String
  | .typeError => "TypeError" | .attributeError => "AttributeError" | .valueError => "ValueError"
  | .other => "other"

end Attr

namespace Capture

/-- How a constructor stores an argument it was given. -/
inductive Mode
  /-- keeps the caller's object (`self._value = value`, `np.asarray(value)`, a view, a slice) -/
  | alias
  /-- a new container with the same items: `value.copy()` -/
  | copy
  /-- an immutable container with the same items: `tuple(value)` -/
  | freeze
  /-- a new container of new items: `np.array(value, dtype)`, `tuple(v.copy() for v in value)` -/
  | deep
  /-- (AST column only) an expression the extractor does not classify -/
  | opaque
  deriving DecidableEq, Repr, Inhabited

/-- What the caller handed over. -/
inductive Kind
  /-- an immutable object (int, float, str, dtype, Type) -/
  | imm
  /-- a mutable container of immutable items: an ndarray, a list of numbers / strings / Vars -/
  | flat
  /-- a mutable list of mutable containers: a list of arrays, a nested list -/
  | nest
  deriving DecidableEq, Repr, Inhabited

structure Entry where
  site : String
  kind : Kind
  /-- from the source text (AST) -/
  ast : Mode
  /-- from the sharing relation observed between argument and stored object on this run -/
  observed : Mode
  deriving DecidableEq, Repr

end Capture
