/-!
# Model of `src/spox/_schemas.py`: which ONNX schema is "in force" at a version

`StandardNode.get_schema` = `SCHEMAS[domain][version][name]`, built by
* `_current_schema(schemas, version)`: `available = [s for s in schemas if s.since_version <= version]`
  (`version is None`: all of them); `max(available, key=since_version) if available else None`
  (Python's `max` keeps the FIRST maximal element);
* `_get_schemas_map`: per domain, `version` ranges over `range(min(DOMAIN_VERSIONS[d]), max(...) + 1)`
  (`DOMAIN_VERSIONS[d]` = every since_version of the domain); a name is present at a version iff
  `_current_schema` finds something.
A schema is `(since_version, payload)`. Core Lean only.
-/
namespace SchemaSel

/-- Python's `max(xs, key=since)`: the first element whose key is maximal; `none` on `[]`. -/
def pyMax {σ : Type} : List (Nat × σ) → Option (Nat × σ)
  | [] => none
  | x :: rest =>
    match pyMax rest with
    | none => some x
    | some y => if x.1 < y.1 then some y else some x

/-- `_current_schema(schemas, version)` -/
def currentSchema {σ : Type} (schemas : List (Nat × σ)) (version : Option Nat) : Option (Nat × σ) :=
  pyMax (match version with
    | some v => schemas.filter fun s => decide (s.1 ≤ v)
    | none => schemas)

/-- every since_version of a domain (`DOMAIN_VERSIONS[domain]`, as a list) -/
def allSinces {σ : Type} (lists : List (String × List (Nat × σ))) : List Nat :=
  lists.flatMap fun p => p.2.map (·.1)

/-- `version in range(min(DOMAIN_VERSIONS[d]), max(DOMAIN_VERSIONS[d]) + 1)` -/
def inRange (sinces : List Nat) (version : Nat) : Bool :=
  sinces.any (fun s => decide (s ≤ version)) && sinces.any (fun s => decide (version ≤ s))

def findList {σ : Type} : List (String × List (Nat × σ)) → String → Option (List (Nat × σ))
  | [], _ => none
  | (n, l) :: rest, name => if n == name then some l else findList rest name

/-- `SCHEMAS[domain].get(version, {}).get(name)` for one domain's `SCHEMAS_VER_LISTS[domain]`. -/
def schemasGet {σ : Type} (lists : List (String × List (Nat × σ))) (version : Nat) (name : String) :
    Option (Nat × σ) :=
  if inRange (allSinces lists) version then
    match findList lists name with
    | some l => currentSchema l (some version)
    | none => none
  else none

end SchemaSel
