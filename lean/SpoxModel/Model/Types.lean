/-!
Model of spox's type layer (`_type_system.py`, `_shape.py`, `_utils.py`) for property C13.

Core Lean only (the driver links this file).  Every definition below is executed by the driver
against the real implementation on every run (tie H) except `DtypeTable`, whose only instance is
regenerated from the code on every run (tie G, `Generated/Dtypes.lean`).

* `Natural`, `Shape`, `Ty`                       — `Constant`/`Unknown`, `Shape`, `Type`/`Tensor`/`Sequence`/`Optional`
* `Natural.le`, `Shape.le`, `subtype`            — `__le__` per class, `Shape.__le__`, `_subtype` (with the `==` shortcut and the `Type()` wildcard)
* `bElem`, `bZip`, `broadcast`                   — `_broadcast_elem`, the `zip`, `Shape.broadcast` (with the swap and the left padding)
* `SDim`, `SimpleShape`, `fromSimple`/`toSimple`, `ShapeArg`, `broadcastArg`, `canBroadcast`, `maybeRank`
                                                 — the simple format, `Union[Shape, SimpleShape]` arguments (`None` = unknown rank), `can_broadcast`, `maybe_rank`
* `DimP`, `TypeProto`, `toOnnx`, `fromOnnx`      — the fragment of `onnx.TypeProto` spox reads and writes
* `npElem`, `npZip`, `npBroadcast`               — numpy's broadcasting rule on concrete shapes (specification side)
* `RtVal`, `conforms`, `compat`                  — runtime values, "type describes value", the statement's compatibility (specification side)
-/
namespace Types

/-- `spox._shape.Natural`: `Constant(n)` or `Unknown(label)`; `Unknown("")` is the anonymous one
    (`to_simple` gives `None` for it, `from_simple("")` gives it back). -/
inductive Natural
  | const (n : Nat)
  | unk (label : String)
deriving DecidableEq, Repr, Inhabited

/-- `Shape.dims : Optional[Tuple[Natural, ...]]`; `none` = unknown rank. -/
abbrev Shape := Option (List Natural)

/-- `Natural.__le__` as dispatched per class: `Unknown.__le__` is `True`;
    `Constant.__le__` is `isinstance(other, Unknown) or self == other`. -/
def Natural.le : Natural → Natural → Bool
  | .unk _, _ => true
  | .const _, .unk _ => true
  | .const n, .const m => n == m

/-- `Shape.__le__`: unknown rank on either side ⇒ `True`; different ranks ⇒ `False`;
    else `all(x <= y for x, y in zip(...))`. -/
def Shape.le : Shape → Shape → Bool
  | none, _ => true
  | _, none => true
  | some a, some b => a.length == b.length && (a.zip b).all (fun p => p.1.le p.2)

/-- What the type layer asks of numpy/onnx about element types (tie G: the only instance used is
    `Generated.Dtypes.table`, tabulated by running the three functions on every run).
    Element types are numpy scalar classes, identified by their index in the generated class list. -/
structure DtypeTable where
  /-- `dtype_to_tensor_type(cls)`; `none` = refused (TypeError/ValueError). -/
  toCode : Nat → Option Nat
  /-- class of `Tensor(tensor_type_to_dtype(code))._elem_type`; `none` = refused. -/
  ofCode : Nat → Option Nat
  /-- `issubclass(cls, cls')`. -/
  sub : Nat → Nat → Bool

/-- `spox.Type` and its three dataclass subclasses. `any` is the bare `Type()` (a wildcard on the
    right of `_subtype`; not a type a user program can give to a value). -/
inductive Ty
  | any
  | tensor (e : Nat) (s : Shape)
  | seq (t : Ty)
  | opt (t : Ty)
deriving DecidableEq, Repr, Inhabited

/-- `_subtype`. Every override starts with `other == Type() or self == other`. -/
def subtype (tbl : DtypeTable) : Ty → Ty → Bool
  | .any, b => b == .any
  | .tensor e s, b =>
      b == .any || Ty.tensor e s == b ||
        (match b with
         | .tensor e' s' => tbl.sub e e' && Shape.le s s'
         | _ => false)
  | .seq a, b =>
      b == .any || Ty.seq a == b ||
        (match b with
         | .seq b' => subtype tbl a b'
         | _ => false)
  | .opt a, b =>
      b == .any || Ty.opt a == b ||
        (match b with
         | .opt b' => subtype tbl a b'
         | _ => false)

/-! ### Broadcasting (`Shape.broadcast`, `_broadcast_elem`) -/

/-- `_broadcast_elem` on simple shape elements (`int | str | None`); `none` = `ShapeError`. -/
def bElem (x y : Natural) : Option Natural :=
  if x = y then some x
  else if x = .const 1 then some y
  else if y = .const 1 then some x
  else match x, y with
    | .const _, .const _ => none
    | .const n, .unk _ => some (.const n)
    | .unk _, .const m => some (.const m)
    | .unk _, .unk _ => some (.unk "")

/-- `tuple(_broadcast_elem(x, y) for x, y in zip(a, b))` (`zip` stops at the shorter list). -/
def bZip : List Natural → List Natural → Option (List Natural)
  | x :: xs, y :: ys =>
      match bElem x y with
      | none => none
      | some z => (bZip xs ys).map (z :: ·)
  | _, _ => some []

/-- `Shape.broadcast`: unknown rank ⇒ `Shape(None)`; the longer shape becomes `b`; `a` is padded on
    the left with ones. Outer `none` = `ShapeError`. -/
def broadcast (a b : Shape) : Option Shape :=
  match a, b with
  | none, _ => some none
  | _, none => some none
  | some a, some b =>
      let (a, b) := if a.length > b.length then (b, a) else (a, b)
      (bZip (List.replicate (b.length - a.length) (.const 1) ++ a) b).map some

/-! ### The simple format (`SimpleShape = Optional[Tuple[Union[str, int, None], ...]]`) and arguments
    declared `Union[Shape, SimpleShape]`

In the simple format `None` **is** the spelling of the unknown rank (`Tensor(dtype).shape`), the
element `None` and the empty string both spell the anonymous dimension. -/

/-- One element of a simple shape: `int | str | None`. -/
inductive SDim
  | int (n : Nat)
  | str (s : String)
  | none
deriving DecidableEq, Repr, Inhabited

/-- `SimpleShape`; `none` = Python `None` = unknown rank. -/
abbrev SimpleShape := Option (List SDim)

/-- `Natural.from_simple`. -/
def Natural.fromSimple : SDim → Natural
  | .int n => .const n
  | .str s => .unk s
  | .none => .unk ""

/-- `Constant.to_simple` / `Unknown.to_simple` (`None if not self.label else self.label`). -/
def Natural.toSimple : Natural → SDim
  | .const n => .int n
  | .unk l => if l = "" then .none else .str l

/-- `Shape.from_simple`. -/
def Shape.fromSimple (s : SimpleShape) : Shape := s.map (·.map Natural.fromSimple)

/-- `Shape.to_simple`. -/
def Shape.toSimple (s : Shape) : SimpleShape := s.map (·.map Natural.toSimple)

/-- An argument declared `Union[Shape, SimpleShape]`: a `Shape` object, or anything else (taken to be
    a simple shape — a tuple/list of elements, or `None`). -/
inductive ShapeArg
  | shape (s : Shape)
  | simple (s : SimpleShape)
deriving DecidableEq, Repr, Inhabited

/-- `if not isinstance(other, Shape): other = Shape.from_simple(other)`. -/
def ShapeArg.resolve : ShapeArg → Shape
  | .shape s => s
  | .simple s => Shape.fromSimple s

/-- `Shape.broadcast(self, other)` as called (operand in either spelling). Outer `none` = `ShapeError`. -/
def broadcastArg (self : Shape) (other : ShapeArg) : Option Shape := broadcast self other.resolve

/-- `Shape.maybe_rank`; `Shape.rank` is the same with `ShapeError` for `none`. -/
def Shape.maybeRank (s : Shape) : Option Nat := s.map List.length

/-- `Shape.can_broadcast`: `broadcast` did not raise `ShapeError`. -/
def canBroadcast (self : Shape) (other : ShapeArg) : Bool := (broadcastArg self other).isSome

/-! ### The call boundary of `inline(model)(*args, **kwargs)` (`_public.inline_inner` + `_Inline.infer_output_types`) -/

def lookupKw (kw : List (String × Ty)) (n : String) : Option Ty := (kw.find? (fun p => p.1 == n)).map (·.2)

/-- The value bound to input number `i` (named `n`): positional if there is one, else the keyword argument, else
    the default (the type of the initializer of that name). -/
def bindOne (dflt : List (String × Ty)) (pos : List Ty) (kw : List (String × Ty)) (n : String) (i : Nat) : Option Ty :=
  match pos[i]? with
  | some v => some v
  | none => match lookupKw kw n with
            | some v => some v
            | none => lookupKw dflt n

def bindFrom (dflt : List (String × Ty)) (pos : List Ty) (kw : List (String × Ty)) : List String → Nat → Option (List Ty)
  | [], _ => some []
  | n :: ns, i =>
      match bindOne dflt pos kw n i, bindFrom dflt pos kw ns (i + 1) with
      | some v, some vs => some (v :: vs)
      | _, _ => none

/-- `inline_inner`'s argument processing: `none` = TypeError (too many positional arguments; a name given both
    positionally and by keyword; a missing argument without default; an unknown keyword). Keyword names are unique
    (Python's `**kwargs`). The result lists the bound values in the order of the model's inputs. -/
def bindCall (names : List String) (dflt : List (String × Ty)) (pos : List Ty) (kw : List (String × Ty)) :
    Option (List Ty) :=
  if pos.length > names.length then none
  else if (names.take pos.length).any (fun n => (lookupKw kw n).isSome) then none
  else if kw.any (fun p => !names.contains p.1) then none
  else bindFrom dflt pos kw names 0

/-- The boundary judgement: every bound value against the declared type of its input. -/
def judgeAll (tbl : DtypeTable) : List Ty → List Ty → Bool
  | v :: vs, d :: ds => subtype tbl v d && judgeAll tbl vs ds
  | _, _ => true

/-- `inline(model)(*pos, **kw)` is accepted (no TypeError). `decl` = the model's inputs (name, declared type). -/
def callAccepted (tbl : DtypeTable) (decl : List (String × Ty)) (dflt : List (String × Ty))
    (pos : List Ty) (kw : List (String × Ty)) : Bool :=
  match bindCall (decl.map (·.1)) dflt pos kw with
  | some vs => judgeAll tbl vs (decl.map (·.2))
  | none => false

/-! ### numpy's rule (specification side; compared with `np.broadcast_shapes` on every run) -/

def npElem (a b : Nat) : Option Nat :=
  if a = b then some a else if a = 1 then some b else if b = 1 then some a else none

def npZip : List Nat → List Nat → Option (List Nat)
  | x :: xs, y :: ys =>
      match npElem x y with
      | none => none
      | some z => (npZip xs ys).map (z :: ·)
  | [], [] => some []
  | _, _ => none

/-- numpy: the shorter shape is padded on the left with ones, then dimension by dimension. -/
def npBroadcast (a b : List Nat) : Option (List Nat) :=
  let n := max a.length b.length
  npZip (List.replicate (n - a.length) 1 ++ a) (List.replicate (n - b.length) 1 ++ b)

/-! ### The `onnx.TypeProto` fragment -/

/-- `TensorShapeProto.Dimension`: the `value` oneof. -/
inductive DimP
  | value (n : Nat)
  | param (s : String)
  | unset
deriving DecidableEq, Repr, Inhabited

/-- `onnx.TypeProto`: which `value` field is set. `shape = none` ⇔ `not HasField("shape")`. -/
inductive TypeProto
  | empty
  | tensor (elem : Nat) (shape : Option (List DimP))
  | seq (t : TypeProto)
  | opt (t : TypeProto)
deriving DecidableEq, Repr, Inhabited

/-- `make_tensor_type_proto` on one simple dimension (`Unknown("").to_simple()` is `None`). -/
def Natural.toOnnx : Natural → DimP
  | .const n => .value n
  | .unk l => if l = "" then .unset else .param l

/-- `Natural.from_onnx` = `from_simple ∘ simple_from_onnx`. -/
def Natural.fromOnnx : DimP → Natural
  | .value n => .const n
  | .param s => .unk s
  | .unset => .unk ""

/-- `Type._to_onnx`; `none` = `TypeError` (bare `Type()`, or an element class without ONNX code). -/
def toOnnx (tbl : DtypeTable) : Ty → Option TypeProto
  | .any => none
  | .tensor e s => (tbl.toCode e).map (fun c => .tensor c (s.map (·.map Natural.toOnnx)))
  | .seq t => (toOnnx tbl t).map .seq
  | .opt t => (toOnnx tbl t).map .opt

/-- `Type._from_onnx`; `none` = an exception (no field set, or unknown element code). -/
def fromOnnx (tbl : DtypeTable) : TypeProto → Option Ty
  | .empty => none
  | .tensor c sh => (tbl.ofCode c).map (fun e => .tensor e (sh.map (·.map Natural.fromOnnx)))
  | .seq t => (fromOnnx tbl t).map .seq
  | .opt t => (fromOnnx tbl t).map .opt

/-! ### Runtime values and the statement's compatibility (specification side) -/

/-- Runtime values as far as types can see them: a tensor is its element class and its concrete
    dimensions; a sequence is `nil` or `cons`; an optional is `none` or `some`. -/
inductive RtVal
  | tensor (e : Nat) (dims : List Nat)
  | nil
  | cons (x xs : RtVal)
  | none
  | some (x : RtVal)
deriving DecidableEq, Repr, Inhabited

/-- A concrete size conforms to a dimension: constants must agree, unknown (named or not) is free. -/
def conf (n : Nat) : Natural → Prop
  | .const m => n = m
  | .unk _ => True

instance (n : Nat) (d : Natural) : Decidable (conf n d) := by
  cases d <;> simp only [conf] <;> infer_instance

def confDims : List Nat → List Natural → Prop
  | [], [] => True
  | n :: ns, d :: ds => conf n d ∧ confDims ns ds
  | _, _ => False

def confShape (dims : List Nat) : Shape → Prop
  | Option.none => True
  | Option.some ds => confDims dims ds

/-- "The type describes the value". -/
def conforms : RtVal → Ty → Prop
  | _, .any => True
  | .tensor e dims, .tensor e' s => e = e' ∧ confShape dims s
  | .nil, .seq _ => True
  | .cons x xs, .seq t => conforms x t ∧ conforms xs (.seq t)
  | .none, .opt _ => True
  | .some x, .opt t => conforms x t
  | _, _ => False

/-- A value that actually exhibits an element at every level (a tensor; a sequence whose head does;
    a present optional whose content does). The empty sequence and the empty optional conform to
    every sequence / optional type, so they cannot tell two such types apart; the statement's
    "common runtime value" is a value of this kind. -/
def RtVal.witness : RtVal → Bool
  | .tensor _ _ => true
  | .nil => false
  | .cons x _ => x.witness
  | .none => false
  | .some x => x.witness

/-- Dimension compatibility of the statement: unknown matches anything, constants must agree. -/
def dimCompat : Natural → Natural → Bool
  | .const n, .const m => n == m
  | _, _ => true

/-- Shape compatibility of the statement: unknown rank matches anything; else same rank and
    pairwise compatible dimensions. -/
def shapeCompat : Shape → Shape → Bool
  | some a, some b => a.length == b.length && (a.zip b).all (fun p => dimCompat p.1 p.2)
  | _, _ => true

/-- The statement's compatibility: same constructor and element type; unknown rank or dimension
    matches anything (`any` is the wildcard). -/
def compat : Ty → Ty → Bool
  | .any, _ => true
  | _, .any => true
  | .tensor e s, .tensor e' s' => e == e' && shapeCompat s s'
  | .seq a, .seq b => compat a b
  | .opt a, .opt b => compat a b
  | _, _ => false

/-- No bare `Type()` anywhere inside (what user programs can give to values). -/
def Ty.anyFree : Ty → Bool
  | .any => false
  | .tensor _ _ => true
  | .seq t => t.anyFree
  | .opt t => t.anyFree

/-- Every tensor element class inside satisfies `p`. -/
def Ty.allElems (p : Nat → Bool) : Ty → Bool
  | .any => true
  | .tensor e _ => p e
  | .seq t => t.allElems p
  | .opt t => t.allElems p

end Types
