/-!
# `_initializers_to_constants` of `src/spox/_adapt.py` (C09)

```python
def _initializers_to_constants(graph):
    input_names = {i.name for i in graph.input}
    constants = [make_node("Constant", [], [init.name], value=init)
                 for init in graph.initializer if init.name not in input_names]
    if not constants:
        return
    nodes = constants + list(graph.node)
    del graph.initializer[:]
    del graph.node[:]
    graph.node.extend(nodes)
```
Applied by `adapt_inline` to the converted model of an inlined model (the converter may express a former attribute as
a graph initializer; `_Inline.to_onnx` refuses a graph that still carries initializers). Core Lean only; executed by the
driver against the real function on generated graphs on every run (tie H).
-/
namespace Opset.Inits

abbrev Nm := List Char

/-- a node of the graph: a Constant made from the initializer called `n`, or the `k`-th original node -/
inductive INode where
  | const (n : Nm)
  | orig (k : Nat)
deriving DecidableEq, Repr

structure IGraph where
  inputs : List Nm
  inits : List Nm
  nodes : List INode
deriving DecidableEq, Repr

/-- the initializers that become Constant nodes: those that are not the default value of a graph input -/
def movable (g : IGraph) : List Nm := g.inits.filter (fun n => !g.inputs.contains n)

def toConstants (g : IGraph) : IGraph :=
  if (movable g).isEmpty then g
  else { inputs := g.inputs, inits := [], nodes := (movable g).map .const ++ g.nodes }

end Opset.Inits
