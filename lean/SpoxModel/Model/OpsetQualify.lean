/-!
# The renaming step of `adapt_node` (C09)

After `onnx.version_converter.convert_version` has converted the singleton model of one node, `adapt_node`
(`src/spox/_adapt.py`) renames the values the converter introduced:

```python
target_nodes = list(target_model.graph.node)
known = set(proto.input) | set(proto.output)
introduced = {name for nd in target_nodes for name in nd.output if name and name not in known}
for nd in target_nodes:
    for names in (nd.input, nd.output):
        names[:] = [f"{proto.name}__{name}" if name in introduced else name for name in names]
```

This file models exactly that, at the level of the strings themselves (`List Char`): `introduced`, `ren`,
`qualify`. Core Lean only (linked into the driver; executed against the real `adapt_node` on generated
converter outputs on every run — tie H).
-/
namespace Opset.Qualify

/-- a value / node name, as the list of its characters -/
abbrev Nm := List Char

/-- the input and output names of one NodeProto -/
structure QNode where
  ins : List Nm
  outs : List Nm
deriving Repr, DecidableEq

/-- the separator `"__"` -/
def sep : Nm := ['_', '_']

/-- `f"{p}__{n}"` -/
def qual (p n : Nm) : Nm := p ++ (sep ++ n)

/-- the names the converter introduced: non-empty outputs of the converted nodes that are neither an
    input nor an output of the original node -/
def introduced (known : List Nm) (nodes : List QNode) : List Nm :=
  (nodes.flatMap (·.outs)).filter (fun n => !n.isEmpty && !known.contains n)

/-- the renaming of one name -/
def ren (p : Nm) (intro : List Nm) (n : Nm) : Nm := if intro.contains n then qual p n else n

/-- what `adapt_node` returns for the converter's nodes `nodes` of the node called `p` whose NodeProto has
    inputs `ins` and outputs `outs` -/
def qualify (p : Nm) (ins outs : List Nm) (nodes : List QNode) : List QNode :=
  nodes.map (fun nd => ⟨nd.ins.map (ren p (introduced (ins ++ outs) nodes)),
                        nd.outs.map (ren p (introduced (ins ++ outs) nodes))⟩)

/-- every name occurring in the converter's nodes -/
def occurring (nodes : List QNode) : List Nm := nodes.flatMap (fun nd => nd.ins ++ nd.outs)

/-- A node name as the builder assigns it (`ScopeSpace.enum`: `f"{base}_{i}"`, where `base` is the operator's
    identifier, inside a body prefixed with `f"{subgraph name}__"`): it does not end in `_`. -/
def EndsClean (p : Nm) : Prop := ∀ u, p ≠ u ++ ['_']

/-- A name that does not contain the separator `__` (the names `onnx.version_converter` invents). -/
def NoSep (a : Nm) : Prop := ∀ u v, a ≠ u ++ ('_' :: '_' :: v)

/-- executable versions (what the harness checks of every observed node name / introduced name) -/
def endsCleanB : Nm → Bool
  | [] => true
  | [c] => c != '_'
  | _ :: d :: r => endsCleanB (d :: r)

def noSepB : Nm → Bool
  | c :: d :: r => !(c == '_' && d == '_') && noSepB (d :: r)
  | _ => true

end Opset.Qualify
