import SpoxModel.Model.Emit
/-!
# C18 — user-defined operators (`Node` subclasses, `docs/manual/unstable.rst`)

Model of the three places where a custom operator meets spox's own logic (core Lean only):

* `toOnnx`      — `Node.to_onnx` with `Node`'s defaults (`min_input = len(inputs)`: nothing trimmed);
* `maxOpsetPolicy` — `_schemas.max_opset_policy` applied to the union of all `Node.opset_req`
  (`{(op_type.domain, op_type.version)}` per node): one import per domain, at the highest version;
* `inference`   — `Node.inference`: merge of the `infer_output_types()` / `propagate_values()` hook
  results into the output Vars, and `validateWarnings` — `Node.validate_types`.
-/
namespace Custom
open Emit

/-- `Node.to_onnx` of a plain `Node`: exactly one NodeProto, nothing trimmed. -/
def toOnnx {α β : Type} (n : NodeIn α β) : List (NodeOut α β) := [emitNode { n with mins := none }]

/-! ## opset requirements -/

/-- `max_opset_policy` folds `"ai.onnx"` into the default domain `""`. -/
def normDomain (d : String) : String := if d == "ai.onnx" then "" else d

/-- highest version required for (normalised) domain `d` -/
def maxFor (d : String) : List (String × Nat) → Nat
  | [] => 0
  | (d', v) :: rest => if normDomain d' == d then max v (maxFor d rest) else maxFor d rest

/-- the distinct normalised domains of a requirement set -/
def domainsOf : List (String × Nat) → List String
  | [] => []
  | (d, _) :: rest =>
    let ds := domainsOf rest
    if ds.contains (normDomain d) then ds else normDomain d :: ds

/-- `max_opset_policy`: one entry per domain, the maximum of the versions required.
    (The real function returns a dict sorted by domain; order of imports carries no meaning.) -/
def maxOpsetPolicy (reqs : List (String × Nat)) : List (String × Nat) :=
  (domainsOf reqs).map fun d => (d, maxFor d reqs)

/-! ## inference merge -/

/-- an output Var: its field key (`field` or `field_i`), type and propagated value -/
structure OutState (T V : Type) where
  key : String
  type : Option T
  value : Option V
  deriving Repr, DecidableEq

/-- `dict.get` on a hook result -/
def lookup {γ : Type} : List (String × γ) → String → Option γ
  | [], _ => none
  | (k, x) :: rest, key => if k == key then some x else lookup rest key

inductive Warn where
  | dropped (key : String)       -- "Propagated value … does not type-check, dropping."
  | missing (key : String)       -- "Output type for variable … is missing."
  | notConcrete (key : String)   -- "Output type for variable … was not concrete"
  deriving Repr, DecidableEq

/-- `if var.type is None: var.type = out_types.get(key)` -/
def mergeType {T V : Type} (thook : List (String × T)) (o : OutState T V) : OutState T V :=
  match o.type with
  | some _ => o
  | none => { o with type := lookup thook o.key }

/-- `if var.type is not None and var._value is None and key in out_values:
       prop = PropValue(var.type, out_values.get(key)); if prop.check(): var._value = prop else: warn` -/
def mergeValue {T V : Type} (check : T → V → Bool) (vhook : List (String × V))
    (o : OutState T V) : OutState T V × List Warn :=
  match o.type, o.value, lookup vhook o.key with
  | some t, none, some v =>
    if check t v then ({ o with value := some v }, []) else (o, [Warn.dropped o.key])
  | _, _, _ => (o, [])

/-- `Node.inference(infer_types, propagate_values)`; a hook that is absent or not run is `[]`. -/
def inference {T V : Type} (check : T → V → Bool) (thook : List (String × T))
    (vhook : List (String × V)) (outs : List (OutState T V)) : List (OutState T V) × List Warn :=
  let r := (outs.map (mergeType thook)).map (mergeValue check vhook)
  (r.map (·.1), r.flatMap (·.2))

/-- `Node.validate_types` (`level` = `TypeWarningLevel`: 0 NONE, 1 CRITICAL, 2 INITIAL, 3 OUTPUTS) -/
def validateWarnings {T V : Type} (level : Nat) (concrete : T → Bool)
    (inTypes : List (Option T)) (outs : List (OutState T V)) : List Warn :=
  if level = 0 then [] else
  let missing := outs.filterMap fun o => if o.type.isNone then some (Warn.missing o.key) else none
  if level ≤ 1 then missing else
  let allIn := inTypes.all fun t => match t with
    | some t => concrete t
    | none => false
  if !allIn && level ≤ 2 then missing else
  missing ++ outs.filterMap fun o => match o.type with
    | some t => if concrete t then none else some (Warn.notConcrete o.key)
    | none => none

/-- fresh output Vars of `_init_output_vars`: no type, no value -/
def freshOuts {T V : Type} (keys : List String) : List (OutState T V) :=
  keys.map fun k => { key := k, type := none, value := none }

/-! ## what the built graph carries for a requested output (`Graph.to_onnx`: `result_info`)

`[var.unwrap_type()._to_onnx_value_info(name, concrete=concrete) for name, var in results]`:
in order; `unwrap_type` raises `TypeError` on an untyped Var, `_assert_concrete` raises on a type that is
not concrete when `concrete=True` (the default of `to_onnx_model` / `spox.build`). spox writes no
`graph.value_info` for intermediate values: `graph.output` (and a body's outputs) is where a custom
operator's declared type becomes part of the model. -/

inductive ResErr where
  | untyped (name : String)
  | notConcrete (name : String)
  deriving Repr, DecidableEq

def resultInfo {T V : Type} (concrete : T → Bool) (requireConcrete : Bool) :
    List (String × OutState T V) → Except ResErr (List (String × T))
  | [] => .ok []
  | (n, o) :: rest =>
    match o.type with
    | none => .error (.untyped n)
    | some t =>
      if requireConcrete && !concrete t then .error (.notConcrete n)
      else match resultInfo concrete requireConcrete rest with
        | .ok l => .ok ((n, t) :: l)
        | .error e => .error e

/-- a freshly created output Var of key `k` after `Node.inference` -/
def outAfter {T V : Type} (check : T → V → Bool) (thook : List (String × T)) (vhook : List (String × V))
    (k : String) : OutState T V :=
  (mergeValue check vhook (mergeType thook { key := k, type := none, value := none })).1

/-! ## `Node.__init__` — the plumbing around the hooks

`self.outputs = self._init_output_vars()` (one fresh Var per declared output, `out_variadic` of them
for the variadic field, keyed `field` / `field_i`), `self.inference(infer_types, propagate_values)`
(a hook that is switched off contributes `{}`), `if validate: self.validate_types()`. -/

structure Flags where
  inferTypes : Bool
  propValues : Bool
  validate : Bool
  deriving Repr, DecidableEq

/-- keys of the output Vars: `(field, isVariadic)` in declaration order -/
def outKeysOf (decl : List (String × Bool)) (nvar : Nat) : List String :=
  decl.flatMap fun d =>
    if d.2 then (List.range nvar).map (fun i => d.1 ++ "_" ++ toString i) else [d.1]

def construct {T V : Type} (check : T → V → Bool) (thook : List (String × T)) (vhook : List (String × V))
    (fl : Flags) (level : Nat) (concrete : T → Bool) (inTypes : List (Option T))
    (decl : List (String × Bool)) (nvar : Nat) : List (OutState T V) × List Warn :=
  let r := inference check (if fl.inferTypes then thook else []) (if fl.propValues then vhook else [])
    (freshOuts (outKeysOf decl nvar))
  (r.1, r.2 ++ (if fl.validate then validateWarnings level concrete inTypes r.1 else []))

end Custom
