import SpoxModel.Model.Attr
/-!
# Attribute references (`spox._attributes._Ref`)  (C10, round 6b)
Core Lean only.  An `Attr*` object holds either a concrete value or a `_Ref` to another attribute (function bodies).
Modelled: `_deref` (follow the chain), `Attr.value`, `Attr._to_onnx` for a reference (`AttributeProto(name, ref_attr_name,
type = the referenced attribute's type)`), the constructors on a `_Ref` (`AttrTensor`: `value.copy()` is the `_Ref` itself;
the list classes do not tuple-ise a `_Ref`; then `_validate` - generic / `AttrDtype` / `AttrGraph`), `Attr.deref`.
-/
namespace AttrRef
open Attr Generated.AttrKinds

inductive A where
  /-- a constructed concrete attribute: class, name, stored `_value`, its AttributeProto -/
  | conc (cls : Cls) (name : String) (stored : PyVal) (p : AProto)
  /-- `AttrX(_Ref(target, outer, rname), name)` -/
  | ref (cls : Cls) (name : String) (target : A) (outer : String) (rname : String)

def A.cls : A → Cls
  | .conc c _ _ _ => c
  | .ref c _ _ _ _ => c

def A.name : A → String
  | .conc _ n _ _ => n
  | .ref _ n _ _ _ => n

/-- `_deref(ref)` / `Attr.value`: the stored value of the concrete attribute at the end of the chain. -/
def A.value : A → PyVal
  | .conc _ _ s _ => s
  | .ref _ _ t _ _ => t.value

def A.depth : A → Nat
  | .conc _ _ _ _ => 0
  | .ref _ _ t _ _ => t.depth + 1

/-- `_to_onnx().type`: a reference reports the type of the attribute it refers to. -/
def A.protoType : A → Nat
  | .conc _ _ _ p => p.type
  | .ref _ _ t _ _ => t.protoType

/-- What `_to_onnx()` returns: the concrete proto, or `AttributeProto(name=rname, ref_attr_name=outer, type=…)`. -/
structure RProto where
  name : String
  refAttrName : Option String
  type : Nat
  body : Option AProto
  deriving DecidableEq

def A.toOnnx : A → RProto
  | .conc _ _ _ p => ⟨p.name, none, p.type, some p⟩
  | .ref _ _ t outer rname => ⟨rname, some outer, t.protoType, none⟩

/-- a concrete attribute from the constructor model -/
def mk (q : Bool) (c : Cls) (name : String) (v : PyVal) : Except Err A :=
  match construct q c name v with
  | .ok (sv, p) => .ok (.conc c name sv p)
  | .error e => .error e

/-- `AttrX(_Ref(target, outer, rname), name)`: `__init__` keeps the `_Ref` (no copy, no tuple), then `_validate`. -/
def constructRef (q : Bool) (c : Cls) (name : String) (target : A) (outer rname : String) : Except Err A :=
  match c with
  | .dtype =>
    -- AttrDtype._validate: dtype_to_tensor_type(self.value) on the dereferenced value
    match construct q .dtype name target.value with
    | .ok _ => .ok (.ref c name target outer rname)
    | .error e => .error e
  | .graph =>
    -- AttrGraph._validate: isinstance(self.value, Graph) else TypeError
    match target.value with
    | .atom .graph => .ok (.ref c name target outer rname)
    | _ => .error .typeError
  | _ =>
    -- generic _validate: self._to_onnx().type (= the target's type) must be the class's type
    if target.protoType ≠ kindOf c then .error .typeError else .ok (.ref c name target outer rname)

/-- `Attr.deref()`: a reference is rebuilt as a concrete attribute of the same class, under the holder's name, from the
    dereferenced value; a concrete attribute is returned as it is. -/
def deref (q : Bool) : A → Except Err A
  | .conc c n s p => .ok (.conc c n s p)
  | .ref c n t _ _ => mk q c n t.value

end AttrRef
