import SpoxModel.Model.MLInfer
/-!
# C06 — runtime element type / shape of the operators whose inference spox writes by hand

Written from the ONNX / ONNX-ML operator specifications and onnxruntime's behaviour; this file is
*trusted base*, validated on every run against onnxruntime (`rt_X` vs. a raw ONNX node executed on
all concrete input shapes with dims ≤ 3, see `harness/props/c06.py`). `none` = the runtime refuses
the inputs; where onnxruntime refuses more inputs than the function below, the function is defined
anyway (the soundness theorems have `rt_X … = some w` as a hypothesis, so being defined more often
only makes them stronger).
-/
namespace C06M

/-- What the property observes of a runtime tensor. -/
structure RtVal where
  e : Elem
  s : List Nat
  deriving DecidableEq, Repr

def dimOk : Nat → Dim → Bool
  | n, .const m => n == m
  | _, _ => true

def dimsOk : List Nat → List Dim → Bool
  | [], [] => true
  | n :: ns, d :: ds => dimOk n d && dimsOk ns ds
  | _, _ => false

/-- The property's conformance: same element type; same rank when a shape is reported; equal size in
    every dimension reported as a constant. An untyped Var claims nothing. -/
def conforms (v : RtVal) : ITy → Bool
  | none => true
  | some t => v.e == t.e && (match t.s with | none => true | some ds => dimsOk v.s ds)

def conformsAll : List RtVal → List ITy → Bool
  | [], [] => true
  | v :: vs, t :: ts => conforms v t && conformsAll vs ts
  | _, _ => false

def numel (s : List Nat) : Nat := s.foldl (· * ·) 1

/-- ArrayFeatureExtractor: the last axis is replaced by the number of indices; a vector is treated
    as one row. -/
def rtArrayFeatureExtractor (x y : RtVal) : Option (List RtVal) :=
  match x.s with
  | [] => none
  | [_] => some [⟨x.e, [1, numel y.s]⟩]
  | n0 :: n1 :: nr => some [⟨x.e, (n0 :: n1 :: nr).dropLast ++ [numel y.s]⟩]

def rtBinarizer (x : RtVal) : Option (List RtVal) := some [x]

def rtCategoryMapper (x : RtVal) : Option (List RtVal) :=
  match x.e with
  | .i64 => some [⟨.str, x.s⟩]
  | .str => some [⟨.i64, x.s⟩]
  | _ => none

def rtImputer (x : RtVal) : Option (List RtVal) := some [x]

/-- LinearRegressor: `[N, C] ↦ [N, targets]`, a vector is one row. -/
def rtLinearRegressor (targets : Nat) (x : RtVal) : Option (List RtVal) :=
  match x.s with
  | [_] => some [⟨.f32, [1, targets]⟩]
  | [n, _] => some [⟨.f32, [n, targets]⟩]
  | _ => none

/-- Normalizer: output is always `tensor(float)`; rank 1 or 2. -/
def rtNormalizer (x : RtVal) : Option (List RtVal) :=
  match x.s with
  | [_] => some [⟨.f32, x.s⟩]
  | [_, _] => some [⟨.f32, x.s⟩]
  | _ => none

/-- OneHotEncoder: one trailing axis of size "number of categories"; exactly one of the two category
    lists must be given. -/
def rtOneHotEncoder (catsInt catsStr : Option Nat) (x : RtVal) : Option (List RtVal) :=
  match catsInt, catsStr with
  | some n, none => some [⟨.f32, x.s ++ [n]⟩]
  | none, some n => some [⟨.f32, x.s ++ [n]⟩]
  | _, _ => none

def rtScaler (x : RtVal) : Option (List RtVal) := some [⟨.f32, x.s⟩]

/-- TreeEnsembleClassifier: labels `[N]`, scores `[N, number of class labels]`. -/
def rtTreeEnsembleClassifier (labelsStr labelsInt : Option Nat) (x : RtVal) : Option (List RtVal) :=
  match x.s with
  | [n, _] =>
    match labelsStr, labelsInt with
    | some k, _ => some [⟨.str, [n]⟩, ⟨.f32, [n, k]⟩]
    | none, some k => some [⟨.i64, [n]⟩, ⟨.f32, [n, k]⟩]
    | none, none => none
  | _ => none

def rtTreeEnsembleRegressor (nTargets : Option Nat) (x : RtVal) : Option (List RtVal) :=
  match x.s, nTargets with
  | [n, _], some t => some [⟨.f32, [n, t]⟩]
  | _, _ => none

/-- Compress: `k` = number of selected entries (depends on the condition's *values*; the theorems
    quantify over every `k`). Without `axis` the input is flattened. -/
def rtCompress (axis : Option Int) (k : Nat) (x : RtVal) : Option (List RtVal) :=
  match axis with
  | none => some [⟨x.e, [k]⟩]
  | some a =>
    match normAxis a x.s.length with
    | none => none
    | some i => some [⟨x.e, x.s.set i k⟩]

/-! ### Loop (ONNX specification of `Loop`)

One run of a loop is described by `body i vs`: what the body returns in iteration `i` on carried
values `vs` — `(continue?, next carried values, this iteration's scan slices)` — or `none` when the
runtime fails. (The index makes `body` able to depend on tensor *values*, which `RtVal` forgets.) -/

abbrev Body := Nat → List RtVal → Option (Bool × List RtVal × List RtVal)

/-- `loopRun body M i c vs`: at most `M` further iterations, next iteration index `i`, current
    condition `c`. Returns the final carried values and the scan slices of every iteration. -/
def loopRun (body : Body) : Nat → Nat → Bool → List RtVal → Option (List RtVal × List (List RtVal))
  | 0, _, _, vs => some (vs, [])
  | _ + 1, _, false, vs => some (vs, [])
  | m + 1, i, true, vs =>
    match body i vs with
    | none => none
    | some (c, vs', sc) =>
      match loopRun body m (i + 1) c vs' with
      | none => none
      | some (fin, scs) => some (fin, sc :: scs)

/-- The trip count `M` OMITTED: the loop runs until the condition turns false. `fuel` only bounds the
    evaluation: `none` when the loop has not stopped within `fuel` iterations (a diverging loop produces
    no runtime value, so the property says nothing about it). -/
def loopRunUntil (body : Body) : Nat → Nat → Bool → List RtVal → Option (List RtVal × List (List RtVal))
  | _, _, false, vs => some (vs, [])
  | 0, _, true, _ => none
  | f + 1, i, true, vs =>
    match body i vs with
    | none => none
    | some (c, vs', sc) =>
      match loopRunUntil body f (i + 1) c vs' with
      | none => none
      | some (fin, scs) => some (fin, sc :: scs)

/-- ONNX `Loop` with both optional inputs: `M = none` is an omitted trip count, `cond = none` an omitted
    condition (= true). -/
def loopRunOpt (body : Body) (M : Option Nat) (cond : Option Bool) (fuel : Nat) (vs : List RtVal) :
    Option (List RtVal × List (List RtVal)) :=
  match M with
  | some m => loopRun body m 0 (cond.getD true) vs
  | none => loopRunUntil body fuel 0 (cond.getD true) vs

/-- A scan output stacks the slices of all `k ≥ 1` iterations along a new leading axis; every slice
    must have the shape of the first. -/
def stackScan : List RtVal → Option RtVal
  | [] => none
  | v :: vs => if vs.all (fun w => w == v) then some ⟨v.e, (vs.length + 1) :: v.s⟩ else none

/-- A scan output of a loop that ran **zero** times (onnxruntime): an empty tensor whose leading
    dim is 0 and whose remaining dims are taken from the type the body *declares* for that result
    (constant dims kept, unknown ones arbitrary); any shape if the declared rank is unknown. -/
def emptyScanOk (w : RtVal) (t : Ty) : Bool :=
  w.e == t.e && (match t.s with
    | none => true
    | some ds => match w.s with
      | 0 :: r => dimsOk r ds
      | _ => false)

/-- Column `j` of the per-iteration scan slices (what scan output `j` stacks). -/
def column (scs : List (List RtVal)) (j : Nat) : List RtVal := scs.filterMap (fun row => row[j]?)

end C06M
