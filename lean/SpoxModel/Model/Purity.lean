/-!
# Which statements of spox may write to state that outlives them (C12)

`Generated/Writes.lean` lists every such statement of the hand-written modules (extracted by AST on
every run). This file says which of them are compatible with "build and inline are observationally
pure", and why. Core Lean only.
-/
namespace Purity

structure Site where
  file : String
  func : String          -- enclosing function, qualified by its classes
  recv : String          -- receiver expression (without the written attribute)
  attr : String
  kind : String          -- assign | assign-item | del-item | setattr | rename | …-global | mutate-global | mutate-attr
  ctor : Bool            -- a write to `self` inside __init__/__post_init__/post_init/pre_init
  fin : Bool             -- inside a `finally:` clause
  tryf : Bool            -- inside the body of a `try … finally`
deriving DecidableEq, Repr

/-- What `_public.inline` does with its `model` parameter, statement by statement. -/
inductive Ev | read | copy | mutate | closure | closure_free | rebind | missing
deriving DecidableEq, Repr

inductive Why
  | constructor        -- initialises the object being constructed
  | buildLocal         -- state of an object created afresh by every build (Builder, Scope, ScopeSpace)
  | memo               -- memoised result of a pure computation (Graph._build_result, Attr._cached_onnx, Function.func_*)
  | freshVar           -- field of a Var/Node created by the same call (intro results, subgraph arguments, inferred outputs)
  | swapRestore        -- temporary swap, restored in a `finally`
  | setter             -- `Var._rename` itself (its call sites are listed separately as kind `rename`)
  | setting            -- the three scoped settings (C16)
  | freshProto         -- field of a protobuf message created/copied by the same call
  | notContainer       -- a method that merely shares its name with a container mutator (`Var.__add__` dispatching to `.add`)
deriving DecidableEq, Repr

def startsWith (s p : String) : Bool := p.toList.isPrefixOf s.toList

/-- The swap-and-restore groups: (file, function, receiver, attribute). -/
def swaps : List (String × String × String × String) :=
  [("_adapt.py", "adapt_inline", "node", "model"),
   ("_standard.py", "StandardNode.to_singleton_onnx_model", "self", "attrs"),
   ("_public.py", "_temporary_renames", "arg", "_name")]

def isSwap (s : Site) : Bool := swaps.contains (s.file, s.func, s.recv, s.attr)

/-- Why a site is allowed (`none`: not compatible with purity as far as this table knows). -/
def classify (s : Site) : Option Why :=
  if s.ctor then some .constructor
  else if isSwap s then (if s.fin || s.tryf then some .swapRestore else none)
  else if s.file == "_build.py" && startsWith s.func "Builder." &&
      (s.recv == "self" || s.recv == "self.scope_tree") then
    some .buildLocal
  else if s.file == "_scope.py" && (startsWith s.func "ScopeSpace." || startsWith s.func "Scope.") &&
      (s.recv == "self" || s.recv == "scope") then
    some .buildLocal
  else if s.file == "_standard.py" && s.func == "StandardNode.to_singleton_onnx_model" && s.recv == "scope" then
    some .buildLocal
  else if s.file == "_build.py" && s.func == "Cached.value" && s.recv == "self" && s.attr == "_value" then some .memo
  else if s.file == "_graph.py" && s.func == "Graph._get_build_result" && s.recv == "self._build_result" then some .memo
  else if s.file == "_attributes.py" && s.func == "Attr._to_onnx" && s.attr == "_cached_onnx" then some .memo
  else if s.file == "_function.py" && s.func == "Function.infer_output_types" && s.recv == "self" &&
      startsWith s.attr "func_" then some .memo
  else if s.kind == "rename" &&
      [("_build.py", "Builder.get_intro_results", "var"), ("_graph.py", "subgraph", "var"),
       ("_internal_op.py", "Argument.post_init", "self.outputs.arg")].contains (s.file, s.func, s.recv) then
    some .freshVar
  else if s.file == "_internal_op.py" && s.func == "unsafe_cast" && s.recv == "y" then some .freshVar
  else if s.file == "_node.py" && s.func == "Node.inference" && s.recv == "var" &&
      (s.attr == "type" || s.attr == "_value") then some .freshVar
  else if s.file == "_var.py" && s.func == "Var._rename" && s.recv == "self" && s.attr == "_name" then some .setter
  else if s.file == "_future.py" then some .setting
  else if s.file == "_inline.py" && s.func == "rename_in_graph" then some .freshProto
  else if s.file == "_public.py" && s.func == "build" && s.recv == "model_proto.graph" then some .freshProto
  else if s.file == "_public.py" && s.func == "inline" && startsWith s.recv "model." then some .freshProto
  else if s.file == "_value_prop.py" && s.func == "_run_onnxruntime" && s.recv == "options" then some .freshProto
  -- `_initializers_to_constants(graph)` rewrites the graph it is handed; every caller hands it the graph of
  -- the ModelProto `onnx.version_converter.convert_version` has just returned (obligation
  -- `converter_output_is_fresh` over `Generated.FrontFacts.converterFacts`): never the user's model, never
  -- `_Inline.model`, never a spox object. Only these three writes, only this receiver.
  else if s.file == "_adapt.py" && s.func == "_initializers_to_constants" && s.recv == "graph" &&
      (s.attr == "initializer" || s.attr == "node") &&
      (s.kind == "del-item" || s.kind == "mutate-attr") then some .freshProto
  else if s.kind == "mutate-attr" && s.file == "_var.py" && s.recv == "Var" && s.attr == "_operator_dispatcher" &&
      (s.func == "Var.__add__" || s.func == "Var.__radd__") then some .notContainer
  else none

def allowed (s : Site) : Bool := (classify s).isSome

/-- Every swap group has its restoring write inside a `finally`, and no write outside the `try`. -/
def swapsRestored (sites : List Site) : Bool :=
  swaps.all (fun g =>
    let mine := sites.filter (fun s => (s.file, s.func, s.recv, s.attr) == g)
    mine.any (·.fin) && mine.any (·.tryf) && mine.all (fun s => s.fin || s.tryf))

/-- The fields of a Var that build/inline must not change. -/
def varFields : List String := ["type", "_value", "_name", "_op"]

/-- Non-constructor writes to a Var field are either the swap in `_temporary_renames`, the setter,
    or initialise a Var created by the same call. -/
def varWritesOk (sites : List Site) : Bool :=
  sites.all (fun s => !(varFields.contains s.attr) || s.ctor ||
    (match classify s with
     | some .swapRestore | some .setter | some .freshVar | some .buildLocal | some .memo | some .constructor => true
     | _ => false))

/-- `inline` takes its copy before the first statement that mutates the model, never rebinds the
    parameter otherwise, and defines the returned callback after the copy. -/
def copyBeforeMutate : List Ev → Bool
  | [] => false
  | .copy :: rest => !(rest.contains .rebind) && !(rest.contains .copy) && !(rest.contains .missing)
  | .read :: rest => copyBeforeMutate rest
  | _ :: _ => false

/-! ## State that needs no write site: caches in module-level containers, memoising decorators,
    and the `__dict__` back door (tables extracted by `translator/writes.py` on every run). -/

def endsWith (s p : String) : Bool := p.toList.reverse.isPrefixOf s.toList.reverse

/-- Decorators that keep no state between calls. Anything else (`functools.lru_cache`, `cache`,
    `cached_property`, `singledispatch`, a home-made `memoize` …) is not accepted. -/
def pureDecorators : List String :=
  ["property", "classmethod", "staticmethod", "abc.abstractmethod", "abstractmethod", "overload",
   "typing.overload", "contextmanager", "contextlib.contextmanager", "dataclass", "dataclasses.dataclass",
   "functools.wraps", "wraps", "functools.total_ordering", "total_ordering", "typing.final", "final"]

def decoratorOk (d : String) : Bool :=
  pureDecorators.contains d || endsWith d ".setter" || endsWith d ".getter" || endsWith d ".deleter"

def decoratorsOk (l : List (String × String × String)) : Bool := l.all (fun x => decoratorOk x.2.2)

/-- Tables computed once at import time from the installed `onnx` (never written afterwards: a write
    would be a `<global>` site, and `classify` allows none outside `_future.py`). -/
def importTimeTables : List (String × String) :=
  [("_schemas.py", "ALL_SCHEMAS"), ("_schemas.py", "DOMAINS"), ("_schemas.py", "DOMAIN_VERSIONS"),
   ("_schemas.py", "SCHEMAS_VER_LISTS"), ("_schemas.py", "SCHEMAS")]

/-- Calls at module level whose result is not a container. -/
def pureCtors : List String :=
  ["TypeVar", "typing.TypeVar", "NewType", "typing.NewType", "logging.getLogger", "re.compile",
   "frozenset", "tuple", "namedtuple", "collections.namedtuple", "object"]

/-- (file, name, constructor) of a module-level assignment of a container literal or call result. -/
def moduleMutableOk (x : String × String × String) : Bool :=
  x.2.1 == "__all__" || pureCtors.contains x.2.2 || importTimeTables.contains (x.1, x.2.1)

def moduleMutablesOk (l : List (String × String × String)) : Bool := l.all moduleMutableOk

/-- No statement writes into an import-time table. -/
def importTablesReadOnly (sites : List Site) : Bool :=
  sites.all (fun s => s.recv != "<global>" || !(importTimeTables.any (fun t => t.2 == s.attr)))

/-- The only uses of `x.__dict__` / `vars(x)`: the field enumeration of the dataclass-like
    containers in `_fields.py` (reads). -/
def dictAccessAllowed : List (String × String) :=
  [("_fields.py", "BaseAttributes.get_fields"), ("_fields.py", "BaseVars._flatten"),
   ("_fields.py", "BaseVars.get_fields"), ("_fields.py", "BaseVars._unpack_to_any")]

def dictAccessOk (l : List (String × String)) : Bool := l.all dictAccessAllowed.contains

end Purity
