import SpoxModel.Model.Front
/-!
# An abstract specification of `spox.build` on well-formed requests, and histories of builds (C03, C12)

`specBuild` says what `build` returns without mentioning the name store, `_temporary_renames`, the
iteration order of sets, `discover`'s error checks or the order of `build`'s statements: KeyError if
some output depends on an unlisted argument, otherwise the listed entries (those some output depends
on, when dropping) in the given order, and the outputs as given. `wfReq` is the executable form of
the hypothesis `C03.WellFormed`. `runHist` runs a history of steps over one name store.

Core Lean only (the driver links this file and evaluates all three on every request).
-/
namespace Front

def infoOf (P : List Obj) (e : Entry) : VInfo := ⟨e.name, tyOf P e.obj⟩

/-- The abstract result of `build(inputs, outputs, drop_unused_inputs=drop)` on a well-formed request. -/
def specBuild (P : List Obj) (req : Request) : Except Err Model :=
  if (freeArgs P req.outputs).all (fun a => (req.inputs.map (·.obj)).contains a) then
    .ok { inputs := (if req.drop
                     then req.inputs.filter (fun e => (freeArgs P req.outputs).contains e.obj)
                     else req.inputs).map (infoOf P)
          outputs := req.outputs.map (infoOf P)
          outVars := req.outputs.map (·.obj) }
  else .error .key

def hasDupS : List String → Bool
  | [] => false
  | a :: r => r.contains a || hasDupS r

/-- Executable well-formedness of a request (`C03.wfReq_sound`: implies `C03.WellFormed`). -/
def wfReq (P : List Obj) (req : Request) : Bool :=
  req.inputs.all (fun e => isArg P e.obj) &&
  req.outputs.all (fun e => isVar P e.obj) &&
  !req.outputs.isEmpty &&
  !hasDupS (req.inputs.map (·.name)) &&
  !hasDup (req.inputs.map (·.obj)) &&
  req.outputs.all (fun e => !(req.inputs.map (·.name)).contains e.name) &&
  !(mainInfo P req.outputs).bad &&
  (mainInfo P req.outputs).claimed.all (fun a => !(mainInfo P req.outputs).used.contains a) &&
  req.inputs.all (fun e => !(mainInfo P req.outputs).claimed.contains e.obj)

/-- A history: the steps run one after the other on the same name store (the Vars of the process);
    the results in order and the store at the end. -/
def runHist {α β : Type} (step : α → Renames.Store → Renames.Store × β) :
    List α → Renames.Store → Renames.Store × List β
  | [], s => (s, [])
  | a :: rest, s =>
    let r := step a s
    let t := runHist step rest r.1
    (t.1, r.2 :: t.2)

end Front
