import SpoxModel.Model.Subgraph
/-!
# Callable forms (C19)

`subgraph(types, fun)` calls `fun(*ins)`: Python binds exactly `n = len(types)` positional arguments and no
keyword arguments to the callable's parameters. What matters of a callable (plain function, lambda,
`functools.partial`, bound method, callable instance, decorated function …) is its *signature after
binding*: the number of positional parameters, how many of them (the last ones) have defaults, whether
there is a `*args`, how many keyword-only parameters have no default, and what has been bound already
(`self`, arguments of `partial`).

`accepts` is Python's rule. A callable that does not accept the call raises TypeError before its body
is entered — for `subgraph` it is as good as a non-callable (`effective`).

Core Lean only (the driver links this file).
-/
namespace CallForm
open Subgraph

structure Sig where
  npos : Nat          -- positional(-or-keyword / positional-only) parameters, `self` included
  ndef : Nat          -- how many of them have a default (Python: necessarily the last ones)
  varargs : Bool      -- `*args`
  kwreq : Nat         -- keyword-only parameters without default (`**kwargs`, defaulted ones: irrelevant)
  kwbound : Nat       -- of these, how many have been bound (`functools.partial(f, scale=3)`)
  bound : Nat         -- positional arguments bound already (`self` of a method, `partial(f, x)`)
deriving DecidableEq, Repr, Inhabited

/-- Python's binding of `n` positional arguments (no keywords) to the signature. -/
def accepts (s : Sig) (n : Nat) : Bool :=
  decide (s.npos - s.ndef ≤ n + s.bound) && (s.varargs || decide (n + s.bound ≤ s.npos))
    && decide (s.kwreq ≤ s.kwbound)

/-- The check a "readable arity error" might be tempted to make: as many positional parameters as
    arguments. Wrong: it counts parameters that have defaults (and ignores `*args`, bound ones). -/
def naiveCheck (s : Sig) (n : Nat) : Bool := decide (s.npos = n)

/-- What `subgraph` sees of a callback of behaviour `beh` and signature `s` when it calls it with `n`
    arguments: the behaviour itself if Python accepts the call, else a TypeError without the body
    being entered — exactly what a non-callable gives. -/
def effective (s : Sig) (n : Nat) (beh : CbBehaviour) : CbBehaviour :=
  if accepts s n then beh else .notCallable

/-- `subgraph(types, fun)` for a callback with signature `s`. -/
def subgraphCallSig (s : Sig) (types : List Ty) (cb : Nat) (beh : CbBehaviour) (w : World) :
    Except Err Graph × World :=
  subgraphCall types cb (effective s types.length beh) w

/-- a plain function of exactly `n` parameters -/
def exact (n : Nat) : Sig := ⟨n, 0, false, 0, 0, 0⟩

end CallForm
