import SpoxModel.Model.Func
/-!
# What a function call means (C14 `function_sem`)

Two readings of the same program over straight-line bodies with calls at any nesting depth:

* `evalNodes` — "what the Python body computes": a call runs the body of *that instance* on the
  actual arguments (spox builds a private graph from the body for every `Function` node);
* `evalO` — ONNX function semantics on the built model: call nodes only carry the key
  `(domain, name)`; the body is looked up in the model's function table (one entry per key, built by
  `Func.table` with the differs ⇒ error rule) and evaluated on the actual arguments.

Operator meaning `S` is an arbitrary parameter. An operator node yields one value, a call one value per
declared output of the function (multi-output functions), appended to the environment; inputs are positions in the environment. Core Lean only.
-/
namespace FuncSem

mutual
inductive SNode where
  | op (label : Nat) (ins : List Nat)
  | call (inst : SInst) (ins : List Nat)
inductive SInst where
  | mk (key : Nat) (body : List SNode) (outs : List Nat)
end

/-- nodes as they appear in the built model: a call is just a key -/
inductive ONode where
  | op (label : Nat) (ins : List Nat)
  | call (key : Nat) (ins : List Nat)
deriving DecidableEq, Repr

structure ODef where
  body : List ONode
  outs : List Nat
deriving DecidableEq, Repr

variable {Val : Type}

mutual
def evalNodes (S : Nat → List Val → Val) (dflt : Val) : List SNode → List Val → List Val
  | [], env => env
  | n :: rest, env => evalNodes S dflt rest (env ++ evalNode S dflt n env)
/-- the values a node yields: one for an operator, one per declared output for a call -/
def evalNode (S : Nat → List Val → Val) (dflt : Val) : SNode → List Val → List Val
  | .op l ins, env => [S l (ins.map (fun i => env.getD i dflt))]
  | .call inst ins, env => evalInst S dflt inst (ins.map (fun i => env.getD i dflt))
def evalInst (S : Nat → List Val → Val) (dflt : Val) : SInst → List Val → List Val
  | .mk _ body outs, args => outs.map (fun o => (evalNodes S dflt body args).getD o dflt)
end

mutual
def eraseNs : List SNode → List ONode
  | [] => []
  | n :: rest => eraseN n :: eraseNs rest
def eraseN : SNode → ONode
  | .op l ins => .op l ins
  | .call inst ins => .call (keyOf inst) ins
def keyOf : SInst → Nat
  | .mk k _ _ => k
end

mutual
/-- the definition every reachable instance would contribute: `(key, erased body)` -/
def defsNs : List SNode → List (Nat × ODef)
  | [] => []
  | n :: rest => defsN n ++ defsNs rest
def defsN : SNode → List (Nat × ODef)
  | .op _ _ => []
  | .call inst _ => defsI inst
def defsI : SInst → List (Nat × ODef)
  | .mk k body outs => (k, ⟨eraseNs body, outs⟩) :: defsNs body
end

mutual
def depthNs : List SNode → Nat
  | [] => 0
  | n :: rest => max (depthN n) (depthNs rest)
def depthN : SNode → Nat
  | .op _ _ => 0
  | .call inst _ => depthI inst
def depthI : SInst → Nat
  | .mk _ body _ => depthNs body + 1
end

/-- ONNX reading: `fuel` bounds the call depth (functions cannot be recursive) -/
def evalO (S : Nat → List Val → Val) (dflt : Val) (tbl : List (Nat × ODef)) :
    Nat → List ONode → List Val → Option (List Val)
  | _, [], env => some env
  | fuel, .op l ins :: rest, env =>
    evalO S dflt tbl fuel rest (env ++ [S l (ins.map (fun i => env.getD i dflt))])
  | 0, .call _ _ :: _, _ => none
  | fuel + 1, .call k ins :: rest, env =>
    match Func.lookup tbl k with
    | none => none
    | some d =>
      match evalO S dflt tbl fuel d.body (ins.map (fun i => env.getD i dflt)) with
      | none => none
      | some env' => evalO S dflt tbl (fuel + 1) rest (env ++ d.outs.map (fun o => env'.getD o dflt))
termination_by fuel ns _ => (fuel, ns.length)

/-- the model's function table for a program: all reachable definitions, de-duplicated;
    `none` = the build raises (two different definitions under one key) -/
def buildTable (prog : List SNode) : Option (List (Nat × ODef)) := Func.table [] (defsNs prog)

end FuncSem
