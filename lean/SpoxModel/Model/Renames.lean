/-!
# `_temporary_renames` (C12, used by C03's front-end model)

A tiny IR for the body of the generator context manager `spox._public._temporary_renames`, with
CPython's `with` semantics (the block body runs at the `yield`; an exception raised by the body is
thrown into the generator at the `yield`, so only `finally` clauses still run).

```python
pre = {}
try:
    for name, arg in kwargs.items():
        pre.setdefault(arg, arg._name)     # pinned tree: pre[arg] = arg._name
        arg._rename(name)
    yield
finally:
    for arg, name in pre.items():
        arg._rename(name)
```

The IR of the real function is *generated from the source* (`Generated/RenamesIR.lean`).
Core Lean only (the driver links this file).
-/
namespace Renames

inductive Outcome | ok | exn
deriving DecidableEq, Repr

/-- Statements inside `for name, arg in kwargs.items():`. -/
inductive KwStmt
  | recordFirst     -- pre.setdefault(arg, arg._name)   /  if arg not in pre: pre[arg] = arg._name
  | recordAlways    -- pre[arg] = arg._name
  | renameToKey     -- arg._rename(name)
  | opaque
deriving DecidableEq, Repr

/-- Statements inside `for arg, name in pre.items():`. -/
inductive PreStmt
  | renameToSaved   -- arg._rename(name)
  | opaque
deriving DecidableEq, Repr

inductive Stmt
  | initPre                              -- pre = {}
  | forKw (body : List KwStmt)
  | yield_
  | forPre (body : List PreStmt)
  | tryFinally (body fin : List Stmt)
  | opaque
deriving Repr

/-- `Var._name` of every Var (Vars are numbered). -/
abbrev Store := Nat → Option String

def Store.set (s : Store) (v : Nat) (n : Option String) : Store := fun w => if w = v then n else s w

/-- A Python `dict` keyed by Var identity: insertion ordered; overwriting keeps the position. -/
abbrev Pre := List (Nat × Option String)

def Pre.has (p : Pre) (v : Nat) : Bool := p.any (fun e => e.1 == v)

def Pre.overwrite : Pre → Nat → Option String → Pre
  | [], v, n => [(v, n)]
  | (w, m) :: rest, v, n => if w = v then (w, n) :: rest else (w, m) :: Pre.overwrite rest v n

def Pre.setdefault (p : Pre) (v : Nat) (n : Option String) : Pre := if p.has v then p else p ++ [(v, n)]

structure Frame (β : Type) where
  store : Store
  pre : Pre
  ret : Option β          -- what the `with` body produced (if it was reached)

def execKw {β} (key : String) (arg : Nat) : List KwStmt → Frame β → Frame β
  | [], f => f
  | .recordFirst :: r, f => execKw key arg r { f with pre := f.pre.setdefault arg (f.store arg) }
  | .recordAlways :: r, f => execKw key arg r { f with pre := f.pre.overwrite arg (f.store arg) }
  | .renameToKey :: r, f => execKw key arg r { f with store := f.store.set arg (some key) }
  | .opaque :: r, f => execKw key arg r f

def loopKw {β} (body : List KwStmt) : List (String × Nat) → Frame β → Frame β
  | [], f => f
  | (k, v) :: rest, f => loopKw body rest (execKw k v body f)

def execPre {β} (arg : Nat) (saved : Option String) : List PreStmt → Frame β → Frame β
  | [], f => f
  | .renameToSaved :: r, f => execPre arg saved r { f with store := f.store.set arg saved }
  | .opaque :: r, f => execPre arg saved r f

/-- `for arg, name in pre.items()` iterates over the dictionary as it is when the loop starts. -/
def loopPre {β} (body : List PreStmt) : Pre → Frame β → Frame β
  | [], f => f
  | (v, n) :: rest, f => loopPre body rest (execPre v n body f)

mutual
def exec {β} (kw : List (String × Nat)) (body : Store → Store × Outcome × β) :
    List Stmt → Frame β → Frame β × Outcome
  | [], f => (f, .ok)
  | s :: rest, f =>
    match execStmt kw body s f with
    | (f1, .ok) => exec kw body rest f1
    | (f1, .exn) => (f1, .exn)
def execStmt {β} (kw : List (String × Nat)) (body : Store → Store × Outcome × β) :
    Stmt → Frame β → Frame β × Outcome
  | .initPre, f => ({ f with pre := [] }, .ok)
  | .forKw b, f => (loopKw b kw f, .ok)
  | .yield_, f =>
    match body f.store with
    | (s, o, b) => ({ f with store := s, ret := some b }, o)
  | .forPre b, f => (loopPre b f.pre f, .ok)
  | .opaque, f => (f, .ok)
  | .tryFinally b fin, f =>
    match exec kw body b f with
    | (f1, o1) =>
      match exec kw body fin f1 with
      | (f2, .ok) => (f2, o1)
      | (f2, .exn) => (f2, .exn)
end

/-- `with _temporary_renames(**kw): body` started with the Vars named as in `s`. -/
def run {β} (ir : List Stmt) (kw : List (String × Nat)) (body : Store → Store × Outcome × β)
    (s : Store) : Store × Outcome × Option β :=
  match exec kw body ir ⟨s, [], none⟩ with
  | (f, o) => (f.store, o, f.ret)

/-- the fixed shape -/
def fixedIR : List Stmt :=
  [.initPre, .tryFinally [.forKw [.recordFirst, .renameToKey], .yield_] [.forPre [.renameToSaved]]]
/-- the shape on the pinned tree (`pre[arg] = arg._name`): leaks when a Var occurs under two keys -/
def pinnedIR : List Stmt :=
  [.initPre, .tryFinally [.forKw [.recordAlways, .renameToKey], .yield_] [.forPre [.renameToSaved]]]
/-- the fixed shape without its `finally` (leaks when the body raises) -/
def noFinallyIR : List Stmt :=
  [.initPre, .forKw [.recordFirst, .renameToKey], .yield_, .forPre [.renameToSaved]]

def goodShape : List Stmt → Bool
  | [.initPre, .tryFinally [.forKw [.recordFirst, .renameToKey], .yield_] [.forPre [.renameToSaved]]] => true
  | _ => false

theorem goodShape_eq {ir : List Stmt} (h : goodShape ir = true) : ir = fixedIR := by
  unfold goodShape at h
  split at h
  · rfl
  · exact absurd h (by simp)

/-- The names while the block body runs (entering renames every listed Var to its key, in order). -/
def enter (kw : List (String × Nat)) (s : Store) : Store :=
  kw.foldl (fun st e => st.set e.2 (some e.1)) s

end Renames
