import SpoxModel.Model.ValueProp
/-!
# Construction histories (C07, C15)

A program, as far as value propagation is concerned, is a *history* of constructor calls. Each call
appends one node whose inputs are Vars of earlier nodes. The third-party parts enter every step as
parameters: the types the type half of `Node.inference` produced (`outs`), what the evaluator did
(`b : Backend`) and - for the statement about executions - the run-time meaning of the operator
(`sem`). Theorems quantify over all histories, hence over all of these.

`unsafe_cast` / `unsafe_reshape` (which copy `_value` onto a Var of a *declared-by-the-user* type)
are outside the model: they are unsafe by contract.
-/
namespace VP

/-- A Var: output `out` of node number `node` (creation order). -/
structure VarRef where
  node : Nat
  out : Nat
deriving DecidableEq, Repr

inductive NodeKind
  | argument      -- `argument(...)`: a model input
  | constant      -- `Constant` / `initializer`: value embedded in the node
  | standard
  | inline
deriving DecidableEq, Repr

structure NodeRec where
  kind : NodeKind
  inputs : List VarRef
  outputs : List OutVar
  /-- run-time meaning of the node: values of the inputs ↦ value of the output called `key`
      (for `constant` it ignores its argument; unused for `argument`). -/
  sem : List Payload → String → Option Payload
  /-- recorded at construction: the node did NOT propagate (`propagates sel traits = false`: backend NONE,
      sampling operator, subgraph carrier, inlined control flow). Arguments / constants: `false`. -/
  guarded : Bool := false
  /-- the node SAMPLES (a sampling operator, or an inlined model containing one): its run-time result is no
      function of its inputs - every run draws it anew. -/
  sampling : Bool := false

abbrev State := List NodeRec

def State.var? (st : State) (r : VarRef) : Option OutVar :=
  match st[r.node]? with
  | some n => n.outputs[r.out]?
  | none => none

/-- One constructor call. -/
inductive Step
  | argument (key : String) (ty : Ty)
  /-- Constant (any `value*` attribute) or initializer: `propagate_values` returns the embedded array
      whatever the backend setting; `ty` is what type inference said. -/
  | constant (key : String) (ty : Option Ty) (p : Payload)
  /-- `traits`: sampling operator / subgraph-carrying operator (see `Traits`). -/
  | standard (sel : BackendSel) (inputs : List VarRef) (inNames : List String)
      (outs : List (String × Option Ty)) (traits : Traits) (b : Backend)
      (sem : List Payload → String → Option Payload)
  /-- `traits.inlineControlFlow`: the inlined graph contains a node with a subgraph attribute. -/
  | inline (sel : BackendSel) (inputs : List VarRef) (inNames : List String) (gnames : List String)
      (outs : List (String × Option Ty)) (traits : Traits) (b : Backend)
      (sem : List Payload → String → Option Payload)

/-- The singleton-scope view of an input Var. -/
def mkInVar (st : State) (name : String) (r : VarRef) : InVar :=
  match st.var? r with
  | some o => { name := name, whichOutput := some o.key, type := o.type, hasValue := o.value.isSome }
  | none => { name := name, whichOutput := none, type := none, hasValue := false }

def mkCtx (st : State) (inputs : List VarRef) (inNames : List String)
    (outs : List (String × Option Ty)) (hasSubgraph : Bool) : NodeCtx :=
  { inputs := (inNames.zip inputs).map fun p => mkInVar st p.1 p.2,
    outputs := outs.map fun p => { key := p.1, type := p.2, value := none },
    hasSubgraph := hasSubgraph }

/-- Inputs must be Vars that exist (spox cannot be handed anything else). -/
def inputsExist (st : State) (inputs : List VarRef) : Bool :=
  inputs.all fun r => (st.var? r).isSome

def step (v : Variant) (st : State) : Step → Except Exc State
  | .argument key ty =>
    .ok (st ++ [{ kind := .argument, inputs := [], outputs := [⟨key, some ty, none⟩],
                  sem := fun _ _ => none }])
  | .constant key ty p =>
    let outs := merge v [(key, p)] [⟨key, ty, none⟩]
    .ok (st ++ [{ kind := .constant, inputs := [], outputs := outs.map (·.1),
                  sem := fun _ k => if k = key then some p.normalise else none }])
  | .standard sel inputs inNames outs traits b sem =>
    if !inputsExist st inputs || inNames.length != inputs.length then .error .typeError else
    match construct v sel .standard (mkCtx st inputs inNames outs traits.skips) b with
    | .error e => .error e
    | .ok res => .ok (st ++ [{ kind := .standard, inputs := inputs, outputs := res.map (·.1), sem := sem,
                               guarded := !propagates sel traits, sampling := traits.sampling }])
  | .inline sel inputs inNames gnames outs traits b sem =>
    if !inputsExist st inputs || inNames.length != inputs.length then .error .typeError else
    match construct v sel (.inline gnames) (mkCtx st inputs inNames outs traits.skips) b with
    | .error e => .error e
    | .ok res => .ok (st ++ [{ kind := .inline, inputs := inputs, outputs := res.map (·.1), sem := sem,
                               guarded := !propagates sel traits, sampling := traits.sampling }])

/-- Run a history; a raising constructor call leaves no node behind (the program sees the
    exception; the theorems are about the calls that returned). -/
def run (v : Variant) : State → List Step → State
  | st, [] => st
  | st, s :: rest =>
    match step v st s with
    | .ok st' => run v st' rest
    | .error _ => run v st rest

/-- The states reachable from the empty program. -/
inductive Reachable (v : Variant) : State → Prop
  | empty : Reachable v []
  | step {st st' : State} (s : Step) : Reachable v st → step v st s = .ok st' → Reachable v st'

/-- Dependency cone: `InCone st a r` - node `a` is reachable from Var `r` along input edges. -/
inductive InCone (st : State) : Nat → VarRef → Prop
  | self (r : VarRef) : InCone st r.node r
  | input {a : Nat} {r i : VarRef} {n : NodeRec} :
      st[r.node]? = some n → i ∈ n.inputs → InCone st a i → InCone st a r

/-! ### executions -/

/-- Run-time values of all Vars, node by node, for one binding of the model inputs (`bind n` = the value
    fed for the Argument node `n`) and one outcome of all random draws (`smp n key` = what the sampling node
    `n` produced on its output `key` in this run - ANY function: the semantics of a sampling node is a
    relation, every draw is a possible run). Deterministic nodes apply their meaning `sem` to the run-time
    values of their inputs. -/
def rowOf (bind : Nat → Payload) (smp : Nat → String → Option Payload)
    (tbl : List (List (Option Payload))) (idx : Nat) (n : NodeRec) : List (Option Payload) :=
  match n.kind with
  | .argument => n.outputs.map fun _ => some (bind idx)
  | _ =>
    if n.sampling then n.outputs.map fun o => smp idx o.key
    else
      let ins := n.inputs.map fun r => ((tbl[r.node]?.bind fun row => row[r.out]?).join).getD .none
      n.outputs.map fun o => n.sem ins o.key

def table (bind : Nat → Payload) (smp : Nat → String → Option Payload) : State → List (List (Option Payload))
  | st => st.foldl (fun tbl n => tbl ++ [rowOf bind smp tbl tbl.length n]) []

/-- The run-time value of Var `r` in the run determined by the input binding and the random draws. -/
def denote (bind : Nat → Payload) (smp : Nat → String → Option Payload) (st : State) (r : VarRef) : Option Payload :=
  ((table bind smp st)[r.node]?.bind fun row => row[r.out]?).join

end VP
