import SpoxModel.Model.MLInfer
/-!
# What ONNX's own inference answers for the `ai.onnx.ml` operators whose inference spox replaces (C05)

For Scaler, LinearRegressor, Normalizer, Imputer ONNX's
type-and-shape inference assigns the output an element type and **no shape**; for Binarizer it
propagates the input type as it is. `onnxMlElem` is that element type. Tie H (C05, every run): for
every generated call of these operators that ONNX accepts, the model-free oracle's answer is compared
with `onnxMlElem` (and with "no shape" / "the input's shape" for Binarizer). (ArrayFeatureExtractor and
OneHotEncoder are not in this family: ONNX infers a shape for them - found by this very tie.) spox's side of the
comparison is C06's `MLInfer` (one function per hand-written `infer_output_types`, tied on every run of
C06). Core Lean only.
-/
namespace MLOnnx
open C06M

/-- element type of the (first) output ONNX infers, from the operator and the element type of `X` -/
def onnxMlElem : String → Elem → Elem
  | "Scaler", _ => .f32
  | "LinearRegressor", _ => .f32
  | "Normalizer", _ => .f32
  | _, e => e   -- Binarizer, Imputer: the element type of X

/-- every output Var is typed, with element type `e` (ONNX gives these operators' outputs no shape, so
    this is "refines ONNX's answer") -/
def mlTyped (outs : List ITy) (e : Elem) : Bool :=
  outs.all (fun o => match o with
    | some t => t.e == e
    | none => false)

/-- the constructor's outcome agrees with or refines ONNX's (rejecting more is allowed) -/
def mlRefines (r : Res) (e : Elem) : Bool :=
  match r with
  | .ok outs => mlTyped outs e
  | .err _ => true

end MLOnnx
