/-!
# Structural facts about the build path (C03, C12)

`Generated/FrontFacts.lean` (from `translator/front_facts.py`, every run) lists the self-recursive
functions of the hand-written modules on the build path, and four syntactic facts about the
`intros` / `intro` / `unsafe_cast` / `Builder.get_intro_results` chain. This file says which are
accepted. Core Lean only.
-/
namespace FrontFacts

/-- Functions that may call themselves: their recursion follows *nesting* (subgraphs inside
    subgraphs, Sequence/Optional inside types, subgraphs of an inlined model), whose depth is a
    handful. Recursion along *dependency edges* is not accepted: a chain of thousands of operators
    is an ordinary model, Python's recursion limit is 1000 (the traversal is `iterative_dfs`). -/
def nestingRecursion : List (String × String) :=
  [("_build.py", "Builder.discover"), ("_standard.py", "_strip_dim_symbol"),
   -- added with fix c899b77 (reviewed: recurses on `typ.elem_type` of Sequence/Optional only — type nesting)
   ("_standard.py", "_dim_symbols"), ("_inline.py", "rename_in_graph")]

def recursionOk (l : List (String × String)) : Bool := l.all nestingRecursion.contains

def requiredIntroFacts : List String :=
  ["intros_returns_fresh_outputs", "intro_results_from_intros", "intro_uses_intros", "unsafe_cast_writes_fresh"]

/-- Every required fact is present and holds: `intros` always makes a new `_Introduce` node and
    returns *its* outputs (no fast path handing the caller's Vars back), `get_intro_results` renames
    only elements of that result, `intro` / `unsafe_cast` write only on such fresh Vars. -/
def introFactsOk (l : List (String × Bool)) : Bool :=
  l.all (·.2) && requiredIntroFacts.all (fun k => l.any (fun e => e.1 == k))

def requiredConverterFacts : List String :=
  ["helper_called_only_on_converter_output", "helper_has_a_caller", "helper_writes_only_its_parameter"]

/-- `_adapt._initializers_to_constants` rewrites its argument in place; it is only ever given
    `<v>.graph` with `<v> = onnx.version_converter.convert_version(…)` — a ModelProto created by that
    call, held by nobody else — and writes nothing but that argument. -/
def converterFactsOk (l : List (String × Bool)) : Bool :=
  l.all (·.2) && requiredConverterFacts.all (fun k => l.any (fun e => e.1 == k))

/-- The places of `_public.py` / `_inline.py` where an order is taken from a set, and why each is harmless:
    `inline`'s `for name in missing` only fills the dictionary `kwargs`, which is then read in the order of
    `in_names` (a list). Any other site is unknown to this model. -/
def knownSetIterations : List (String × String × String) := [("_public.py", "inline", "missing")]

def setIterOk (l : List (String × String × String)) : Bool := l.all knownSetIterations.contains

end FrontFacts
