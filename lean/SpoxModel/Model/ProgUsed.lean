import SpoxModel.Model.Prog
/-!
# Which arguments a requested graph reads (`drop_unused_inputs`, arguments found by traversal)

`spox.build(..., drop_unused_inputs=True)` (= `results(...).to_onnx_model()` without `with_arguments`)
lists as model inputs exactly the `Argument`s found by traversing the requested results through node
inputs **and through the bodies of control-flow nodes at any nesting depth**, in the caller's order.
`needed` is that traversal on the creation-ordered program (one pass, newest first: a node's
references are added when the node itself is wanted), `usedArgs` the resulting input list and
`dropUnused` the main graph that build option asks for.  Core Lean only (the driver links this file).
-/
namespace Prog

/-- The node ids a node refers to: its present inputs and the results of its bodies. -/
def PNode.refs (n : PNode) : List Nat :=
  n.inputs.filterMap (fun o => o.map (·.node)) ++ n.subs.flatMap (fun g => g.results.map (·.node))

/-- Ids reachable from `want` through inputs and body results (newest first; id = number of older
    nodes).  The returned list contains `want`. -/
def needed : List PNode → List Nat → List Nat
  | [], want => want
  | n :: older, want =>
    if want.contains older.length then needed older (n.refs ++ want) else needed older want

/-- The arguments of `main` that its results read (at whatever depth), in the order of `main.args`. -/
def usedArgs (prog : List PNode) (main : PGraph) : List Nat :=
  main.args.filter (needed prog (main.results.map (·.node))).contains

/-- The actual values of the kept arguments (positional, as `updArgs` binds them). -/
def usedVals {Val : Type} [Inhabited Val] (keep : Nat → Bool) : List Nat → List Val → List Val
  | [], _ => []
  | a :: as, vs =>
    if keep a then vs.headD default :: usedVals keep as vs.tail else usedVals keep as vs.tail

/-- The main graph `drop_unused_inputs=True` asks for: same results, only the used arguments. -/
def dropUnused (prog : List PNode) (main : PGraph) : PGraph :=
  ⟨usedArgs prog main, main.results⟩

/-- Executable: argument nodes have no inputs and no bodies. -/
def argsLeaf : List PNode → Bool
  | [] => true
  | n :: older => (n.kind.label?.isSome || n.refs.isEmpty) && argsLeaf older

/-- Executable: `a` is not a formal argument of any body of the program. -/
def notFormal (prog : List PNode) (a : Nat) : Bool :=
  prog.all (fun n => n.subs.all (fun g => !g.args.contains a))

end Prog
