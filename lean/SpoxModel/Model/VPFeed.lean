import SpoxModel.Model.ValueProp
/-!
# The feed side of value propagation (C07, C15): `PropValue.to_ref_value` / `to_ort_value`

`StandardNode.propagate_values_onnx` and `_Inline.propagate_values` hand the values of the input Vars to the
backend through `wrap_feed` (`get_backend_calls()`): `to_ref_value` under REFERENCE, `to_ort_value` under
ONNXRUNTIME. Both are transcribed here with their quirks:

* `to_ref_value` wraps the payload of an Optional in a singleton list (`[inner]`), `None` stays `None`;
* `to_ort_value` does NOT wrap the payload of a top-level Optional, and converts everything BELOW the top level
  with `to_ref_value` (sic) - so an Optional nested inside a Sequence is fed as a singleton list even to
  onnxruntime.

Core Lean only (the driver links this file).
-/
namespace VP

mutual
/-- `PropValue.to_ref_value` as a function of the payload (it never looks at the declared type). -/
def Payload.toRef : Payload → RefVal
  | .arr dt sh pid => .arr dt sh pid
  | .list xs => .list (toRefs xs)
  | .some v => .list [v.toRef]
  | .none => .none
def PropValue.toRef : PropValue → RefVal
  | .mk _ v => v.toRef
/-- `[elem.to_ref_value() for elem in self.value]`. -/
def toRefs : List PropValue → List RefVal
  | [] => []
  | x :: xs => x.toRef :: toRefs xs
end

/-- `PropValue.to_ort_value`: only the top level differs from `to_ref_value`. -/
def Payload.toOrt : Payload → RefVal
  | .arr dt sh pid => .arr dt sh pid
  | .list xs => .list (toRefs xs)
  | .some v => v.toRef
  | .none => .none

/-- `wrap_feed` of `get_backend_calls()` (`NONE` raises RuntimeError there, before anything is wrapped). -/
def wrapFeed : BackendSel → Payload → Except Exc RefVal
  | .reference, p => .ok p.toRef
  | .onnxruntime, p => .ok p.toOrt
  | .none, _ => .error .runtimeError

/-- ONNX tensor element types (what a `Tensor` type can declare); the other `DT`s only occur on arrays. -/
def DT.isElem : DT → Bool
  | .object | .objmixed | .longlong | .ulonglong | .other => false
  | _ => true

/-- No Optional anywhere (tensors and sequences of such). -/
def Ty.optFree : Ty → Bool
  | .tensor e _ => e.isElem
  | .seq t => t.optFree
  | .opt _ => false

/-- Types on which the REFERENCE representation is unambiguous: element types are ONNX element types and no
    Optional sits DIRECTLY inside an Optional (`[None]` would be unwrapped to `None`). -/
def Ty.refOk : Ty → Bool
  | .tensor e _ => e.isElem
  | .seq t => t.refOk
  | .opt (.opt _) => false
  | .opt t => t.refOk

/-- Types on which the ONNXRUNTIME representation round-trips: an Optional at most at the top. -/
def Ty.ortOk : Ty → Bool
  | .opt t => t.optFree
  | t => t.optFree

/-- The types on which `wrap_feed` / `unwrap_feed` of the selected backend are inverse to each other. -/
def feedOk : BackendSel → Ty → Bool
  | .reference, t => t.refOk
  | .onnxruntime, t => t.ortOk
  | .none, _ => true

/-- What a value looks like after it went to the backend representation and back under the type `t`:
    same containers, same arrays (`pid`) and shapes; every array carries exactly the declared element type and
    the nested PropValues are declared with the element type of `t`. (Specification side only.) -/
def retype : Ty → Payload → Payload
  | .tensor e _, .arr _ sh pid => .arr e sh pid
  | .seq t, .list xs => .list (xs.map fun x => .mk t (retype t x.value))
  | .opt t, .some x => .some (.mk t (retype t x.value))
  | _, p => p

end VP
