import SpoxModel.Model.MLInfer
import SpoxModel.Model.RtShape
/-!
# C06 — the type spox reports for the results of `If` (round 10)

`If` has no `infer_output_types` override: `StandardNode.infer_output_types_onnx` builds a singleton
model in which each branch is replaced by a *dummy typed subgraph* (`_standard.py`,
`_make_dummy_subgraph`: no body, outputs declared with the types of the branch's result Vars — an untyped
result Var makes `unwrap` raise `TypeError`), runs ONNX's inference (the `If` rule joins the two
branches' declared output types) and strips `unk__` symbols. What comes out, as a function of the result
types of the two branches, is `inferIf`:

* a result Var without a type in either branch → `TypeError`;
* different numbers of results, no result at all, or different element types → `InferenceError`;
* otherwise per result: the common element type; rank unknown unless both ranks are known and equal;
  a dim is kept (constant or symbol) only where both branches report the SAME dim, else unknown.

Tie H: `Drv/C06.lean` (`{"k":"if"}`) runs `inferIf`; `harness/props/c06.py::corr_if` compares it with the
real `op.if_` of every opset module v17–v21 on every run. `ifRun` is the ONNX semantics of `If` at the
level the property observes (the values of the branch that runs), compared with onnxruntime on raw `If`
nodes by the same facet. Core Lean only.
-/
namespace C06M

/-- One dim of the joined type: kept only where both branches report the same dim. -/
def joinDim (a b : Dim) : Dim := if a = b then a else .anon

/-- `none` = the ranks differ. -/
def joinDims : List Dim → List Dim → Option (List Dim)
  | [], [] => some []
  | a :: as, b :: bs => (joinDims as bs).map (joinDim a b :: ·)
  | _, _ => none

/-- `none` = the element types differ (ONNX: "Mismatched tensor element type"). -/
def joinTy (t e : Ty) : Option Ty :=
  if t.e = e.e then
    some ⟨t.e, match t.s, e.s with
      | some a, some b => joinDims a b
      | _, _ => none⟩
  else none

/-- `none` = different numbers of results or some pair with different element types. -/
def joinAll : List Ty → List Ty → Option (List Ty)
  | [], [] => some []
  | t :: ts, e :: es =>
    match joinTy t e, joinAll ts es with
    | some j, some js => some (j :: js)
    | _, _ => none
  | _, _ => none

/-- Reported types of `if_(cond, then_branch = T, else_branch = E)` from the result types of the branches. -/
def inferIf (T E : List ITy) : Res :=
  match allTyped T, allTyped E with
  | some t, some e =>
    if t.isEmpty && e.isEmpty then .err .inference
    else match joinAll t e with
      | some js => .ok (js.map some)
      | none => .err .inference
  | _, _ => .err .typeErr

/-- ONNX `If`: the results are the results of the branch the condition selects. -/
def ifRun (c : Bool) (thenVals elseVals : List RtVal) : List RtVal := if c then thenVals else elseVals

end C06M
