/-!
# Attribute arguments of the shipped constructors, and Python iterables handed to them  (C10, round 6)
Core Lean only.

`Shape`: one row shape of the generated inventory of every `Attributes(...)` keyword of every shipped constructor.

`Src`: a Python iterable as a constructor sees it.  A list / tuple / array / range / dict view can be iterated any
number of times; a generator / iterator / `map` / `zip` / `chain` / `reversed` hands its items out **once**.  A
constructor makes a sequence of passes over the caller's object (`tuple(value)`, a validation loop,
`next(iter(value))` ...) and stores what its last pass yielded.  `stored` is that semantics; the passes each entry
point makes are *observed on every run* with an instrumented iterable (`Generated.AttrSites.iterPasses`) and bounded
from the source text (`callerLoads`).
-/
namespace AttrSite

inductive Form
  /-- `AttrX(p, name="…")` -/
  | direct
  /-- `AttrX.maybe(p, name="…")` -/
  | maybe
  deriving DecidableEq, Repr, Inhabited

structure Shape where
  cls : String
  form : Form
  required : Bool
  /-- Attributes field = constructor parameter = ONNX attribute name -/
  sameName : Bool
  count : Nat
  deriving DecidableEq, Repr

structure Src (α : Type) where
  /-- what a complete iteration started now yields -/
  items : List α
  /-- the items come once (generator, iterator, map, zip …) -/
  oneShot : Bool
  deriving Repr

inductive Pass
  /-- a complete iteration (`tuple(value)`, `list(value)`, `for v in value`) -/
  | full
  /-- an iteration abandoned after `n` items (`next(iter(value))`, a `for` with `break`) -/
  | upto (n : Nat)
  deriving DecidableEq, Repr, Inhabited

structure IterRow where
  site : String
  form : Form
  passes : List Pass
  deriving DecidableEq, Repr

/-- One pass over the source: what it yields, and the source afterwards. -/
def Src.pass {α : Type} (s : Src α) : Pass → List α × Src α
  | .full => (s.items, if s.oneShot then ⟨[], true⟩ else s)
  | .upto n => (s.items.take n, if s.oneShot then ⟨s.items.drop n, true⟩ else s)

/-- The constructor iterates the caller's object as `ps` says and stores the yield of its LAST pass. -/
def stored {α : Type} : List Pass → Src α → List α
  | [], _ => []
  | [p], s => (s.pass p).1
  | p :: q :: rest, s => stored (q :: rest) (s.pass p).2

def isListCls (c : String) : Bool :=
  c == "AttrInt64s" || c == "AttrFloat32s" || c == "AttrStrings" || c == "AttrTensors"

/-- the row of the capture table that covers an attribute argument of this shape
    (`_AttrIterable.maybe` overrides `Attr.maybe` for the list classes; `Attr.maybe` is `cls(value, name)`) -/
def Shape.captureSite (s : Shape) : String :=
  if s.form == .maybe && isListCls s.cls then "_AttrIterable.maybe" else s.cls

end AttrSite
