import SpoxModel.Model.CallGraph
/-!
# Subgraph callbacks (C19)

* a small expression IR for the *argument-type lists* the control-flow constructors hand to
  `subgraph(types, fun)` and for their `out_variadic` expressions — the IR of every constructor is
  *generated from the source* (`Generated/SubgraphSpecs.lean`);
* an evaluator for it with Python's semantics (slices, list comprehension, `+`, `unwrap_type`,
  `unwrap_tensor`, `.elem_type`, `Tensor(dtype, shape)`), errors as exception classes;
* `subgraph(types, fun)` as a step over a world that *logs every callback invocation* and hands out
  fresh argument ids;
* a constructor call (all `subgraph(…)` calls in source order, then `out_variadic`) and the steps that
  may follow it (builds, inference, value propagation), whose only access to callbacks is through the
  call sites listed in `Generated/CallbackSites.lean`.

Core Lean only (the driver links this file).
-/
namespace Subgraph

/-! ## Types -/

/-- A dimension of a tensor shape: an integer, a symbolic name or `None`. Never inspected. -/
inductive Dim
  | n (k : Nat)
  | s (name : String)
  | unk
deriving DecidableEq, Repr, Inhabited

/-- spox types. `dt` is the ONNX `TensorProto.DataType` number; `shape = none` is an unknown shape. -/
inductive Ty
  | tensor (dt : Nat) (shape : Option (List Dim))
  | seq (elem : Ty)
  | opt (elem : Ty)
deriving DecidableEq, Repr, Inhabited

/-- Exception classes the evaluation of a constructor can end in. -/
inductive Err
  | typeError
  | attributeError
  | other
deriving DecidableEq, Repr, Inhabited

deriving instance DecidableEq for Except

/-- An operand `Var`: its type, or `none` when the Var's type is unknown (`var.type is None`). -/
abbrev Operand := Option Ty

def dtInt64 : Nat := 7
def dtBool : Nat := 9

/-! ## Python list slicing -/

/-- Python's normalisation of a slice bound against a sequence of length `len`. -/
def normIdx (len : Nat) (i : Int) : Nat :=
  if i < 0 then (i + (len : Int)).toNat else min i.toNat len

/-- `xs[lo:hi]` (step 1) with Python semantics (negative bounds, clamping). -/
def pySlice (xs : List α) (lo hi : Option Int) : List α :=
  let a := match lo with | none => 0 | some i => normIdx xs.length i
  let b := match hi with | none => xs.length | some i => normIdx xs.length i
  (xs.drop a).take (b - a)

/-! ## The expression IR -/

/-- Integer expressions used as slice bounds. -/
inductive Idx
  | lit (i : Int)
  | param (name : String)          -- an int parameter of the constructor (`num_scan_inputs`)
  | len (list : String)            -- `len(<list parameter>)`
  | sub (a b : Idx)
  | add (a b : Idx)
deriving DecidableEq, Repr, Inhabited

/-- The iterable of a comprehension: a list parameter, optionally sliced. -/
structure Src where
  list : String
  lo : Option Idx
  hi : Option Idx
deriving DecidableEq, Repr, Inhabited

/-- Which Var an expression looks at. -/
inductive VarRef
  | loopVar                        -- the comprehension variable
  | single (name : String)         -- a single-Var parameter (`input_sequence`)
deriving DecidableEq, Repr, Inhabited

/-- Shape argument of `Tensor(E.dtype, <shape>)`. -/
inductive ShExpr
  | same                                   -- `E.shape`
  | sliceIfKnown (lo hi : Option Int)      -- `(lambda x: x[lo:hi] if x is not None else None)(E.shape)`
  | unknown                                -- no shape argument: `Tensor(E.dtype)`
deriving DecidableEq, Repr, Inhabited

inductive TyExpr
  | unwrapType (v : VarRef)                -- `v.unwrap_type()`
  | unwrapTensor (v : VarRef)              -- `v.unwrap_tensor()`
  | elemType (e : TyExpr)                  -- `typing_cast(SpoxSequence, e).elem_type`
  | tensorOf (e : TyExpr) (sh : ShExpr)    -- `Tensor(e.dtype, sh(e.shape))`
  | const (t : Ty)                         -- `Tensor(np.int64, (1,))`
  | ifSeq (c a b : TyExpr)                 -- `a if isinstance(c, SpoxSequence) else b`
  | opaque                                 -- not understood by the translator
deriving DecidableEq, Repr, Inhabited

inductive ListExpr
  | empty                                  -- `()`
  | lit (ts : List TyExpr)                 -- `[e1, e2]`
  | comp (body : TyExpr) (src : Src)       -- `[body for var in src]`
  | append (a b : ListExpr)                -- `a + b`
  | opaque
deriving DecidableEq, Repr, Inhabited

/-- One control-flow constructor: its `subgraph(types, callback)` calls in source order (callback
    parameter name, type-list expression) and `out_variadic = len(<graph of callback>.requested_results) - minus`. -/
structure CtorSpec where
  subgraphs : List (String × ListExpr)
  outGraph : String
  outMinus : Int
deriving DecidableEq, Repr, Inhabited

/-! ## Evaluation -/

/-- The actual parameters of a constructor call. -/
structure Env where
  lists : String → List Operand
  singles : String → Operand
  ints : String → Int

def evalIdx (env : Env) : Idx → Int
  | .lit i => i
  | .param p => env.ints p
  | .len l => (env.lists l).length
  | .sub a b => evalIdx env a - evalIdx env b
  | .add a b => evalIdx env a + evalIdx env b

def evalSrc (env : Env) (s : Src) : List Operand :=
  pySlice (env.lists s.list) (s.lo.map (evalIdx env)) (s.hi.map (evalIdx env))

/-- `mapM` for `Except`, written out so that proofs go by plain list induction. -/
def mapE (f : α → Except Err β) : List α → Except Err (List β)
  | [] => .ok []
  | x :: xs =>
    match f x with
    | .error e => .error e
    | .ok y =>
      match mapE f xs with
      | .error e => .error e
      | .ok ys => .ok (y :: ys)

def lookupVar (env : Env) (var : Option Operand) : VarRef → Except Err Operand
  | .loopVar => match var with | some o => .ok o | none => .error .other
  | .single nm => .ok (env.singles nm)

def applyShape : ShExpr → Option (List Dim) → Option (List Dim)
  | .same, sh => sh
  | .unknown, _ => none
  | .sliceIfKnown lo hi, sh => sh.map (fun x => pySlice x lo hi)

def evalTy (env : Env) (var : Option Operand) : TyExpr → Except Err Ty
  | .unwrapType v =>
    match lookupVar env var v with
    | .error e => .error e
    | .ok none => .error .typeError             -- "unknown type": `unwrap_type` raises TypeError
    | .ok (some t) => .ok t
  | .unwrapTensor v =>
    match lookupVar env var v with
    | .error e => .error e
    | .ok none => .error .typeError
    | .ok (some (.tensor dt sh)) => .ok (.tensor dt sh)
    | .ok (some _) => .error .typeError         -- `Type.unwrap_tensor` raises TypeError
  | .elemType e =>
    match evalTy env var e with
    | .error err => .error err
    | .ok (.seq t) => .ok t
    | .ok (.opt t) => .ok t                     -- `Optional` has an `elem_type` field as well
    | .ok (.tensor _ _) => .error .attributeError
  | .tensorOf e sh =>
    match evalTy env var e with
    | .error err => .error err
    | .ok (.tensor dt s) => .ok (.tensor dt (applyShape sh s))
    | .ok _ => .error .attributeError           -- `.dtype` of a non-tensor
  | .const t => .ok t
  | .ifSeq c a b =>
    match evalTy env var c with
    | .error err => .error err
    | .ok (.seq _) => evalTy env var a
    | .ok _ => evalTy env var b
  | .opaque => .error .other

def appendE (a b : Except Err (List Ty)) : Except Err (List Ty) :=
  match a with
  | .error e => .error e
  | .ok xs => match b with
    | .error e => .error e
    | .ok ys => .ok (xs ++ ys)

def evalList (env : Env) : ListExpr → Except Err (List Ty)
  | .empty => .ok []
  | .lit ts => mapE (evalTy env none) ts
  | .comp body src => mapE (fun o => evalTy env (some o) body) (evalSrc env src)
  | .append a b => appendE (evalList env a) (evalList env b)
  | .opaque => .error .other

/-! ## `subgraph(types, fun)` and the world -/

/-- What a user callback does when it is called (as far as `subgraph` can tell). -/
inductive CbBehaviour
  | notCallable                    -- the object passed is not callable
  | returnsVars (n : Nat)          -- an iterable of `n` Vars
  | nonIterable                    -- a result that is not iterable (a single Var, None, an int)
  | hasNonVar (n : Nat)            -- an iterable of length `n` containing something that is not a Var
  | raises                         -- the callback itself raises (its own exception class)
deriving DecidableEq, Repr, Inhabited

def CbBehaviour.callable : CbBehaviour → Bool
  | .notCallable => false
  | _ => true

/-- Outcome of validating the callback's return value (`raises`: the callback's own exception). -/
def CbBehaviour.result : CbBehaviour → Except Err Nat
  | .returnsVars n => .ok n
  | .raises => .error .other
  | _ => .error .typeError

/-- A callback is *good* if it returns an iterable of Vars, *bad* if `subgraph` must reject it. -/
def CbBehaviour.bad : CbBehaviour → Bool
  | .notCallable => true
  | .nonIterable => true
  | .hasNonVar _ => true
  | _ => false
def CbBehaviour.good : CbBehaviour → Bool
  | .returnsVars _ => true
  | _ => false

/-- What one element of a callback's (iterable) result is: a Var (instances of subclasses included),
    a list / tuple / other container *of Vars* (not a Var: nothing is spliced in), or anything else. -/
inductive ElemKind
  | var
  | seqOfVars
  | nonVar
deriving DecidableEq, Repr, Inhabited

/-- The behaviour of a callback returning an iterable with these elements: every element must be a
    Var — a nested list of Vars is a non-Var element like any other. -/
def behaviourOfElems (es : List ElemKind) : CbBehaviour :=
  if es.all (fun e => e == .var) then .returnsVars es.length else .hasNonVar es.length

/-- One callback invocation. -/
structure Event where
  cb : Nat                         -- identity of the callback object
  args : List Nat                  -- ids of the argument Vars it received
  types : List Ty                  -- their types, in order
deriving DecidableEq, Repr, Inhabited

structure World where
  events : List Event              -- newest first
  fresh : Nat                      -- next unused Var id
deriving Repr, Inhabited

/-- Number of invocations of callback `cb` so far. -/
def World.count (w : World) (cb : Nat) : Nat := (w.events.filter (fun e => e.cb == cb)).length

/-- A subgraph as `subgraph` returns it. -/
structure Graph where
  cb : Nat
  args : List Nat
  nResults : Nat
deriving DecidableEq, Repr, Inhabited

/-- `n` fresh ids starting at `start`. -/
def freshIds (start n : Nat) : List Nat := (List.range n).map (· + start)

/-- `subgraph(types, fun)`: fresh unnamed arguments are created first; a non-callable `fun` is
    rejected before any call; the callback is invoked exactly once; its result is validated. -/
def subgraphCall (types : List Ty) (cb : Nat) (beh : CbBehaviour) (w : World) :
    Except Err Graph × World :=
  let ins := freshIds w.fresh types.length
  let w1 : World := { w with fresh := w.fresh + types.length }
  if beh.callable then
    let w2 : World := { w1 with events := ⟨cb, ins, types⟩ :: w1.events }
    match beh.result with
    | .ok n => (.ok ⟨cb, ins, n⟩, w2)
    | .error e => (.error e, w2)
  else (.error .typeError, w1)

/-- What is passed as `types` to `subgraph(types, fun)`. -/
inductive TypesArg
  | notIterable                    -- `None`, an int, a single `Type`
  | hasNonType                     -- an iterable with an element that is not a `Type` (a string, `[t, None]`)
  | ok (ts : List Ty)              -- an iterable of Types: list, tuple, generator, `map`, dict keys …
deriving DecidableEq, Repr, Inhabited

/-- `subgraph(types, fun)` from its first line: `types` is materialised and validated before anything
    else — for a malformed one no argument is created and the callback is not even looked at; any iterable
    of Types (one-shot ones included) stands for its elements. -/
def subgraphEntry (ta : TypesArg) (cb : Nat) (beh : CbBehaviour) (w : World) : Except Err Graph × World :=
  match ta with
  | .ok ts => subgraphCall ts cb beh w
  | _ => (.error .typeError, w)

/-- The callbacks passed to a constructor: parameter name ↦ (identity, behaviour). -/
abbrev Callbacks := String → Nat × CbBehaviour

/-- The `subgraph(…)` calls of a constructor, in source order; stops at the first exception. -/
def runSubgraphs (env : Env) (cbs : Callbacks) :
    List (String × ListExpr) → World → Except Err (List (String × Graph)) × World
  | [], w => (.ok [], w)
  | (nm, e) :: rest, w =>
    match evalList env e with
    | .error err => (.error err, w)
    | .ok types =>
      match subgraphCall types (cbs nm).1 (cbs nm).2 w with
      | (.error err, w1) => (.error err, w1)
      | (.ok g, w1) =>
        match runSubgraphs env cbs rest w1 with
        | (.error err, w2) => (.error err, w2)
        | (.ok gs, w2) => (.ok ((nm, g) :: gs), w2)

/-- The node a constructor produces (as far as this property looks at it). -/
structure Node where
  graphs : List (String × Graph)
  outVariadic : Int
deriving Repr, Inhabited

def lookupGraph (gs : List (String × Graph)) (nm : String) : Option Graph :=
  (gs.find? (fun p => p.1 == nm)).map (·.2)

/-- A constructor call: the subgraphs, then `out_variadic`. Type inference of the new node works on
    typed dummy subgraphs and has no access to the callbacks. -/
def construct (spec : CtorSpec) (env : Env) (cbs : Callbacks) (w : World) :
    Except Err Node × World :=
  match runSubgraphs env cbs spec.subgraphs w with
  | (.error err, w1) => (.error err, w1)
  | (.ok gs, w1) =>
    match lookupGraph gs spec.outGraph with
    | none => (.error .other, w1)
    | some g => (.ok ⟨gs, (g.nResults : Int) - spec.outMinus⟩, w1)

/-! ## What may follow a constructor call -/

/-- Operations on a finished node / on a graph containing it. -/
inductive Step
  | build              -- `spox.build` / `Graph.to_onnx` / `to_onnx_model`
  | infer              -- type inference re-run (`infer_output_types`, `Node.inference`, `validate_types`)
  | valueProp          -- `propagate_values`
  | inspect            -- reading `_arguments`, `requested_results`, repr, ==, hash
  | copy               -- `copy.copy` / `copy.deepcopy` / pickling hooks
  | graphMethod        -- `with_name` / `with_doc` / `with_arguments` / `with_opset` (dataclasses.replace)
  | inline             -- `inline(build(…))` of a model containing the node
  | varMethod          -- any method of a result `Var`
deriving DecidableEq, Repr, Inhabited

/-- the kind under which the step's entry functions are listed in the generated call graph -/
def Step.kind : Step → String
  | .build => "build" | .infer => "infer" | .valueProp => "valueProp" | .inspect => "inspect"
  | .copy => "copy" | .graphMethod => "graphMethod" | .inline => "inline" | .varMethod => "varMethod"

/-- Re-run every stored constructor of a node (what `Graph._reconstruct` would do). -/
def reinvoke (node : Node) (w : World) : World :=
  node.graphs.foldl (fun w p =>
    { events := ⟨p.2.cb, freshIds w.fresh p.2.args.length, []⟩ :: w.events,
      fresh := w.fresh + p.2.args.length }) w

/-- A later step runs code reachable, in the call graph *extracted from the source*, from the step's
    entry functions; it re-invokes the stored callbacks iff a function that invokes a stored callback
    is reachable from them. -/
def postStep (g : CallGraph.Graph) (node : Node) (s : Step) (w : World) : World :=
  if g.reachesSink (g.entriesOf s.kind) then reinvoke node w else w

def runSteps (g : CallGraph.Graph) (node : Node) : List Step → World → World
  | [], w => w
  | s :: rest, w => runSteps g node rest (postStep g node s w)

end Subgraph
