import SpoxModel.Model.Subgraph
/-!
# What ONNX prescribes for the arguments of control-flow bodies (C19)

Written from the ONNX operator specification (If-16/19/21, Loop-16/19/21, Scan-16/19/21,
SequenceMap-17), *not* from spox:

* **If**: `then_branch` / `else_branch` take no inputs.
* **Loop**: body inputs are `(iteration_num, condition, loop carried dependencies…)`; the iteration
  number is a *scalar* `tensor(int64)`, the condition a *scalar* `tensor(bool)` ("tensor of int64 /
  bool, which should be a scalar"), each carried value has the type of the corresponding `v_initial`.
* **Scan**: with `M = num_scan_inputs` and `N = (number of operands) − M`, the body inputs are the `N`
  state variables *first*, typed like the initial states, then the `M` scan inputs, each with its
  scan axis (`scan_input_axes[i]`, default 0, negative counts from the end) removed.
* **SequenceMap**: the body inputs are one element of `input_sequence`, then for every additional
  input either its element type (sequence operands) or the operand's own type (tensor operands).

Also: which functions may legitimately touch a callback (`allowed…`), and the computation of the
"extra" call sites from the lists extracted from the source.

Core Lean only.
-/
namespace SubgraphSpec
open Subgraph

/-- A tensor type. -/
structure TensorT where
  dt : Nat
  shape : Option (List Dim)
deriving DecidableEq, Repr, Inhabited

def TensorT.ty (t : TensorT) : Ty := .tensor t.dt t.shape

/-! ### If -/
def ifPresc : List Ty := []

/-! ### Loop -/
/-- Loop body inputs when iteration number and condition are declared with shape `sh`. -/
def loopPrescWith (sh : Option (List Dim)) (carried : List Ty) : List Ty :=
  [.tensor dtInt64 sh, .tensor dtBool sh] ++ carried

/-- ONNX: scalars. -/
def loopPresc (carried : List Ty) : List Ty := loopPrescWith (some []) carried

/-! ### Scan -/
/-- Remove axis `ax` from a shape (negative: from the end); an unknown shape stays unknown. -/
def dropAxis (ax : Int) : Option (List Dim) → Option (List Dim)
  | none => none
  | some ds => some (ds.eraseIdx (if ax < 0 then (ax + (ds.length : Int)).toNat else ax.toNat))

/-- The scan inputs with their scan axes removed; missing axes default to 0. -/
def stripAxes : List TensorT → List Int → List Ty
  | [], _ => []
  | t :: ts, [] => .tensor t.dt (dropAxis 0 t.shape) :: stripAxes ts []
  | t :: ts, a :: as => .tensor t.dt (dropAxis a t.shape) :: stripAxes ts as

/-- `ops` = initial states followed by scan inputs, `m = num_scan_inputs`,
    `axes = scan_input_axes` (`none`: attribute omitted). -/
def scanPresc (ops : List TensorT) (m : Nat) (axes : Option (List Int)) : List Ty :=
  (ops.take (ops.length - m)).map TensorT.ty ++ stripAxes (ops.drop (ops.length - m)) (axes.getD [])

/-! ### SequenceMap -/
/-- An additional input of SequenceMap: a sequence or a tensor (type constraint `V`). -/
inductive SMOperand
  | seq (elem : Ty)
  | tensor (t : TensorT)
deriving DecidableEq, Repr, Inhabited

def SMOperand.ty : SMOperand → Ty
  | .seq e => .seq e
  | .tensor t => t.ty

def SMOperand.bodyTy : SMOperand → Ty
  | .seq e => e
  | .tensor t => t.ty

def seqMapPresc (elem : Ty) (extra : List SMOperand) : List Ty := elem :: extra.map SMOperand.bodyTy

/-! ### Output counts -/
/-- If / Scan / SequenceMap: one output per body result; Loop: the first body result is the
    condition, which is not an output. -/
def outCount (isLoop : Bool) (nResults : Nat) : Int := (nResults : Int) - (if isLoop then 1 else 0)

/-! ### Who may touch a callback -/
def allowedInvokers : List String := ["spox._graph.subgraph", "spox._graph.Graph._reconstruct"]
def allowedReaders : List String :=
  ["spox._graph.Graph._reconstruct", "spox._graph.Graph._with_constructor"]
def ctorNames : List String := ["if_", "loop", "scan", "sequence_map"]

/-- Call sites, other than `subgraph` itself (and the never-called `Graph._reconstruct`), from which
    a stored callback could be invoked again. -/
def extraSites (invokers reconstructCallers constructorReaders : List String)
    (subgraphCallers : List (String × String)) (opsetModules : List String) : List String :=
  invokers.filter (fun s => !allowedInvokers.contains s)
    ++ reconstructCallers
    ++ constructorReaders.filter (fun s => !allowedReaders.contains s)
    ++ (subgraphCallers.filter (fun p => !(opsetModules.contains p.1 && ctorNames.contains p.2))).map
        (fun p => p.1 ++ "." ++ p.2)

end SubgraphSpec
