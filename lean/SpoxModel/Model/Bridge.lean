import SpoxModel.Model.BuildAlg
import SpoxModel.Model.Prog
/-!
# Bridge between the Builder algorithm model (`BuildAlg`, C04) and the shared program model (`Prog`, C01)

* `toProg p argsOf`  the abstract program as a `Prog.Program`: nodes newest first, every node an
  argument or an operator application labelled by its own id, inputs as `VarRef`s to output 0, bodies
  inlined as `Prog.PGraph`s whose formal arguments are the Builder's `arguments_of` (the requested
  list, or what `discover` computed for a graph without a request);
* `toEGraph p b`     the nested emission of the build (`scope_own` per graph, bodies under their owner,
  the per-graph `_Introduce` sources dropped: `Prog.EGraph` carries results directly);
* `flatE`            the emission flattened back to events, to compare with the compile walk's trace.

Executable: the driver evaluates `Prog.validG (toProg …).nodes (toEGraph …) (toProg …).main []`
on every generated case.  Core Lean only.
-/
namespace Bridge
open BuildAlg

def toRef (i : Nat) : Prog.VarRef := ⟨i, 0⟩

def toPGraph (p : BuildAlg.Prog) (argsOf : List (Nat × List Nat)) (g : Nat) : Prog.PGraph :=
  ⟨lookupL argsOf g, (p.results g).map toRef⟩

def toPNode (p : BuildAlg.Prog) (argsOf : List (Nat × List Nat)) (id : Nat) (pn : BuildAlg.PNode) :
    Prog.PNode :=
  ⟨if pn.isArg then .arg else .op id, pn.inputs.map (fun i => some (toRef i)),
   pn.subs.map (toPGraph p argsOf)⟩

/-- oldest-first input, newest-first output; the id of a node is the number of older nodes -/
def toNodesFrom (f : Nat → BuildAlg.PNode → Prog.PNode) :
    List Prog.PNode → List BuildAlg.PNode → List Prog.PNode
  | acc, [] => acc
  | acc, x :: xs => toNodesFrom f (f acc.length x :: acc) xs

def toProg (p : BuildAlg.Prog) (argsOf : List (Nat × List Nat)) : Prog.Program :=
  ⟨toNodesFrom (toPNode p argsOf) [] p.nodes, toPGraph p argsOf 0⟩

def ownNodes (p : BuildAlg.Prog) (b : Built) (g : Nat) : List V :=
  (b.scopeOwn g).filter (fun v => !v.isArgOf p)

def emitG (p : BuildAlg.Prog) (b : Built) : Nat → Nat → Prog.EGraph
  | 0, g => .mk (lookupL b.argsOf g) [] ((p.results g).map toRef)
  | fuel + 1, g =>
    .mk (lookupL b.argsOf g)
      ((ownNodes p b g).filterMap (fun v => match v with
        | .node n => some (Prog.ENode.mk n ((p.subs n).map (emitG p b fuel)))
        | .src _ => none))
      ((p.results g).map toRef)

def toEGraph (p : BuildAlg.Prog) (b : Built) : Prog.EGraph := emitG p b (p.graphs.length + 1) 0

/-- arguments and operator applications of an emission, in order (no enter/leave, no sources) -/
inductive FEv | arg (a : Nat) | emit (n : Nat)
deriving DecidableEq, Repr

mutual
def flatG : Prog.EGraph → List FEv
  | .mk args body _ => args.map FEv.arg ++ flatBody body
def flatBody : List Prog.ENode → List FEv
  | [] => []
  | n :: rest => flatN n ++ flatBody rest
def flatN : Prog.ENode → List FEv
  | .mk id subs => FEv.emit id :: flatSubs subs
def flatSubs : List Prog.EGraph → List FEv
  | [] => []
  | g :: gs => flatG g ++ flatSubs gs
end

def flatTrace : List Ev → List FEv
  | [] => []
  | .arg a :: rest => FEv.arg a :: flatTrace rest
  | .emit (.node n) :: rest => FEv.emit n :: flatTrace rest
  | _ :: rest => flatTrace rest

/-- `[g, parent g, parent (parent g), …]` (fuel steps) -/
def ancestors (par : Nat → Nat) : Nat → Nat → List Nat
  | 0, g => [g]
  | fuel + 1, g => g :: ancestors par fuel (par g)

/-- Executable form of `LeakFree`: every argument used by an emitted node (or returned by a
    discovered graph) belongs to the graph the user is scoped in, or to one of its ancestors. -/
def leakFreeB (p : BuildAlg.Prog) (b : Built) : Bool :=
  let anc := fun g => ancestors (parent b.owner b.scopeOf) b.graphTopo.length g
  let ok := fun (c a : Nat) => !p.isArg a || (anc c).any (fun t => (lookupL b.argsOf t).contains a)
  b.topo.all (fun v => match v with
    | .node n => match b.scopeOf.get v with
      | some c => (p.inputs n).all (ok c)
      | none => true
    | .src _ => true) &&
  b.graphTopo.all (fun s => (p.results s).all (ok s))

/-- input and subgraph edges, without the edges into the source of body `s`: `v` reaches an argument
    `a` of `s` along `adjCut p s` iff it depends on `a` freely (not through the body that binds it) -/
def adjCut (p : BuildAlg.Prog) (s : Nat) (v : V) : List V :=
  (p.adjFull v).filter (fun w => decide (w ≠ V.src s))

/-- Executable form of `C04.MainClean`: every argument a discovered graph reads belongs to a discovered
    graph, and nothing the main graph reads depends freely on an argument of a body. -/
def mainCleanB (p : BuildAlg.Prog) (b : Built) : Bool :=
  b.graphTopo.all (fun g => (p.postIn g).all (fun v => match v with
    | .node a => !p.isArg a || b.graphTopo.any (fun s => (lookupL b.argsOf s).contains a)
    | .src _ => true)) &&
  b.argsOf.all (fun e => e.1 == 0 || e.2.all (fun a =>
    (p.postIn 0).all (fun v => !(visit (adjCut p e.1) p.fuel v []).contains (V.node a))))

/-- Executable form of `C04.Lexical` — a function of the PROGRAM alone: bodies have requested argument
    lists; every argument the outputs depend on is in the requested list of a graph the outputs depend
    on; nothing the main graph reads depends freely on a body's argument. -/
def lexicalB (p : BuildAlg.Prog) : Bool :=
  let full := visit p.adjFull p.fuel (V.src 0) []
  let gs := List.range p.graphs.length
  gs.all (fun s => s == 0 || match p.graphs[s]? with
    | some pg => pg.args.isSome
    | none => true) &&
  full.all (fun v => match v with
    | .node a => !p.isArg a || gs.any (fun s => match p.graphs[s]? with
        | some pg => (match pg.args with
            | some l => l.contains a
            | none => false) && full.contains (V.src s)
        | none => false)
    | .src _ => true) &&
  gs.all (fun s => s == 0 || match p.graphs[s]? with
    | some pg => (match pg.args with
        | some l => l.all (fun a =>
            (p.postIn 0).all (fun v => !(visit (adjCut p s) p.fuel v []).contains (V.node a)))
        | none => true)
    | none => true)

end Bridge
