import SpoxModel.Model.Prog
import SpoxModel.Model.BuildAlg
/-!
# Bridge between C04's `Builder` model (`Model/BuildAlg.lean`) and the C01 program model

* `toNodes p argsOf` — a `BuildAlg.Prog` read as a C01 program (`List Prog.PNode`, newest first):
  node `n` becomes `arg` or `op n`, its inputs `some ⟨i, 0⟩`, its bodies `⟨argsOf g, results g⟩`.
* `parseG` — the flattened nested emission of `BuildAlg.build` (`List Ev`: `enter g, arg a…, emit v
  (followed by the compilations of the bodies of v)…, emit (src g), leave g`) parsed back into the
  nested `Prog.EGraph`.
* `bridge p` — run the algorithm model, parse its emission, and evaluate C01's `validG` on it.

Executable only (the driver runs `bridge` on every generated program and the harness compares the
model's emission with the real one); the implication `build p = ok → leak-free → validG` is the
remaining proof obligation of `build_valid` (DESIGN.md A.1).  Core Lean only.
-/
namespace Bridge
open Prog

def toPG (p : BuildAlg.Prog) (argsOf : Nat → List Nat) (g : Nat) : PGraph :=
  ⟨argsOf g, (p.results g).map (fun r => ⟨r, 0⟩)⟩

def toPN (p : BuildAlg.Prog) (argsOf : Nat → List Nat) (n : Nat) : PNode :=
  ⟨if p.isArg n then Kind.arg else Kind.op n,
   (p.inputs n).map (fun i => some ⟨i, 0⟩),
   (p.subs n).map (toPG p argsOf)⟩

/-- newest first, id = number of older nodes -/
def toNodes (p : BuildAlg.Prog) (argsOf : Nat → List Nat) : List PNode :=
  ((List.range p.nodes.length).map (toPN p argsOf)).reverse

def takeArgs : List BuildAlg.Ev → List Nat × List BuildAlg.Ev
  | .arg a :: rest => let (as, r) := takeArgs rest; (a :: as, r)
  | evs => ([], evs)

mutual
/-- parse one graph: `enter g, args…, body…, emit (src g), leave g` -/
def parseG (p : BuildAlg.Prog) : Nat → List BuildAlg.Ev → Option (EGraph × List BuildAlg.Ev)
  | 0, _ => none
  | fuel + 1, .enter g :: rest =>
    let (args, rest1) := takeArgs rest
    match parseB p fuel g rest1 with
    | some (body, .leave g' :: rest2) =>
      if g' = g then some (.mk args body ((p.results g).map (fun r => ⟨r, 0⟩)), rest2) else none
    | _ => none
  | _, _ => none
/-- parse the node list of graph `g` up to and including `emit (src g)` -/
def parseB (p : BuildAlg.Prog) : Nat → Nat → List BuildAlg.Ev → Option (List ENode × List BuildAlg.Ev)
  | 0, _, _ => none
  | _ + 1, g, .emit (.src g') :: rest => if g' = g then some ([], rest) else none
  | fuel + 1, g, .emit (.node n) :: rest =>
    match parseSubs p fuel (p.subs n).length rest with
    | some (subs, rest1) =>
      match parseB p fuel g rest1 with
      | some (more, rest2) => some (.mk n subs :: more, rest2)
      | none => none
    | none => none
  | _, _, _ => none
def parseSubs (p : BuildAlg.Prog) : Nat → Nat → List BuildAlg.Ev → Option (List EGraph × List BuildAlg.Ev)
  | 0, _, _ => none
  | _ + 1, 0, evs => some ([], evs)
  | fuel + 1, k + 1, evs =>
    match parseG p fuel evs with
    | some (e, rest) =>
      match parseSubs p fuel k rest with
      | some (es, rest1) => some (e :: es, rest1)
      | none => none
    | none => none
end

structure Result where
  built : Bool
  structOk : Bool
  emission : Option EGraph
  valid : Bool

/-- Run C04's algorithm model on `p`, parse its emission and judge it with C01's `validG`. -/
def bridge (p : BuildAlg.Prog) : Result :=
  match BuildAlg.build p with
  | .error _ => ⟨false, false, none, false⟩
  | .ok (b, tr) =>
    let argsOf := fun g => BuildAlg.lookupL b.argsOf g
    let so := BuildAlg.structOk p tr []
    match parseG p (2 * tr.length + 2) tr with
    | some (e, []) => ⟨true, so, some e, validG (toNodes p argsOf) e (toPG p argsOf 0) []⟩
    | _ => ⟨true, so, none, false⟩

end Bridge
