/-!
# Model of `spox._scope` (C02)

`ScopeSpace` as the code has it: `name_of`/`of_name` (kept in sync, so one list of pairs),
`reserved`, one counter table shared by a space and all its children, and the parent chain (looked at
first, never modified). A `Space` is the chain seen from the innermost namespace: `cur` is the
namespace that operations write to, `parents` the enclosing ones (innermost first).

Core Lean only (linked into the driver).
-/
namespace Scope

structure Frame where
  pairs : List (Nat × String) := []      -- object ↦ name   (`name_of` and `of_name`, always in sync)
  reserved : List String := []
deriving Repr, Inhabited

structure Space where
  cur : Frame := {}
  parents : List Frame := []
  counters : List (String × Nat) := []   -- `base_name_counters`, the one table of the whole chain
deriving Repr, Inhabited

inductive Err | scope | key
deriving Repr, DecidableEq, Inhabited

def Frame.ofNameLocal (f : Frame) (n : String) : Option Nat := (f.pairs.find? (·.2 == n)).map (·.1)
def Frame.nameOfLocal (f : Frame) (o : Nat) : Option String := (f.pairs.find? (·.1 == o)).map (·.2)

/-- `name in space` for a chain of frames (innermost first): parent, `reserved`, `of_name`. -/
def containsName : List Frame → String → Bool
  | [], _ => false
  | f :: ps, n => containsName ps n || f.reserved.contains n || (f.ofNameLocal n).isSome

/-- `obj in space`. -/
def containsObj : List Frame → Nat → Bool
  | [], _ => false
  | f :: ps, o => containsObj ps o || (f.nameOfLocal o).isSome

/-- `space[name]`: the parent is asked first if it contains the name; `none` = `KeyError`
    (the name is only reserved in the namespace that answers). -/
def getName : List Frame → String → Option Nat
  | [], _ => none
  | f :: ps, n => if containsName ps n then getName ps n else f.ofNameLocal n

/-- `space[obj]`. -/
def getObj : List Frame → Nat → Option String
  | [], _ => none
  | f :: ps, o => if containsObj ps o then getObj ps o else f.nameOfLocal o

def Space.frames (s : Space) : List Frame := s.cur :: s.parents
def Space.hasName (s : Space) (n : String) : Bool := containsName s.frames n
def Space.hasObj (s : Space) (o : Nat) : Bool := containsObj s.frames o

/-- `ScopeSpace.__setitem__(name, obj)` -/
def Space.setitem (s : Space) (n : String) (o : Nat) : Except Err Space :=
  let bind : Except Err Space :=
    if s.hasObj o then
      match getObj s.frames o with
      | none => .error .key
      | some n' => if n ≠ n' then .error .scope else .ok s     -- same name again: no-op
    else .ok { s with cur := { s.cur with pairs := (o, n) :: s.cur.pairs } }
  if s.hasName n then
    match getName s.frames n with
    | none => .error .key                     -- reserved name: `self[key]` raises KeyError
    | some o' => if o' ≠ o then .error .scope else bind
  else bind

/-- `ScopeSpace.reserve` -/
def Space.reserve (s : Space) (n : String) : Except Err Space :=
  if s.hasName n then .error .scope
  else .ok { s with cur := { s.cur with reserved := n :: s.cur.reserved } }

def counterOf (cs : List (String × Nat)) (b : String) : Option Nat := (cs.find? (·.1 == b)).map (·.2)
def setCounter : List (String × Nat) → String → Nat → List (String × Nat)
  | [], b, v => [(b, v)]
  | (b', v') :: cs, b, v => if b' == b then (b, v) :: cs else (b', v') :: setCounter cs b v

/-- `ScopeSpace.enum` -/
def Space.enum (s : Space) (base : String) : String × Space :=
  let c := (counterOf s.counters base).getD 0
  (base ++ "_" ++ toString c, { s with counters := setCounter s.counters base (c + 1) })

/-- `ScopeSpace.maybe_enum` -/
def Space.maybeEnum (s : Space) (base : String) : String × Space :=
  match counterOf s.counters base with
  | none => (base, { s with counters := setCounter s.counters base 0 })
  | some _ => s.enum base

/-- `ScopeSpace.__delitem__` by name: only the innermost namespace. `none` = KeyError. -/
def Space.delName (s : Space) (n : String) : Except Err Space :=
  match s.cur.ofNameLocal n with
  | none => .error .key
  | some _ => .ok { s with cur := { s.cur with pairs := s.cur.pairs.filter (fun p => !(p.2 == n)) } }

/-- `ScopeSpace(parent=self)`: a child namespace; shares the counter table. -/
def Space.push (s : Space) : Space := { cur := {}, parents := s.cur :: s.parents, counters := s.counters }

/-- leaving the child: the counter table is the same object, so increments made below persist. -/
def Space.pop (s : Space) : Space :=
  match s.parents with
  | [] => s
  | p :: ps => { cur := p, parents := ps, counters := s.counters }

/-- operations on a namespace (what `Scope.update`, `_Inline.to_onnx`, `Scope.of` perform) -/
inductive Op
  | set (n : String) (o : Nat) | reserve (n : String) | enum (b : String) | maybeEnum (b : String)
  | del (n : String) | push | pop
deriving Repr

def step (s : Space) : Op → Except Err Space
  | .set n o => s.setitem n o
  | .reserve n => s.reserve n
  | .enum b => .ok (s.enum b).2
  | .maybeEnum b => .ok (s.maybeEnum b).2
  | .del n => s.delName n
  | .push => .ok s.push
  | .pop => .ok s.pop

def run : Space → List Op → Except Err Space
  | s, [] => .ok s
  | s, op :: ops => match step s op with
    | .ok s' => run s' ops
    | .error e => .error e

/-- every name/object pair visible from the innermost namespace -/
def allPairs (fs : List Frame) : List (Nat × String) := fs.flatMap (·.pairs)
def allReserved (fs : List Frame) : List String := fs.flatMap (·.reserved)

/-! ## `Scope`: the two namespaces of a build and `Scope.update` -/

structure Scope where
  var : Space := {}
  node : Space := {}
deriving Repr, Inhabited

/-- an output Var of a node: object id, field name, preset `_name` -/
structure OutVar where
  id : Nat
  field : String
  preset : Option String
deriving Repr, Inhabited

/-- the loop of `Scope.update` over `node.outputs.get_vars()` (force = True) -/
def nameOutputs (var : Space) (nodeName : String) : List OutVar → Except Err Space
  | [] => .ok var
  | ov :: rest =>
    let (nm, var1) := match ov.preset with
      | some p => (p, var)
      | none => var.maybeEnum (nodeName ++ "_" ++ ov.field)
    match var1.setitem nm ov.id with
    | .ok var2 => nameOutputs var2 nodeName rest
    | .error e => .error e

/-- `Scope.update(node, prefix)` with `force=True`; returns the node's name too -/
def Scope.update (sc : Scope) (pfx : String) (nodeId : Nat) (opId : String) (outs : List OutVar) :
    Except Err (String × Scope) :=
  let (nm, node1) := sc.node.enum (pfx ++ opId)
  match node1.setitem nm nodeId with
  | .error e => .error e
  | .ok node2 =>
    match nameOutputs sc.var nm outs with
    | .error e => .error e
    | .ok var2 => .ok (nm, { var := var2, node := node2 })

end Scope
