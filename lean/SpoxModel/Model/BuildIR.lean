/-!
# Statement IR of `Graph.to_onnx_model` / `spox.build` for "nothing is returned unchecked" (C02)

The translator (`translator/build_flags.py`) extracts, by AST, what each statement of the two
functions does to the *checked* status of local variables holding a model; this file gives the IR its
meaning: all execution paths, and whether the value returned on each path was the argument of a
`onnx.checker.check_model` call with no assignment to / possible mutation of it in between.
Core Lean only.
-/
namespace BuildIR

inductive Stmt where
  | assign (v : Nat)                 -- v := anything else (fresh, unchecked)
  | assignCallee (v : Nat)           -- v := the modelled callee (`graph.to_onnx_model()` in `build`)
  | check (v : Nat)                  -- onnx.checker.check_model(v, …)
  | touch (v : Nat)                  -- v is passed to a call / has a method called / is written into
  | ifKnown (c : Bool) (body : List Stmt)               -- test on a parameter whose value is known
  | ifUnknown (thenB elseB : List Stmt)                 -- any other test / loop / handler
  | ret (v : Option Nat)             -- return v (none: returns something that is not a local name)
  | raise
  | other
deriving Repr

/-- how a path ends: fell through with the set of checked variables, returned (was the returned value
    checked?), or raised -/
inductive Outcome where
  | fell (checked : List Nat)
  | returned (ok : Bool)
  | raised
deriving Repr, DecidableEq

mutual
/-- all paths of one statement from the state `chk` (set of checked variables).
    `callee`: does the modelled callee return only checked models? -/
def pathsS (callee : Bool) (chk : List Nat) : Stmt → List Outcome
  | .assign v => [.fell (chk.filter (· != v))]
  | .assignCallee v => [.fell (if callee then v :: chk else chk.filter (· != v))]
  | .check v => [.fell (v :: chk)]
  | .touch v => [.fell (chk.filter (· != v))]
  | .ifKnown c body => if c then pathsL callee chk body else [.fell chk]
  | .ifUnknown t e => pathsL callee chk t ++ pathsL callee chk e
  | .ret (some v) => [.returned (chk.contains v)]
  | .ret none => [.returned false]
  | .raise => [.raised]
  | .other => [.fell chk]
/-- all paths of a statement list: every path of the head that fell through continues with the rest -/
def pathsL (callee : Bool) (chk : List Nat) : List Stmt → List Outcome
  | [] => [.fell chk]
  | s :: rest => (pathsS callee chk s).flatMap (fun o =>
      match o with
      | .fell c => pathsL callee c rest
      | o => [o])
end

/-- a function body is safe when no path returns an unchecked value and no path falls off the end
    (Python would return `None`) -/
def allChecked (os : List Outcome) : Bool :=
  os.all (fun o => match o with | .returned ok => ok | .raised => true | .fell _ => false)

def safeBody (callee : Bool) (body : List Stmt) : Bool := allChecked (pathsL callee [] body)

/-! A deterministic reading of the same IR, driven by a stream of branch decisions: used to state that
    `pathsL` really lists every execution. -/
mutual
def execS (callee : Bool) (chk : List Nat) (ch : List Bool) : Stmt → Outcome × List Bool
  | .assign v => (.fell (chk.filter (· != v)), ch)
  | .assignCallee v => (.fell (if callee then v :: chk else chk.filter (· != v)), ch)
  | .check v => (.fell (v :: chk), ch)
  | .touch v => (.fell (chk.filter (· != v)), ch)
  | .ifKnown c body => if c then execL callee chk ch body else (.fell chk, ch)
  | .ifUnknown t e =>
    match ch with
    | [] => execL callee chk [] t
    | true :: ch' => execL callee chk ch' t
    | false :: ch' => execL callee chk ch' e
  | .ret (some v) => (.returned (chk.contains v), ch)
  | .ret none => (.returned false, ch)
  | .raise => (.raised, ch)
  | .other => (.fell chk, ch)
def execL (callee : Bool) (chk : List Nat) (ch : List Bool) : List Stmt → Outcome × List Bool
  | [] => (.fell chk, ch)
  | s :: rest =>
    match execS callee chk ch s with
    | (.fell c, ch') => execL callee c ch' rest
    | r => r
end

end BuildIR
