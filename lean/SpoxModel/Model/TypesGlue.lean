import SpoxModel.Model.Types
/-!
# Glue of the type layer (round 10; Mathlib-free, linked into the driver)

Small functions of `_shape.py` / `_type_system.py` that the C13 theorems did not talk about before:
* `Shape.getItem`  — `Shape.__getitem__` with a Python int index (negative indices count from the right),
* `rdim`           — `shape[-1-i]` where that axis exists, `1` where it does not (how broadcasting aligns shapes),
* `Shape.truthy`   — `Shape.__bool__`,
* `unwrapTensor` / `unwrapSeq` / `unwrapOpt` — `Type.unwrap_tensor` / `unwrap_sequence` / `unwrap_optional`,
* `isConcrete`     — `Type._is_concrete` (`_assert_concrete` is overridden by `Tensor` only).
All are executed in the driver against the real methods on every run (tie H, op `glue`).
-/
namespace Types

/-- dimension `i` counted from the right (`shape[-1-i]`), `1` where the shape has no such axis -/
def rdim (l : List Natural) (i : Nat) : Natural := (l.reverse[i]?).getD (.const 1)

/-- `Shape.__getitem__(i)` for an int index; `none` = `ShapeError` (unknown rank) or `IndexError`. -/
def Shape.getItem : Shape → Int → Option Natural
  | none, _ => none
  | some l, i =>
      if 0 ≤ i then l[i.toNat]?
      else if i.natAbs ≤ l.length then l[l.length - i.natAbs]? else none

/-- `Shape.__bool__`: the rank is known -/
def Shape.truthy (s : Shape) : Bool := s.isSome

/-- `Type.unwrap_tensor`: `self` for a Tensor, `none` = `TypeError` otherwise -/
def unwrapTensor : Ty → Option Ty
  | .tensor e s => some (.tensor e s)
  | _ => none

/-- `Type.unwrap_sequence` -/
def unwrapSeq : Ty → Option Ty
  | .seq t => some (.seq t)
  | _ => none

/-- `Type.unwrap_optional` -/
def unwrapOpt : Ty → Option Ty
  | .opt t => some (.opt t)
  | _ => none

/-- `Type._is_concrete`: only `Tensor` overrides `_assert_concrete` (the shape must be known); `Sequence`,
    `Optional` and the bare `Type()` inherit the base method, which accepts — whatever they contain. -/
def isConcrete : Ty → Bool
  | .tensor _ s => s.isSome
  | _ => true

end Types
