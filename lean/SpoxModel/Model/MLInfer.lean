/-!
# C06 — spox's hand-written type inference (model)

One Lean function per `infer_output_types` override found in `src/spox/opset/ai/onnx/ml/v3.py`
(ArrayFeatureExtractor, Binarizer, CategoryMapper, Imputer, LinearRegressor, Normalizer,
OneHotEncoder, Scaler, TreeEnsembleClassifier, TreeEnsembleRegressor) and
`src/spox/opset/ai/onnx/v17.py` (Compress, Loop). Each maps an *attribute summary* (only what the
Python code looks at: presence and length of list attributes, integer attributes) and the input
`Var.type`s to the reported output types or the class of the exception raised.

Tie H: `Drv/C06.lean` runs these functions; `harness/props/c06.py` compares them with the real
constructors on every run. Core Lean only (the driver links this file).
-/
namespace C06M

inductive Elem | f32 | f64 | i32 | i64 | bool | str
  deriving DecidableEq, Repr, Inhabited

/-- One entry of a spox `Shape`: an `int`, a `str` (symbolic) or `None`. -/
inductive Dim
  | const (n : Nat)
  | named (s : String)
  | anon
  deriving DecidableEq, Repr, Inhabited

/-- A spox `Tensor` type; `s = none` is "shape unknown" (`Tensor(dtype, None)`). -/
structure Ty where
  e : Elem
  s : Option (List Dim)
  deriving DecidableEq, Repr

/-- `Var.type`: `none` = untyped Var. (Only tensor types are modelled; a Sequence/Optional input makes
    every routine below raise `TypeError` in `unwrap_tensor` and is outside the model.) -/
abbrev ITy := Option Ty

inductive Err | inference | typeErr | valueErr
  deriving DecidableEq, Repr

/-- Outcome of `infer_output_types` followed by `Node.inference`: the types of the output Vars in
    declaration order (`none` = the routine returned no entry for it), or the exception class. -/
inductive Res
  | ok (outs : List ITy)
  | err (e : Err)
  deriving DecidableEq, Repr

/-- `inputs.fully_typed` for one input: typed and `_is_concrete` (shape known). -/
def ranked : ITy → Option (Elem × List Dim)
  | some ⟨e, some ds⟩ => some (e, ds)
  | _ => none

def tensor (e : Elem) (ds : List Dim) : ITy := some ⟨e, some ds⟩

/-- `len(attr.value) not in {1, last}` guarded by `isinstance(last, int)`; `last` is the last dim or
    `1` when the shape is unknown or empty (`t.shape[-1] if t.shape else 1`). -/
def featureMismatch (len : Nat) (s : Option (List Dim)) : Bool :=
  match (s.getD []).getLast? with
  | none => !(len == 1)                    -- last = 1
  | some (.const n) => !(len == 1 || len == n)
  | some _ => false

/-! ### ai.onnx.ml -/

def inferArrayFeatureExtractor (x y : ITy) : Res :=
  match ranked x, ranked y with
  | some (xe, xs), some (_, ys) =>
    match xs, ys with
    | [], _ => .err .inference
    | [_], [yl] => .ok [tensor xe [.const 1, yl]]
    | x0 :: x1 :: xr, [yl] => .ok [tensor xe ((x0 :: x1 :: xr).dropLast ++ [yl])]
    | _, _ => .err .inference
  | _, _ => .ok [none]

def inferBinarizer (x : ITy) : Res := .ok [x]

/-- `cats_int64s`, `cats_strings`: lengths, `none` = attribute not given. -/
def inferCategoryMapper (catsInt catsStr : Option Nat) (x : ITy) : Res :=
  match ranked x with
  | none => .ok [none]
  | some (e, ds) =>
    match catsInt, catsStr with
    | some a, some b =>
      if a ≠ b then .err .inference
      else match e with
        | .i64 => .ok [tensor .str ds]
        | .str => .ok [tensor .i64 ds]
        | _ => .err .valueErr        -- `(elem_type,) = {int64, str_} - {dtype}` has two elements
    | _, _ => .err .inference

/-- Which imputation list applies to element type `e` (`none` = one of the three InferenceErrors:
    a list for the other element type is also given / no matching element type / list missing). -/
def imputerChoice (e : Elem) (impF impI : Option Nat) : Option Nat :=
  match e with
  | .i64 => if impF.isSome then none else impI
  | .f32 => if impI.isSome then none else impF
  | _ => none

/-- `imputed_value_floats`, `imputed_value_int64s`: lengths. -/
def inferImputer (impF impI : Option Nat) (x : ITy) : Res :=
  match ranked x with
  | none => .ok [none]
  | some (e, ds) =>
    match imputerChoice e impF impI with
    | none => .err .inference
    | some len => if featureMismatch len (some ds) then .err .inference else .ok [x]

def inferLinearRegressor (_targets : Nat) (x : ITy) : Res :=
  match ranked x with
  | none => .ok [none]
  | some (_, ds) =>
    match ds with
    | [] => .ok [tensor .f32 [.const 1, .const 1]]
    | [d] => .ok [tensor .f32 [.const 1, d]]
    | [d0, d1] => .ok [tensor .f32 [d0, d1]]
    | _ => .err .inference

/-- `normOk`: the `norm` attribute is one of MAX / L1 / L2 (checked before anything else). -/
def inferNormalizer (normOk : Bool) (x : ITy) : Res :=
  if normOk then .ok [x] else .err .inference

def inferOneHotEncoder (catsInt catsStr : Option Nat) (x : ITy) : Res :=
  match ranked x with
  | none => .ok [none]
  | some (_, ds) =>
    match catsInt, catsStr with
    | some n, _ => .ok [tensor .f32 (ds ++ [.const n])]
    | none, some n => .ok [tensor .f32 (ds ++ [.const n])]
    | none, none => .err .inference

def inferScaler (scale offset : Option Nat) (x : ITy) : Res :=
  match x with
  | none => .ok [none]
  | some t =>
    match scale, offset with
    | some sc, some off =>
      if featureMismatch sc t.s then .err .inference
      else if featureMismatch off t.s then .err .inference
      else .ok [some ⟨.f32, t.s⟩]
    | _, _ => .err .inference

def optDim : Option Nat → Dim
  | some n => .const n
  | none => .anon

/-- `classIds = len(class_ids)`; label attributes: lengths (strings win when both are given). -/
def inferTreeEnsembleClassifier (classIds labelsStr labelsInt : Option Nat) (x : ITy) : Res :=
  let yElem : Option Elem :=
    if labelsStr.isSome then some .str else if labelsInt.isSome then some .i64 else none
  match yElem with
  | none => .err .inference
  | some ye =>
    match ranked x with
    | none => .ok [tensor ye [.anon], tensor .f32 [.anon, optDim classIds]]
    | some (_, [n, _]) => .ok [tensor ye [n], tensor .f32 [n, optDim classIds]]
    | some _ => .err .inference

def inferTreeEnsembleRegressor (nTargets : Option Nat) (x : ITy) : Res :=
  match ranked x with
  | none => .ok [tensor .f32 [.anon, optDim nTargets]]
  | some (_, [n, _]) => .ok [tensor .f32 [n, optDim nTargets]]
  | some _ => .err .inference

/-! ### Non-tensor (Sequence / Optional) inputs

Outside `Ty`: what each routine does when an input's type is not a Tensor. -/

inductive NonTensorOutcome
  | typeErr        -- `unwrap_tensor` raises TypeError
  | inferenceErr   -- ONNX's own inference (called first) rejects the input
  | passThrough    -- the routine returns the input's type unchanged (no eager check)
  deriving DecidableEq, Repr

def nonTensorOutcome : String → Option NonTensorOutcome
  | "Binarizer" => some .passThrough
  | "Normalizer" => some .passThrough
  | "Compress" => some .inferenceErr
  | "ArrayFeatureExtractor" | "CategoryMapper" | "Imputer" | "LinearRegressor" | "OneHotEncoder"
  | "Scaler" | "TreeEnsembleClassifier" | "TreeEnsembleRegressor" => some .typeErr
  | _ => none

/-! ### ai.onnx: Compress -/

/-- Python index normalisation for `shape[axis]` after the range check `-rank <= axis < rank`. -/
def normAxis (axis : Int) (rank : Nat) : Option Nat :=
  if 0 ≤ axis then (if axis.toNat < rank then some axis.toNat else none)
  else if (-axis).toNat ≤ rank then some (rank - (-axis).toNat) else none

/-- `cond.shape and len(cond.shape) != 1`: an unknown or empty (rank 0) shape passes. -/
def condRankBad : Option (List Dim) → Bool
  | some cs => !(cs.length == 1 || cs.length == 0)
  | none => false

/-- `_Compress.infer_output_types`. It first calls ONNX's own inference (which raises for a non-bool
    condition, a rank-0 input and an out-of-range axis, and returns nothing when an input is untyped)
    and discards its result; an untyped input then gives an untyped output. -/
def inferCompress (axis : Option Int) (x c : ITy) : Res :=
  match x, c with
  | some xt, some ct =>
    if ct.e ≠ .bool then .err .inference
    else match xt.s with
      | none => .ok [some ⟨xt.e, none⟩]
      | some [] => .err .inference             -- ONNX's own inference rejects a rank-0 input
      | some ds =>
        if condRankBad ct.s then .err .inference
        else match axis with
          | none => .ok [tensor xt.e [.anon]]
          | some a =>
            match normAxis a ds.length with
            | none => .err .inference
            | some i => .ok [tensor xt.e (ds.set i .anon)]
  | _, _ => .ok [none]

/-- `_Compress.infer_output_types` after the repair "Compress without axis reports a vector when the
    input's rank is unknown" (the unknown-shape shortcut only applies when an axis is given; without an
    axis the routine goes on to the condition-rank check and reports `[?]`). Known ranks: unchanged.
    The harness probes which of the two variants the source under test implements and asks for it. -/
def inferCompressFixed (axis : Option Int) (x c : ITy) : Res :=
  match x, c with
  | some xt, some ct =>
    if ct.e ≠ .bool then .err .inference
    else match xt.s, axis with
      | none, some _ => .ok [some ⟨xt.e, none⟩]
      | none, none => if condRankBad ct.s then .err .inference else .ok [tensor xt.e [.anon]]
      | some _, _ => inferCompress axis x c
  | _, _ => .ok [none]

/-! ### ai.onnx: the Loop patch

`A` = types of `v_initial` (= the types the body's carried arguments are declared with),
`R` = types of the body's carried results, `S` = types of the body's scan results. ONNX's own
inference (third party; observed, see the correspondence) gives a carried output the element type
only and a scan output the body's type with one leading unknown dim; it raises when a carried
result's element type differs from its initial value's. -/

/-- `refines res arg` (nested helper of the fixed routine): every value of `res` is a value of `arg`. -/
def refinesDim (a r : Dim) : Bool :=
  a == r || (match a with | .const _ => false | _ => true)

def refines (res arg : Ty) : Bool :=
  if res.e ≠ arg.e then false
  else match arg.s with
    | none => true
    | some as => match res.s with
      | none => false
      | some rs => rs.length == as.length && (as.zip rs).all (fun p => refinesDim p.1 p.2)

/-- `common res arg`: what both types agree on. -/
def common (res arg : Ty) : Ty :=
  match res.s, arg.s with
  | some rs, some as => ⟨arg.e, some ((as.zip rs).map (fun p => if p.1 = p.2 then p.1 else .anon))⟩
  | _, _ => ⟨arg.e, none⟩

def scanTy (t : Ty) : Ty := ⟨t.e, t.s.map (Dim.anon :: ·)⟩

def allTyped : List ITy → Option (List Ty)
  | [] => some []
  | none :: _ => none
  | some t :: r => (allTyped r).map (t :: ·)

def elemsAgree : List Ty → List Ty → Bool
  | a :: as, r :: rs => a.e == r.e && elemsAgree as rs
  | _, _ => true

def allRefine : List Ty → List Ty → Bool
  | a :: as, r :: rs => refines r a && allRefine as rs
  | _, _ => true

def zipCommon : List Ty → List Ty → List ITy
  | a :: as, r :: rs => some (common r a) :: zipCommon as rs
  | _, _ => []

def onnxCarried : List Ty → List ITy
  | [] => []
  | a :: as => some ⟨a.e, none⟩ :: onnxCarried as

/-- The routine after the `fix:` commit: result types are reported only when every result refines
    its argument's declared type, and then only the part both agree on. Requires
    `A.length = R.length` (the constructor guarantees it). -/
def inferLoop (A R S : List ITy) : Res :=
  match allTyped A, allTyped R, allTyped S with
  | some a, some r, some s =>
    if !elemsAgree a r then .err .inference
    else
      let carried := if allRefine a r then zipCommon a r else onnxCarried a
      .ok (carried ++ s.map (fun t => some (scanTy t)))
  | _, _, _ => .err .typeErr

/-- Opset modules whose `_Loop` has no override (v19, v21): ONNX's own inference only — a carried
    output gets the element type and no shape. -/
def inferLoopOnnx (A R S : List ITy) : Res :=
  match allTyped A, allTyped R, allTyped S with
  | some a, some r, some s =>
    if !elemsAgree a r then .err .inference
    else .ok (onnxCarried a ++ s.map (fun t => some (scanTy t)))
  | _, _, _ => .err .typeErr

/-- The routine as pinned (before the fix): a carried output simply takes the body's result type. -/
def inferLoopPinned (A R S : List ITy) : Res :=
  match allTyped A, allTyped R, allTyped S with
  | some a, some r, some s =>
    if !elemsAgree a r then .err .inference
    else .ok (r.map some ++ s.map (fun t => some (scanTy t)))
  | _, _, _ => .err .typeErr

/-! ### `_strip_dim_symbol` (used by `inline` with `pred = fun _ => true`, by ONNX inference results
with `pred = startswith "unk__"`) -/

def stripDim (pred : String → Bool) : Dim → Dim
  | .named s => if pred s then .anon else .named s
  | d => d

def stripTy (pred : String → Bool) (t : Ty) : Ty := ⟨t.e, t.s.map (·.map (stripDim pred))⟩

/-- `Natural.__le__` / `Shape.__le__` / `Tensor._subtype` as used by `_Inline.infer_output_types` to
    accept an argument of type `arg` for a declared (symbol-stripped) input type `decl`: same element
    type, and an unknown rank or dimension on either side matches anything. -/
def compatDim : Dim → Dim → Bool
  | .const n, .const m => n == m
  | _, _ => true

def compatDims : List Dim → List Dim → Bool
  | [], [] => true
  | a :: as, d :: ds => compatDim a d && compatDims as ds
  | _, _ => false

def inlineArgAccepted (arg decl : Ty) : Bool :=
  arg.e == decl.e && (match arg.s, decl.s with
    | some as, some ds => compatDims as ds
    | _, _ => true)

/-- `_Inline.infer_output_types`: the model's declared outputs (already stripped of every symbol by
    `inline`). -/
def inlineTypes (declared : List Ty) : List ITy := declared.map (fun t => some (stripTy (fun _ => true) t))

end C06M
