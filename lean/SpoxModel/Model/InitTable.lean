import SpoxModel.Model.Tensor
/-!
# How initializers reach the GraphProto  (C10, round 10)

Core Lean only (linked into the driver). Models the glue between an embedded array and the tensor in the
built model that the earlier rounds left outside the model:

* `Node.update_metadata` of `Argument` (`initializers[var] = default.value` when a default exists),
  of `_Initializer` (`initializers[var] = value`) and of every other node (nothing)
  — `src/spox/_internal_op.py`;
* `Builder.compile_graph`: the arguments first, then the graph's own nodes with the `Argument`s skipped,
  all writing into one Python `dict` keyed by Var — `src/spox/_build.py`;
* `Graph._get_initializers_by_name`: the dict comprehension `{scope.var[var]: init …}` — a second `dict`,
  keyed by *name*;
* `Graph.to_onnx`: `[from_array(arr, name) for name, arr in ….items()]`.

A Python `dict` is an association list in insertion order whose `d[k] = v` replaces the value of a present
key in place and appends otherwise (`dset`). Vars are plain naturals; the scope's naming is a parameter
`name : Nat → String` (its injectivity is the naming property's business and is an explicit hypothesis
wherever it is needed).
-/
namespace InitTable
open Tensor

/-- Python `d[k] = v` on an insertion-ordered dict. -/
def dset {κ α : Type} [DecidableEq κ] : List (κ × α) → κ → α → List (κ × α)
  | [], k, v => [(k, v)]
  | (k', v') :: r, k, v => if k' = k then (k', v) :: r else (k', v') :: dset r k v

/-- Python `d.get(k)`. -/
def dget {κ α : Type} [DecidableEq κ] : List (κ × α) → κ → Option α
  | [], _ => none
  | (k', v') :: r, k => if k' = k then some v' else dget r k

/-- A node, as far as `update_metadata(…, initializers, …)` is concerned. -/
inductive Node
  /-- `Argument` with output Var `var`; `default` = `attrs.default.value` if there is one -/
  | arg (var : Nat) (default : Option Arr)
  /-- `_Initializer` with output Var `var` and `attrs.value.value` -/
  | init (var : Nat) (a : Arr)
  /-- any other node: does not touch `initializers` -/
  | other
  deriving DecidableEq

def Node.isArg : Node → Bool
  | .arg _ _ => true
  | _ => false

/-- The `(var, array)` a node contributes, if any. -/
def Node.entry : Node → Option (Nat × Arr)
  | .arg v (some a) => some (v, a)
  | .init v a => some (v, a)
  | _ => none

/-- `node.update_metadata(opset_req, initializers, functions)` on the `initializers` dict. -/
def Node.update (d : List (Nat × Arr)) (n : Node) : List (Nat × Arr) :=
  match n.entry with
  | some (v, a) => dset d v a
  | none => d

/-- The order in which `compile_graph` calls `update_metadata`: arguments, then own non-Argument nodes. -/
def visited (args own : List Node) : List Node := args ++ own.filter (fun n => !n.isArg)

/-- `BuildResult.initializers`. -/
def collect (args own : List Node) : List (Nat × Arr) := (visited args own).foldl Node.update []

/-- `{scope.var[var]: init for var, init in initializers.items()}`. -/
def byName (name : Nat → String) (d : List (Nat × Arr)) : List (String × Arr) :=
  d.foldl (fun acc p => dset acc (name p.1) p.2) []

/-- A list comprehension whose body may raise: all results, or nothing. -/
def allSome {α : Type} : List (Option α) → Option (List α)
  | [] => some []
  | none :: _ => none
  | some x :: r => (allSome r).map (x :: ·)

/-- `[from_array(arr, name) for name, arr in self._get_initializers_by_name().items()]`
    (`none` only if `from_array` has no encoding for some element type: see `fromArray`). -/
def emit (q : Bool) (name : Nat → String) (args own : List Node) : Option (List TProto) :=
  allSome ((byName name (collect args own)).map (fun p => fromArray q p.2 p.1))

/-- What the statement asks for: the initializer-bearing nodes in visiting order. -/
def bearing (args own : List Node) : List (Nat × Arr) := (visited args own).filterMap Node.entry

end InitTable
