/-!
# Model of `spox.inline` (property C08)

Anchors: `src/spox/_public.py` (`inline`, `inline_inner`), `src/spox/_inline.py`
(`rename_in_graph`, `_Inline.to_onnx`, `_Inline.infer_output_types`), `src/spox/_scope.py`
(`ScopeSpace.maybe_enum`, `ScopeSpace.reserve`).

Core Lean only (linked into the driver).  Every definition below is executed by `Drv/C08.lean`
against the real code on every run (tie H), except the evaluator (`evalGraph` & co.), which is the
*meaning* of a named ONNX graph for an arbitrary operator semantics `sem`; the driver instantiates
it with a small integer interpreter and the harness compares it with onnxruntime.

The model describes the tree after the three `fix:` commits (surplus positionals rejected,
pass-through outputs get an `Identity`, inner node names reserved in the node name space).  The
shapes of the pinned tree are kept as `bindPinned` / `toOnnxPinned` for the counterexample theorems.
-/
namespace Inline

inductive Err | typeError | valueError | scopeError | buildError
deriving DecidableEq, Repr

/-! ## The name space (`ScopeSpace`): visible names + shared base-name counters -/

structure Space where
  /-- every name `in self`: names of objects of this and outer scopes, and reserved names -/
  used : List String
  /-- `base_name_counters`; the first entry for a base is the current one -/
  counters : List (String × Nat)
deriving Repr

/-- `ScopeSpace.maybe_enum` (with `enum` inlined) -/
def Space.maybeEnum (s : Space) (base : String) : String × Space :=
  match s.counters.lookup base with
  | none => (base, { s with counters := (base, 0) :: s.counters })
  | some c => (base ++ "_" ++ toString c, { s with counters := (base, c + 1) :: s.counters })

/-- `ScopeSpace.reserve` -/
def Space.reserve (s : Space) (n : String) : Except Err Space :=
  if n ∈ s.used then .error .scopeError else .ok { s with used := n :: s.used }

/-- `reserve_prefixed` of `_Inline.to_onnx`: empty names stay empty -/
def Space.reservePrefixed (s : Space) (pfx name : String) : Except Err (String × Space) :=
  if name = "" then .ok ("", s) else
    match (s.maybeEnum (pfx ++ "__" ++ name)).2.reserve (s.maybeEnum (pfx ++ "__" ++ name)).1 with
    | .ok s2 => .ok ((s.maybeEnum (pfx ++ "__" ++ name)).1, s2)
    | .error e => .error e

/-- the memoised renaming of a sequence of requests (first occurrence reserves, later ones reuse) -/
def assign (pfx : String) : List String → Space → List (String × String) →
    Except Err (List (String × String) × Space)
  | [], s, tbl => .ok (tbl, s)
  | n :: ns, s, tbl =>
    match tbl.lookup n with
    | some _ => assign pfx ns s tbl
    | none =>
      match s.reservePrefixed pfx n with
      | .error e => .error e
      | .ok (n', s') => assign pfx ns s' ((n, n') :: tbl)

/-! ## Abstract ONNX models -/

/-- tensor payload (index into the harness' table of serialized tensors) -/
inductive Lit | dense (id : Nat) | sparse (id : Nat)
deriving DecidableEq, Repr

def Lit.isDense : Lit → Bool
  | .dense _ => true
  | .sparse _ => false

/-- everything of a node that renaming must not touch -/
structure Op where
  domain : String
  opType : String
  /-- canonical key of the non-graph attributes (opaque) -/
  attrs : String
  /-- payload of `Constant(value=…)` / `Constant(sparse_value=…)` -/
  lit : Option Lit
deriving DecidableEq, Repr

mutual
inductive Node where
  | mk (name : String) (op : Op) (ins outs : List String) (subs : List Graph)
inductive Graph where
  /-- `inits`: dense initializers, then sparse ones (by `values.name`) -/
  | mk (inputs : List String) (inits : List (String × Lit)) (nodes : List Node)
       (outputs valueInfo : List String)
end

def Graph.inputs : Graph → List String | .mk i _ _ _ _ => i
def Graph.inits : Graph → List (String × Lit) | .mk _ i _ _ _ => i
def Graph.nodes : Graph → List Node | .mk _ _ n _ _ => n
def Graph.outputs : Graph → List String | .mk _ _ _ o _ => o
def Graph.valueInfo : Graph → List String | .mk _ _ _ _ v => v
def Node.name : Node → String | .mk n _ _ _ _ => n
def Node.op : Node → Op | .mk _ o _ _ _ => o
def Node.ins : Node → List String | .mk _ _ i _ _ => i
def Node.outs : Node → List String | .mk _ _ _ o _ => o
def Node.subs : Node → List Graph | .mk _ _ _ _ s => s

inductive Dim | known (n : Nat) | sym (s : String) | unk
deriving DecidableEq, Repr

inductive Ty
  | unknown
  | tensor (elem : Nat) (shape : Option (List Dim))
  | seq (t : Ty)
  | opt (t : Ty)
deriving DecidableEq, Repr

structure Model where
  graph : Graph
  hasFunctions : Bool
  opsets : List (String × Nat)
  inTypes : List Ty
  outTypes : List Ty

/-! ## `inline()`: the preamble -/

def Dim.strip : Dim → Dim
  | .sym _ => .unk
  | d => d

/-- `_strip_dim_symbol(t, lambda x: True)` -/
def Ty.strip : Ty → Ty
  | .unknown => .unknown
  | .tensor e sh => .tensor e (sh.map (·.map Dim.strip))
  | .seq t => .seq t.strip
  | .opt t => .opt t.strip

def constOp (l : Lit) : Op := ⟨"", "Constant", "", some l⟩
def identityOp : Op := ⟨"", "Identity", "", none⟩

/-- non-input initializers become leading `Constant` nodes (dense first, then sparse) -/
def preamble (g : Graph) : List Node :=
  (g.inits.filter fun p => !g.inputs.contains p.1).map fun p =>
    Node.mk "" (constOp p.2) [] [p.1] []

/-- the private copy `_Inline.model.graph` -/
def normalise (g : Graph) : Graph :=
  .mk g.inputs [] (preamble g ++ g.nodes) g.outputs g.valueInfo

/-- what `inline(m)` keeps: signature read from the caller's model, the normalised private copy -/
structure Prepared where
  inNames : List String
  defaults : List String
  outNames : List String
  graph : Graph
  inTypes : List Ty
  outTypes : List Ty
  opsets : List (String × Nat)

def prepare (m : Model) : Except Err Prepared :=
  if m.hasFunctions then .error .valueError else
  .ok { inNames := m.graph.inputs
        defaults := (m.graph.inits.filter fun p => p.2.isDense).map (·.1)
        outNames := m.graph.outputs
        graph := normalise m.graph
        inTypes := m.inTypes.map Ty.strip
        outTypes := m.outTypes.map Ty.strip
        opsets := m.opsets }

/-! ## `inline_inner`: argument binding -/

/-- a call `f(a_0, …, a_{npos-1}, k_1=…, …)`; keyword names are distinct (a Python dict) -/
structure Call where
  npos : Nat
  kws : List String
deriving Repr

inductive Slot | pos (i : Nat) | kw (name : String) | dflt (name : String)
deriving DecidableEq, Repr

/-- the `for name, arg in zip(in_names, args)` loop -/
def bindPos : List String → Nat → List (String × Slot) → Except Err (List (String × Slot))
  | [], _, tbl => .ok tbl
  | n :: ns, i, tbl =>
    match tbl.lookup n with
    | some _ => .error .typeError
    | none => bindPos ns (i + 1) (tbl ++ [(n, .pos i)])

def bindRest (ins dflts : List String) (tbl : List (String × Slot)) : Except Err (List Slot) :=
  let missing := ins.filter fun n => (tbl.lookup n).isNone
  if missing.any (fun n => !dflts.contains n) then .error .typeError else
  let tbl2 := tbl ++ missing.map fun n => (n, Slot.dflt n)
  if tbl2.any (fun p => !ins.contains p.1) then .error .typeError else
  .ok (ins.filterMap fun n => tbl2.lookup n)

/-- `inline_inner` up to the construction of the `_Inline` node (fixed tree) -/
def bind (ins dflts : List String) (c : Call) : Except Err (List Slot) :=
  if ins.length < c.npos then .error .typeError else
  match bindPos (ins.take c.npos) 0 (c.kws.map fun k => (k, Slot.kw k)) with
  | .error e => .error e
  | .ok tbl => bindRest ins dflts tbl

/-- pinned tree: `zip` truncates, no length test -/
def bindPinned (ins dflts : List String) (c : Call) : Except Err (List Slot) :=
  match bindPos (ins.take c.npos) 0 (c.kws.map fun k => (k, Slot.kw k)) with
  | .error e => .error e
  | .ok tbl => bindRest ins dflts tbl

/-! ### `_Inline.infer_output_types`: the type check of the arguments -/

def Dim.le : Dim → Dim → Bool
  | .known n, .known m => n == m
  | .known _, _ => true
  | _, _ => true

def shapeLe : Option (List Dim) → Option (List Dim) → Bool
  | none, _ => true
  | _, none => true
  | some a, some b => a.length == b.length && (a.zip b).all fun p => p.1.le p.2

/-- `Type._subtype` -/
def Ty.sub : Ty → Ty → Bool
  | _, .unknown => true
  | .tensor e s, .tensor e' s' => (e == e' && s == s') || (e == e' && shapeLe s s')
  | .seq a, .seq b => a.sub b
  | .opt a, .opt b => a.sub b
  | _, _ => false

/-- arguments are `none` when the Var is untyped; zipped with the declared (stripped) input types -/
def typeCheck (declared : List Ty) (args : List (Option Ty)) : Except Err Unit :=
  if (declared.zip args).all (fun p => match p.2 with | none => true | some t => t.sub p.1)
  then .ok () else .error .typeError

/-- the type of the Var in a slot: defaults (`initializer(array)`) are not modelled (`none`) -/
def slotType (posT : List Ty) (kwT : List (String × Ty)) : Slot → Option Ty
  | .pos i => posT[i]?
  | .kw n => kwT.lookup n
  | .dflt _ => none

/-- `inline_inner` followed by `_Inline.infer_output_types`' argument check -/
def call (p : Prepared) (c : Call) (posT : List Ty) (kwT : List (String × Ty)) :
    Except Err (List Slot) :=
  match bind p.inNames p.defaults c with
  | .error e => .error e
  | .ok slots =>
    match typeCheck p.inTypes (slots.map (slotType posT kwT)) with
    | .error e => .error e
    | .ok _ => .ok slots

/-! ## `_Inline.to_onnx`: renaming into the outer name space -/

mutual
/-- value names in the order `rename_in_graph` meets them -/
def Graph.valueReqs : Graph → List String
  | .mk inputs inits nodes outputs vi =>
    inputs ++ inits.map (·.1) ++ Node.valueReqsL nodes ++ outputs ++ vi
def Node.valueReqsL : List Node → List String
  | [] => []
  | n :: ns => Node.valueReqs n ++ Node.valueReqsL ns
def Node.valueReqs : Node → List String
  | .mk _ _ ins outs subs => ins ++ outs ++ Graph.valueReqsL subs
def Graph.valueReqsL : List Graph → List String
  | [] => []
  | g :: gs => Graph.valueReqs g ++ Graph.valueReqsL gs
end

mutual
/-- every name that is given a value somewhere in the graph (formal inputs, initializers, node
    outputs), at any depth -/
def Graph.assigned : Graph → List String
  | .mk inputs inits nodes _ _ => inputs ++ inits.map (·.1) ++ Node.assignedL nodes
def Node.assignedL : List Node → List String
  | [] => []
  | n :: ns => Node.assigned n ++ Node.assignedL ns
def Node.assigned : Node → List String
  | .mk _ _ _ outs subs => outs ++ Graph.assignedL subs
def Graph.assignedL : List Graph → List String
  | [] => []
  | g :: gs => Graph.assigned g ++ Graph.assignedL gs
end

mutual
/-- non-empty node names in the order `rename_in_graph` meets them -/
def Graph.nodeReqs : Graph → List String
  | .mk _ _ nodes _ _ => Node.nodeReqsL nodes
def Node.nodeReqsL : List Node → List String
  | [] => []
  | n :: ns => Node.nodeReqs n ++ Node.nodeReqsL ns
def Node.nodeReqs : Node → List String
  | .mk name _ _ _ subs => (if name = "" then [] else [name]) ++ Graph.nodeReqsL subs
def Graph.nodeReqsL : List Graph → List String
  | [] => []
  | g :: gs => Graph.nodeReqs g ++ Graph.nodeReqsL gs
end

mutual
/-- `rename_in_graph` with pure renamings (value names by `ρ`, non-empty node names by `ν`) -/
def Graph.rename (ρ ν : String → String) : Graph → Graph
  | .mk inputs inits nodes outputs vi =>
    .mk (inputs.map ρ) (inits.map fun p => (ρ p.1, p.2)) (Node.renameL ρ ν nodes)
        (outputs.map ρ) (vi.map ρ)
def Node.renameL (ρ ν : String → String) : List Node → List Node
  | [] => []
  | n :: ns => Node.rename ρ ν n :: Node.renameL ρ ν ns
def Node.rename (ρ ν : String → String) : Node → Node
  | .mk name op ins outs subs =>
    .mk (if name = "" then "" else ν name) op (ins.map ρ) (outs.map ρ) (Graph.renameL ρ ν subs)
def Graph.renameL (ρ ν : String → String) : List Graph → List Graph
  | [] => []
  | g :: gs => Graph.rename ρ ν g :: Graph.renameL ρ ν gs
end

/-- the state of the build scope when `to_onnx` runs -/
structure Ctx where
  /-- `scope.node[self]` -/
  nodeName : String
  /-- `scope.var[self.inputs.inputs[i]]` -/
  argNames : List String
  /-- `scope.var[self.outputs.outputs[k]]` -/
  resNames : List String
  var : Space
  node : Space

def tblGet (tbl : List (String × String)) (n : String) : String :=
  match tbl.lookup n with
  | some n' => n'
  | none => n

/-- `apply_rename` once the memo table is complete -/
def rho (ins outs argNames resNames : List String) (tbl : List (String × String))
    (n : String) : String :=
  if n ∈ ins then argNames.getD (ins.idxOf n) ""
  else if n ∈ outs then resNames.getD (outs.idxOf n) ""
  else tblGet tbl n

/-- `Identity` nodes for outputs that are directly inputs (the pass-through fix) -/
def passThrough (ins argNames : List String) : List String → List String → List Node
  | o :: os, r :: rs =>
    (if o ∈ ins then [Node.mk "" identityOp [argNames.getD (ins.idxOf o) ""] [r] []] else [])
      ++ passThrough ins argNames os rs
  | _, _ => []

structure Emitted where
  nodes : List Node
  var : Space
  node : Space

/-- `_Inline.to_onnx` (fixed tree) on the private copy `g` -/
def toOnnx (c : Ctx) (g : Graph) : Except Err Emitted :=
  let reqs := g.valueReqs.filter fun n => !(g.inputs.contains n) && !(g.outputs.contains n)
  match assign c.nodeName reqs c.var [] with
  | .error e => .error e
  | .ok (tbl, var') =>
    match assign c.nodeName g.nodeReqs c.node [] with
    | .error e => .error e
    | .ok (ntbl, node') =>
      if g.inits ≠ [] then .error .buildError else
      .ok { nodes := Node.renameL (rho g.inputs g.outputs c.argNames c.resNames tbl) (tblGet ntbl) g.nodes
                      ++ passThrough g.inputs c.argNames g.outputs c.resNames
            var := var', node := node' }

/-! ### the pinned tree: node names and value names share `scope.var`; no pass-through nodes -/

mutual
/-- requests in traversal order, tagged `true` = value name, `false` = node name -/
def Graph.reqsPinned : Graph → List (Bool × String)
  | .mk inputs inits nodes outputs vi =>
    (inputs ++ inits.map (·.1)).map (true, ·) ++ Node.reqsPinnedL nodes
      ++ (outputs ++ vi).map (true, ·)
def Node.reqsPinnedL : List Node → List (Bool × String)
  | [] => []
  | n :: ns => Node.reqsPinned n ++ Node.reqsPinnedL ns
def Node.reqsPinned : Node → List (Bool × String)
  | .mk name _ ins outs subs =>
    (if name = "" then [] else [(false, name)]) ++ (ins ++ outs).map (true, ·)
      ++ Graph.reqsPinnedL subs
def Graph.reqsPinnedL : List Graph → List (Bool × String)
  | [] => []
  | g :: gs => Graph.reqsPinned g ++ Graph.reqsPinnedL gs
end

/-- two memo tables, one name space -/
def assignPinned (pfx : String) : List (Bool × String) → Space →
    List (String × String) → List (String × String) →
    Except Err (List (String × String) × List (String × String) × Space)
  | [], s, vt, nt => .ok (vt, nt, s)
  | (true, n) :: rs, s, vt, nt =>
    (match vt.lookup n with
     | some _ => assignPinned pfx rs s vt nt
     | none =>
       match s.reservePrefixed pfx n with
       | .error e => .error e
       | .ok (n', s') => assignPinned pfx rs s' ((n, n') :: vt) nt)
  | (false, n) :: rs, s, vt, nt =>
    (match nt.lookup n with
     | some _ => assignPinned pfx rs s vt nt
     | none =>
       match s.reservePrefixed pfx n with
       | .error e => .error e
       | .ok (n', s') => assignPinned pfx rs s' vt ((n, n') :: nt))

def toOnnxPinned (c : Ctx) (g : Graph) : Except Err Emitted :=
  let reqs := g.reqsPinned.filter fun r =>
    !r.1 || (!(g.inputs.contains r.2) && !(g.outputs.contains r.2))
  match assignPinned c.nodeName reqs c.var [] [] with
  | .error e => .error e
  | .ok (tbl, ntbl, var') =>
    if g.inits ≠ [] then .error .buildError else
    .ok { nodes := Node.renameL (rho g.inputs g.outputs c.argNames c.resNames tbl) (tblGet ntbl) g.nodes
          var := var', node := c.node }

/-! ## Meaning of a named graph, for an arbitrary operator semantics -/

section Sem
variable {V : Type}

abbrev Env (V : Type) := String → Option V

/-- a body applied to actual values: `none` = evaluation failed -/
abbrev Body (V : Type) := List (Option V) → Option (List (Option V))

/-- operator semantics: the node's operator, its input values (`none` = absent optional input),
    the denotations of its subgraphs (closed over the values visible at the node) -/
abbrev OpSem (V : Type) := Op → List (Option V) → List (Body V) → Option (List (Option V))

/-- the empty name denotes "absent" -/
def Env.get (e : Env V) (n : String) : Option V := if n = "" then none else e n

def Env.set (e : Env V) (n : String) (v : Option V) : Env V :=
  if n = "" then e else fun m => if m = n then v else e m

def Env.setMany (e : Env V) : List String → List (Option V) → Env V
  | n :: ns, v :: vs => (e.set n v).setMany ns vs
  | _, _ => e

def Env.bindInits (lit : Lit → V) (e : Env V) : List (String × Lit) → Env V
  | [] => e
  | p :: ps => Env.bindInits lit (e.set p.1 (some (lit p.2))) ps

mutual
def evalNode (sem : OpSem V) (lit : Lit → V) : Node → Env V → Option (Env V)
  | .mk _ op ins outs subs, env =>
    match sem op (ins.map env.get) (evalBodies sem lit subs env) with
    | none => none
    | some vs => some (env.setMany outs vs)
def evalBodies (sem : OpSem V) (lit : Lit → V) : List Graph → Env V → List (Body V)
  | [], _ => []
  | g :: gs, env => (fun args => evalGraph sem lit g env args) :: evalBodies sem lit gs env
/-- a graph in an environment of outer values, applied to actual inputs: the inputs take the
    actual values; an initializer named like an input is only a default (overridden), every other
    initializer is a constant -/
def evalGraph (sem : OpSem V) (lit : Lit → V) : Graph → Env V → List (Option V) → Option (List (Option V))
  | .mk inputs inits nodes outputs _, env, args =>
    match evalNodes sem lit nodes
        (Env.bindInits lit (env.setMany inputs args) (inits.filter fun p => !inputs.contains p.1)) with
    | none => none
    | some env' => some (outputs.map env'.get)
def evalNodes (sem : OpSem V) (lit : Lit → V) : List Node → Env V → Option (Env V)
  | [], env => some env
  | n :: ns, env =>
    match evalNode sem lit n env with
    | none => none
    | some env' => evalNodes sem lit ns env'
end

/-- what the model `m` computes on `vals` (one value per graph input) -/
def evalModel (sem : OpSem V) (lit : Lit → V) (g : Graph) (vals : List V) : Option (List (Option V)) :=
  evalGraph sem lit g (fun _ => none) (vals.map some)

end Sem

end Inline

/-! ## Ownership of the caller's model during `inline()` (for `normalise_pure`)

The statements of `inline` as classified by `translator/inline_facts.py`.  The local name `model`
is bound either to the caller's object (`loc = none`) or to a private object. -/
namespace Inline

inductive Stmt | read | copy | mutate | other
deriving DecidableEq, Repr

structure Own (α : Type) where
  /-- content of the caller's object -/
  caller : α
  /-- content of the private object the local name is bound to, if it was rebound -/
  loc : Option α

/-- one statement; `f` is whatever the mutation does to the content -/
def Own.step {α : Type} (f : α → α) : Stmt → Own α → Own α
  | .copy, s => { s with loc := some (match s.loc with | none => s.caller | some x => x) }
  | .mutate, s =>
    (match s.loc with
     | none => { s with caller := f s.caller }
     | some x => { s with loc := some (f x) })
  | _, s => s

def Own.run {α : Type} (f : Nat → α → α) : List Stmt → Nat → Own α → Own α
  | [], _, s => s
  | st :: sts, k, s => Own.run f sts (k + 1) (Own.step (f k) st s)

/-- no mutation before the (first) copy -/
def copyFirst : List Stmt → Bool
  | [] => true
  | .copy :: _ => true
  | .mutate :: _ => false
  | _ :: sts => copyFirst sts

end Inline

/-! ## When the renaming cannot raise: no visible name or counter in the `<node>__` family -/
namespace Inline

/-- `x` starts with `p` -/
def prefixed (p x : String) : Bool := p.toList.isPrefixOf x.toList

/-- decidable condition on a name space: nothing visible and no counter key starts with
    `<node>__` (what the build's own naming provides for a fresh `Inline_k`) -/
def Space.prefixFree (s : Space) (pfx : String) : Bool :=
  s.used.all (fun x => !prefixed (pfx ++ "__") x) &&
  s.counters.all (fun c => !prefixed (pfx ++ "__") c.1)

end Inline

/-! ## `adapt_inline` (`_adapt.py`): whole-model conversion, re-renaming in a fresh scope,
    swap-and-restore of `node.model` -/
namespace Inline

/-- `source_version != target_version` with `source_version` = the highest default-domain import of
    the inlined model (the target itself if there is none), and only if the emitted nodes touch the
    default domain at all -/
def needsConversion (protoDomains : List String) (defaultImports : List Nat) (target : Nat) : Bool :=
  (protoDomains.any fun d => d == "" || d == "ai.onnx") &&
  (match defaultImports with
   | [] => false
   | v :: vs => vs.foldl max v != target)

/-- the default-domain versions among ALL `opset_import` entries of the inlined model, in their
    order (`imp.version for imp in node.model.opset_import if imp.domain in ("", "ai.onnx")`) -/
def defaultImports (imports : List (String × Nat)) : List Nat :=
  (imports.filter fun i => i.1 == "" || i.1 == "ai.onnx").map (·.2)

/-- `source_version`: the highest default-domain import, if there is one -/
def sourceVersion (imports : List (String × Nat)) : Option Nat :=
  match defaultImports imports with
  | [] => none
  | v :: vs => some (vs.foldl max v)

/-- the decision of `adapt_inline` on the raw data: domains of the emitted top-level nodes, all
    opset imports of the inlined model (every domain), target version of the default domain -/
def needsConversionFull (protoDomains : List String) (imports : List (String × Nat)) (target : Nat) : Bool :=
  needsConversion protoDomains (defaultImports imports) target

/-- the source text `needsConversion` / `defaultImports` / `sourceVersion` / `adaptInline` transcribe
    (normalised by `ast.unparse`); `Generated.InlineFacts.adaptShape` is re-extracted from `_adapt.py`
    on every run and must be equal to it (`C08.generated_adapt_decision`): an added guard, another
    source of the versions, a second `return protos`, a loop or helper inside `adapt_inline` is a
    code path this model does not describe -/
def adaptShapeModelled : List (String × String) := [
  ("params", "node, protos, target_opsets, var_names, node_name"),
  ("target_version", "target_opsets['']"),
  ("source_version", "max({imp.version for imp in node.model.opset_import if imp.domain in ('', 'ai.onnx')}, default=target_version)"),
  ("seen_domains", "{prot.domain for prot in protos}"),
  ("keep-if", "not seen_domains & {'', 'ai.onnx'}"),
  ("convert-if", "source_version != target_version"),
  ("convert-call", "onnx.version_converter.convert_version(node.model, target_version)"),
  ("convert-step", "_initializers_to_constants(target_model.graph)"),
  ("helper:_initializers_to_constants", "def _initializers_to_constants(graph: onnx.GraphProto) -> None:\n    input_names = {i.name for i in graph.input}\n    constants = [onnx.helper.make_node('Constant', [], [init.name], value=init) for init in graph.initializer if init.name not in input_names]\n    if not constants:\n        return\n    nodes = constants + list(graph.node)\n    del graph.initializer[:]\n    del graph.node[:]\n    graph.node.extend(nodes)"),
  ("return-unconverted", "line-order 0"),
  ("return-unconverted", "line-order 1"),
  ("returns", "3"),
  ("loops-or-nested-defs", "0")]

/-- what the model knows of class `_Inline` and of the writes on the node object: `pre_init` stores the
    private copy, `graph` / `opset_req` read it, `infer_output_types` = `typeCheck` + declared output
    types, `to_onnx` = `toOnnx`, `propagate_values` (C09's subject; no influence on the built model),
    `adapt_inline` swaps and restores `model` (`swapIR`); nothing else is stored on the node - in
    particular no cache of converted or renamed nodes (`Generated.InlineFacts.inlineMembers`,
    `C08.generated_inline_members`) -/
def inlineMembersModelled : List String := [
  "attr:attrs", "attr:inputs", "attr:model", "attr:op_type=", "attr:outputs", "bases:_InternalNode",
  "class:Attributes", "class:Inputs", "class:Outputs", "def:graph@property", "def:infer_output_types",
  "def:opset_req@property", "def:pre_init", "def:propagate_values", "def:to_onnx",
  "write:adapt_inline:model", "write:pre_init:model"]

/-- `Scope.of((node, node_name), *var_names.items())`: every value name of the build, no reserved
    names, no counters -/
def freshCtx (c : Ctx) (varNames : List String) : Ctx :=
  { c with var := ⟨varNames, []⟩, node := ⟨[c.nodeName], []⟩ }

/-- `_adapt._initializers_to_constants(target_model.graph)`: the converter may turn former attributes
    (`pads` of Pad-10) into graph initializers; those that are not inputs become leading `Constant`
    nodes and ALL initializers are dropped - unless there is no such constant, then nothing happens
    (initializers named like inputs would stay and make `to_onnx` raise BuildError) -/
def initsToConstants (g : Graph) : Graph :=
  if preamble g = [] then g else .mk g.inputs [] (preamble g ++ g.nodes) g.outputs g.valueInfo

/-- what `adapt_sem` / `inline_correct` assume of `onnx.version_converter.convert_version(·, target)`
    (third party), on the normalised private copy `g` and for the operator semantics at hand:
    the signature is kept, the node list assigns no input name, no initializer it introduces is
    named like an input, and the converted model computes what `g` computes -/
structure ConverterContract {V : Type} (sem : OpSem V) (lit : Lit → V) (conv : Graph → Graph) (g : Graph) : Prop where
  inputs : (conv g).inputs = g.inputs
  outputs : (conv g).outputs = g.outputs
  ssa : ∀ x ∈ Node.assignedL (conv g).nodes, x ∉ g.inputs
  inits : ∀ p ∈ (conv g).inits, g.inputs.contains p.1 = false
  meaning : ∀ vals, evalModel sem lit (conv g) vals = evalModel sem lit g vals

/-- the decidable part of the contract, evaluated by the driver on the converter's ACTUAL result of every
    correspondence case (`contract` in the answer; the harness reports a converted case where it is false) -/
def contractCheck (h g : Graph) : Bool :=
  h.inputs == g.inputs && h.outputs == g.outputs &&
  (Node.assignedL h.nodes).all (fun x => !g.inputs.contains x) &&
  h.inits.all (fun p => !g.inputs.contains p.1)

/-- `adapt_inline`; `conv` is `onnx.version_converter.convert_version(·, target)` on the private
    (normalised) copy, `first` what `to_onnx` emitted during the build -/
def adaptInline (conv : Graph → Graph) (c : Ctx) (varNames : List String) (g : Graph)
    (first : List Node) (defaultImports : List Nat) (target : Nat) : Except Err (List Node) :=
  if needsConversion (first.map fun n => n.op.domain) defaultImports target then
    match toOnnx (freshCtx c varNames) (initsToConstants (conv g)) with
    | .ok em => .ok em.nodes
    | .error e => .error e
  else .ok first

/-- statements of the conversion branch of `adapt_inline`, as far as `node.model` is concerned -/
inductive SStmt where
  | saveBase      -- base_model = node.model
  | setTarget     -- node.model = target_model
  | emit          -- node.to_onnx(...)  (may raise)
  | restoreBase   -- node.model = base_model
  | other         -- does not touch node.model
  | opaque        -- touches node.model in a way the extractor does not understand
  | tryFinally (body fin : List SStmt)

structure SW (α : Type) where
  field : α
  saved : Option α
  raised : Bool

mutual
def SStmt.run {α : Type} (emitRaises : Bool) (target junk : α) : SStmt → SW α → SW α
  | .saveBase, w => { w with saved := some w.field }
  | .setTarget, w => { w with field := target }
  | .emit, w => { w with raised := emitRaises }
  | .restoreBase, w => { w with field := w.saved.getD junk }
  | .other, w => w
  | .opaque, w => { w with field := junk }
  | .tryFinally body fin, w =>
    let w1 := SStmt.runL emitRaises target junk body w
    let w2 := SStmt.runL emitRaises target junk fin { w1 with raised := false }
    { w2 with raised := w1.raised || w2.raised }
def SStmt.runL {α : Type} (emitRaises : Bool) (target junk : α) : List SStmt → SW α → SW α
  | [], w => w
  | s :: ss, w =>
    let w1 := SStmt.run emitRaises target junk s w
    if w1.raised then w1 else SStmt.runL emitRaises target junk ss w1
end

end Inline

/-! ## Which build scopes are prefix-free: the condition on user-chosen names

The names a build puts into its (flat) scope before `_Inline.to_onnx` of node `K` runs have three
origins (`Scope.update`, `_Inline.to_onnx`; C02's `Model/Naming.lean` describes the same calls):
user/preset names; generated names `b` or `b_<c>` for a base `b = <node>_<field>` (values) resp. the
node names themselves; names `K'__…` reserved by another Inline node `K'`. -/
namespace Inline

/-- neither string is a prefix of the other -/
def incomp (p q : String) : Bool := !prefixed p q && !prefixed q p

/-- static naming data of a build, seen from the Inline node `K` -/
structure NameData where
  /-- user-chosen / preset value names (argument and result names of `build`, …) -/
  users : List String
  /-- bases `<node>_<field>` of generated value names -/
  varBases : List String
  /-- names of the *other* Inline nodes whose `to_onnx` ran before -/
  inlines : List String
  /-- node names and node counter keys (`<prefix><Op>_<i>`, `<prefix><Op>`) -/
  nodeNames : List String

/-- the decidable condition on the names under which every scope of that build is prefix-free for `K` -/
def NameData.safe (d : NameData) (k : String) : Bool :=
  d.users.all (fun n => !prefixed (k ++ "__") n) &&
  d.varBases.all (fun b => incomp (k ++ "__") (b ++ "_")) &&
  d.inlines.all (fun k' => incomp (k ++ "__") (k' ++ "__")) &&
  d.nodeNames.all (fun n => !prefixed (k ++ "__") n)

/-- the naming facts: where every visible name and counter key comes from -/
structure NameFacts (d : NameData) (var node : Space) : Prop where
  varUsed : ∀ x ∈ var.used, x ∈ d.users ∨ (∃ b ∈ d.varBases, x = b ∨ ∃ r, x = b ++ "_" ++ r) ∨
      (∃ k' ∈ d.inlines, ∃ r, x = k' ++ "__" ++ r)
  varCtr : ∀ c ∈ var.counters, c.1 ∈ d.varBases ∨ ∃ k' ∈ d.inlines, ∃ r, c.1 = k' ++ "__" ++ r
  nodeUsed : ∀ x ∈ node.used, x ∈ d.nodeNames ∨ ∃ k' ∈ d.inlines, ∃ r, x = k' ++ "__" ++ r
  nodeCtr : ∀ c ∈ node.counters, c.1 ∈ d.nodeNames ∨ ∃ k' ∈ d.inlines, ∃ r, c.1 = k' ++ "__" ++ r

end Inline
