/-!
Model of spox's operator dispatcher (`_future._NumpyLikeOperatorDispatcher`, `_var.Var.__add__ …`,
`_var.NotImplementedOperatorDispatcher`) for property C17.  Core Lean only.

* `NpInfo`            — what the dispatcher asks of numpy / what ONNX's operator schemas allow; the only
                        instance used is `Generated.ResultType.info`, tabulated on every run (tie G)
* `Operand`, `Tree`   — operand kinds; the operator expression that is emitted
* `promoteTarget`, `targetType`, `dispatch`
                      — `_promote` + the ten dispatcher methods + ONNX's input type constraints:
                        `TypeError` / `OverflowError` / `InferenceError` or the emitted tree and its
                        element type.  Executed against the real dispatcher on every run (tie H)
* `wrap`, `eval`      — ONNX's integer semantics of the emitted operators (two's-complement
                        wrap-around, truncating `Div`); compared with onnxruntime on every run (tie H)
* `npInt`             — numpy's integer semantics (wrap-around, floor division): specification side
-/
namespace Dispatch

structure NpInfo where
  /-- `np.result_type(x, y)` by target kind; `none` = raises / not one of the 12 dtypes -/
  rt2 : Nat → Nat → Option Nat
  /-- `np.result_type(x)` -/
  rt1 : Nat → Option Nat
  floating : Nat → Bool
  integer : Nat → Bool
  signed : Nat → Bool
  bits : Nat → Nat
  /-- the ONNX operator `op` accepts inputs of dtype `d` -/
  allowed : String → Nat → Bool

/-- dtype codes: 0-3 int8..int64, 4-7 uint8..uint64, 8-10 float16/32/64, 11 bool -/
def f64 : Nat := 10
def boolDt : Nat := 11

/-- What can stand on either side of an overloaded operator. -/
inductive Operand
  | var (d : Nat)            -- a Var of tensor type with dtype d
  | pyInt (v : Int)          -- a Python int
  | pyFloat                  -- a Python float
  | pyBool (b : Bool)        -- a Python bool (an `int` for isinstance)
  | npScalar (d : Nat)       -- a numpy scalar (np.generic) of dtype d
  | other                    -- anything else (None, str, Ellipsis, …)
deriving DecidableEq, Repr, Inhabited

/-- target kind handed to `np.result_type` (0-11 dtype, 12 int, 13 float, 14 bool, 15-26 numpy scalar) -/
def Operand.kind : Operand → Option Nat
  | .var d => some d
  | .pyInt _ => some 12
  | .pyFloat => some 13
  | .pyBool _ => some 14
  | .npScalar d => some (15 + d)
  | .other => none

/-- `isinstance(obj, (np.generic, int, float))` -/
def Operand.constLike : Operand → Bool
  | .pyInt _ | .pyFloat | .pyBool _ | .npScalar _ => true
  | _ => false

inductive Err | typeError | overflowError | inferenceError
deriving DecidableEq, Repr, Inhabited

inductive NodeOp | Add | Sub | Mul | Div | Neg | Floor | And | Or | Xor | Not | Equal | Less
deriving DecidableEq, Repr, Inhabited

def NodeOp.name : NodeOp → String
  | .Add => "Add" | .Sub => "Sub" | .Mul => "Mul" | .Div => "Div" | .Neg => "Neg" | .Floor => "Floor"
  | .And => "And" | .Or => "Or" | .Xor => "Xor" | .Not => "Not" | .Equal => "Equal" | .Less => "Less"

/-- The emitted expression over the two operands. -/
inductive Tree
  | arg (i : Nat)                       -- the operand Var itself
  | cast (to : Nat) (t : Tree)          -- Cast(to=…)
  | constOf (i : Nat) (dt : Nat)        -- Constant(np.array(operand i, dtype=dt))
  | zero (dt : Nat)                     -- Constant(np.array(0, dtype=dt))
  | un (op : NodeOp) (t : Tree)
  | bin (op : NodeOp) (l r : Tree)
deriving DecidableEq, Repr, Inhabited

/-- The overloaded operators (= the dispatcher's methods). -/
inductive Op | add | sub | mul | truediv | floordiv | neg | and_ | or_ | xor | not_
deriving DecidableEq, Repr, Inhabited

def inRange (np : NpInfo) (d : Nat) (v : Int) : Bool :=
  if np.signed d then decide (-(2 : Int) ^ (np.bits d - 1) ≤ v) && decide (v < (2 : Int) ^ (np.bits d - 1))
  else decide (0 ≤ v) && decide (v < (2 : Int) ^ np.bits d)

/-- the dtypes of the Var operands, without repetition (`{dtype for dtype in targets if isinstance(dtype, np.dtype)}`) -/
def varDtypes : List Operand → List Nat
  | [] => []
  | .var d :: rest => let r := varDtypes rest; if r.contains d then r else d :: r
  | _ :: rest => varDtypes rest

/-- the first half of `_promote`: the common element type, or TypeError -/
def targetType (np : NpInfo) (tp toFloating : Bool) (a b : Operand) : Except Err Nat :=
  if tp then
    match a.kind, b.kind with
    | some ka, some kb =>
        match np.rt2 ka kb with
        | some t => .ok (if toFloating && !np.floating t then f64 else t)
        | none => .error .typeError
    | _, _ => .error .typeError
  else
    match varDtypes [a, b] with
    | [t] =>
        let isFloating (o : Operand) : Bool :=
          match o.kind with
          | some k => (match np.rt1 k with | some r => np.floating r | none => true)
          | none => true   -- raises TypeError, or is float64 for None: a TypeError either way
        if np.integer t && (isFloating a || isFloating b) then .error .typeError else .ok t
    | _ => .error .typeError

/-- `_promote_target` -/
def promoteTarget (np : NpInfo) (tp cp : Bool) (t : Nat) (i : Nat) (o : Operand) : Except Err Tree :=
  if cp && o.constLike then
    match o with
    | .pyInt v => if np.integer t && !inRange np t v then .error .overflowError else .ok (.constOf i t)
    | _ => .ok (.constOf i t)
  else
    match o with
    | .var _ => .ok (if tp then .cast t (.arg i) else .arg i)
    | _ => .error .typeError

/-- ONNX's input type constraints on the emitted operators (`InferenceError` when violated). -/
def typeOf (np : NpInfo) (a b : Operand) : Tree → Except Err Nat
  | .arg i =>
      match (if i = 0 then a else b) with
      | .var d => .ok d
      | _ => .error .typeError
  | .cast to t => do
      let d ← typeOf np a b t
      if np.allowed "Cast" d then .ok to else .error .inferenceError
  | .constOf _ dt => .ok dt
  | .zero dt => .ok dt
  | .un op t => do
      let d ← typeOf np a b t
      if np.allowed op.name d then .ok d else .error .inferenceError
  | .bin op l r => do
      let dl ← typeOf np a b l
      let dr ← typeOf np a b r
      if dl == dr && np.allowed op.name dl then
        .ok (match op with | .Equal | .Less => boolDt | _ => dl)
      else .error .inferenceError

/-- the operator expression of a binary arithmetic method on promoted operands of type `t` -/
def arithTree (np : NpInfo) (op : Op) (t : Nat) (x y : Tree) : Tree :=
  match op with
  | .add => .bin .Add x y
  | .sub => .bin .Sub x y
  | .mul => .bin .Mul x y
  | .truediv => .bin .Div x y
  | .floordiv =>
      let c := Tree.bin .Div x y
      if !np.integer t then .un .Floor c
      else if np.signed t then
        let rem := Tree.bin .Sub x (.bin .Mul c y)
        let adjust := Tree.bin .And (.un .Not (.bin .Equal rem (.zero t)))
          (.bin .Xor (.bin .Less rem (.zero t)) (.bin .Less y (.zero t)))
        .bin .Sub c (.cast t adjust)
      else c
  | _ => x

/-- `a <op> b` (for the unary operators `b` is ignored).
    `settings = none`: outside an `operator_overloading` block; `some (tp, cp)` inside one. -/
def dispatch (np : NpInfo) (settings : Option (Bool × Bool)) (op : Op) (a b : Operand) :
    Except Err (Tree × Nat) :=
  match settings with
  | none => .error .typeError
  | some (tp, cp) =>
    match op with
    | .add | .sub | .mul | .truediv | .floordiv => do
        let t ← targetType np tp (op == .truediv) a b
        let x ← promoteTarget np tp cp t 0 a
        let y ← promoteTarget np tp cp t 1 b
        let tree := arithTree np op t x y
        let d ← typeOf np a b tree
        .ok (tree, d)
    | .neg | .not_ =>
        match a with
        | .var _ => do
            let tree := Tree.un (if op == .neg then .Neg else .Not) (.arg 0)
            let d ← typeOf np a b tree
            .ok (tree, d)
        | _ => .error .typeError
    | .and_ | .or_ | .xor =>
        match a, b with
        | .var _, .var _ => do
            let tree := Tree.bin (match op with | .and_ => .And | .or_ => .Or | _ => .Xor) (.arg 0) (.arg 1)
            let d ← typeOf np a b tree
            .ok (tree, d)
        | _, _ => .error .typeError


/-! ### Python's operator protocol on `Var` (the wiring between `a <op> b` and the dispatcher methods) -/

/-- Which dispatcher method a dunder of `Var` calls, and whether it passes `(other, self)`.
    The only instance used is read from the class body on every run (`Generated/VarDunders.lean`). -/
structure Wiring where
  /-- `Var.__op__` -/
  fwd : Op → Option (Op × Bool)
  /-- `Var.__rop__` -/
  rev : Op → Option (Op × Bool)

/-- `a <op> b` as Python evaluates it when at least one operand is a `Var` and the other operand's own
    type does not handle it (Python scalars and `None`/`str` return `NotImplemented` for a `Var`):
    `type(a).__op__(a, b)` if `a` is a `Var`, else the reflected `type(b).__rop__(b, a)`.
    A missing dunder is Python's `TypeError`. -/
def applyOperator (w : Wiring) (np : NpInfo) (settings : Option (Bool × Bool)) (op : Op) (a b : Operand) :
    Except Err (Tree × Nat) :=
  match a with
  | .var _ =>
      match w.fwd op with
      | some (m, sw) => if sw then dispatch np settings m b a else dispatch np settings m a b
      | none => .error .typeError
  | _ =>
      match b with
      | .var _ =>
          match w.rev op with
          -- `b.__rop__(a)`: self = b, other = a; swapped = the dispatcher gets `(other, self)` = `(a, b)`
          | some (m, sw) => if sw then dispatch np settings m a b else dispatch np settings m b a
          | none => .error .typeError
      | _ => .error .typeError

/-! ### Integer semantics -/

/-- two's-complement (signed) / modular (unsigned) wrap-around into dtype `d` -/
def wrap (np : NpInfo) (d : Nat) (v : Int) : Int :=
  if np.signed d then (v + (2 : Int) ^ (np.bits d - 1)) % (2 : Int) ^ np.bits d - (2 : Int) ^ (np.bits d - 1)
  else v % (2 : Int) ^ np.bits d

def b2i (b : Bool) : Int := if b then 1 else 0

/-- ONNX semantics of the emitted operators on integer / boolean tensors, element by element.
    `vals i` is the value of operand `i`. `none`: not an integer computation, or division by zero. -/
def eval (np : NpInfo) (a b : Operand) (va vb : Int) : Tree → Option (Nat × Int)
  | .arg i =>
      match (if i = 0 then a else b) with
      | .var d => some (d, if i = 0 then va else vb)
      | _ => none
  | .cast to t =>
      match eval np a b va vb t with
      | some (_, v) =>
          if to == boolDt then some (to, b2i (v != 0))
          else if np.integer to then some (to, wrap np to v) else none
      | none => none
  | .constOf i dt => if np.integer dt || dt == boolDt then some (dt, if i = 0 then va else vb) else none
  | .zero dt => some (dt, 0)
  | .un op t =>
      match eval np a b va vb t with
      | some (d, v) =>
          (match op with
           | .Neg => some (d, wrap np d (-v))
           | .Not => some (d, 1 - v)
           | _ => none)
      | none => none
  | .bin op l r =>
      match eval np a b va vb l, eval np a b va vb r with
      | some (d, x), some (_, y) =>
          (match op with
           | .Add => some (d, wrap np d (x + y))
           | .Sub => some (d, wrap np d (x - y))
           | .Mul => some (d, wrap np d (x * y))
           | .Div => if y = 0 then none else some (d, wrap np d (Int.tdiv x y))
           | .And => some (d, b2i (x != 0 && y != 0))
           | .Or => some (d, b2i (x != 0 || y != 0))
           | .Xor => some (d, b2i ((x != 0) != (y != 0)))
           | .Equal => some (boolDt, b2i (x == y))
           | .Less => some (boolDt, b2i (decide (x < y)))
           | _ => none)
      | _, _ => none

/-- numpy's integer arithmetic in dtype `d` (specification side): exact result, wrapped. -/
def npInt (np : NpInfo) (op : Op) (d : Nat) (x y : Int) : Int :=
  match op with
  | .add => wrap np d (x + y)
  | .sub => wrap np d (x - y)
  | .mul => wrap np d (x * y)
  | .floordiv => wrap np d (Int.fdiv x y)
  | .neg => wrap np d (-x)
  | _ => 0

/-- numpy's logical operators on booleans (0/1). -/
def npLogical (op : Op) (x y : Bool) : Bool :=
  match op with
  | .and_ => x && y
  | .or_ => x || y
  | .xor => x != y
  | .not_ => !x
  | _ => false

/-! ### Scoping of the settings (stack discipline)

`operator_overloading` blocks nest dynamically: a `with` block, a call of a decorated function
(including a decorated function that calls itself, or functions sharing one decorator object calling
each other), a generator suspended inside a block.  Whatever the form, the settings in force at a
program point are those of the innermost block that is still open, and `none` outside all blocks. -/

inductive Scoped
  | probe                                      -- operators are applied here
  | block (s : Bool × Bool) (body : List Scoped)

mutual
/-- the settings in force at every probe, in execution order, starting with `cur` in force -/
def Scoped.probes (cur : Option (Bool × Bool)) : Scoped → List (Option (Bool × Bool))
  | .probe => [cur]
  | .block s body => probesList (some s) body
def probesList (cur : Option (Bool × Bool)) : List Scoped → List (Option (Bool × Bool))
  | [] => []
  | x :: xs => x.probes cur ++ probesList cur xs
end

/-! ### How a block is opened: `operator_overloading(op, type_promotion=False, constant_promotion=True)` -/

/-- The two options of one `operator_overloading(...)` call, each given (positionally or by keyword) or omitted. -/
structure OOCall where
  tp : Option Bool
  cp : Option Bool
deriving DecidableEq, Repr, Inhabited

/-- The settings of the block: an omitted option takes the signature's default (`dflt`, read from the source on every
    run); a GIVEN option is taken as given - `False` included. Nothing is inherited from an enclosing block. -/
def OOCall.settings (dflt : Bool × Bool) (c : OOCall) : Bool × Bool := (c.tp.getD dflt.1, c.cp.getD dflt.2)

/-- Block programs with the calls as written. -/
inductive ScopedC
  | probe
  | block (c : OOCall) (body : List ScopedC)

mutual
def ScopedC.toScoped (dflt : Bool × Bool) : ScopedC → Scoped
  | .probe => .probe
  | .block c body => .block (c.settings dflt) (ScopedC.listToScoped dflt body)
def ScopedC.listToScoped (dflt : Bool × Bool) : List ScopedC → List Scoped
  | [] => []
  | x :: xs => x.toScoped dflt :: ScopedC.listToScoped dflt xs
end

end Dispatch
