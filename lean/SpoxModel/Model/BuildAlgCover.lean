/-!
# What `Model/BuildAlg.lean` covers of `spox/_build.py` (C04, tie G)

Each list is the model-side counterpart of a list in `Generated/BuildAlgFacts.lean` (regenerated from the
source on every run): the functions of the module, the names bound at module level, the class-level
attributes, every write site of Builder state and the call targets of every function — each row
annotated with the model definition that stands for it. `Props/C04.lean` proves the generated lists
equal to these (`generated_*_covered`): a new method, module-level cache, class attribute, write site
or callee in `_build.py` breaks a proof obligation whatever programs are generated. Core Lean only.
-/
namespace BuildAlgCover

/-- (function of `_build.py`, the model definition standing for it) -/
def methods : List (String × String) :=
  [("Cached.__init__", "(build-result cache of a Graph: not part of one build; histories exercise it)"),
   ("Cached.value", "(idem)"),
   ("Cached.value", "(idem)"),
   ("Builder.ScopeTree.__init__", "Built.owner / Built.scopeOf start empty (build: fold from [])"),
   ("Builder.ScopeTree.parent", "BuildAlg.parent"),
   ("Builder.ScopeTree.lca", "BuildAlg.lcaLoop / BuildAlg.lca"),
   ("Builder.__init__", "DState.empty"),
   ("Builder.build_main", "BuildAlg.build"),
   ("Builder.get_intro_results", "V.src g (one source vertex per graph; adjIn (.src g) = results g)"),
   ("Builder.discover", "BuildAlg.discover / collectStep / subStep / finishDiscover"),
   ("Builder.update_scope_tree", "BuildAlg.updateScopeTree / relax"),
   ("Builder.resolve_scopes", "Built.topo (visit adjFull) / Built.scopeOwn"),
   ("Builder.get_build_subgraph_callback", "emitStep: recursion into compileG for every graph attribute, right after the node"),
   ("Builder.compile_graph", "BuildAlg.compileG / argStep / emitStep")]

/-- names bound at module level: a type variable and three classes — no module-level state -/
def moduleNames : List String :=
  ["T", "Cached", "BuildResult", "Builder"]

/-- class-level attributes: annotations only (no class-level mutable value) -/
def classAttrs : List (String × String × String) :=
  [("Cached", "_value", "annotated"),
   ("BuildResult", "scope", "annotated"),
   ("BuildResult", "nodes", "annotated"),
   ("BuildResult", "arguments", "annotated"),
   ("BuildResult", "results", "annotated"),
   ("BuildResult", "opset_req", "annotated"),
   ("BuildResult", "functions", "annotated"),
   ("BuildResult", "initializers", "annotated"),
   ("Builder", "main", "annotated"),
   ("Builder", "graphs", "annotated"),
   ("Builder", "graph_topo", "annotated"),
   ("Builder", "arguments_of", "annotated"),
   ("Builder", "results_of", "annotated"),
   ("Builder", "source_of", "annotated"),
   ("Builder", "all_arguments_in", "annotated"),
   ("Builder", "claimed_arguments_in", "annotated"),
   ("Builder", "scope_tree", "annotated"),
   ("Builder", "scope_own", "annotated"),
   ("Builder.ScopeTree", "subgraph_owner", "annotated"),
   ("Builder.ScopeTree", "scope_of", "annotated")]

/-- (method, `self.` chain, how, the model state it is) -/
def writes : List (String × String × String × String) :=
  [("Cached.__init__", "_value", "assign", "(Graph-level cache)"),
   ("Cached.value", "_value", "assign", "(Graph-level cache)"),
   ("Builder.ScopeTree.__init__", "scope_of", "assign", "Built.scopeOf"),
   ("Builder.ScopeTree.__init__", "subgraph_owner", "assign", "DState.owner"),
   ("Builder.__init__", "all_arguments_in", "assign", "DState.allIn"),
   ("Builder.__init__", "arguments_of", "assign", "DState.argsOf"),
   ("Builder.__init__", "claimed_arguments_in", "assign", "DState.claimedIn"),
   ("Builder.__init__", "graph_topo", "assign", "DState.topo (reversed in build)"),
   ("Builder.__init__", "graphs", "assign", "DState.entered"),
   ("Builder.__init__", "main", "assign", "graph 0"),
   ("Builder.__init__", "results_of", "assign", "PGraph.results"),
   ("Builder.__init__", "scope_own", "assign", "Built.scopeOwn"),
   ("Builder.__init__", "scope_tree", "assign", "Built.owner / Built.scopeOf"),
   ("Builder.__init__", "source_of", "assign", "V.src"),
   ("Builder.build_main", "graph_topo", "reverse", "DState.topo (reversed in build)"),
   ("Builder.build_main", "model_opset_req", "assign", "(opset requirements: no influence on placement; C02/C14)"),
   ("Builder.discover", "all_arguments_in", "subscript", "DState.allIn"),
   ("Builder.discover", "arguments_of", "subscript", "DState.argsOf"),
   ("Builder.discover", "claimed_arguments_in", "subscript", "DState.claimedIn"),
   ("Builder.discover", "graph_topo", "append", "DState.topo (reversed in build)"),
   ("Builder.discover", "graphs", "add", "DState.entered"),
   ("Builder.discover", "results_of", "subscript", "PGraph.results"),
   ("Builder.discover", "scope_tree.subgraph_owner", "subscript", "DState.owner (subStep)"),
   ("Builder.discover", "source_of", "subscript", "V.src"),
   ("Builder.update_scope_tree", "scope_tree.scope_of", "setdefault", "relax (ScopeOf.set)"),
   ("Builder.update_scope_tree", "scope_tree.scope_of", "subscript", "relax (ScopeOf.set)"),
   ("Builder.resolve_scopes", "scope_own", "subscript", "Built.scopeOwn")]

/-- call targets per function (builtins left out) -/
def calls : List (String × List String) :=
  [("Cached.__init__", []),
   ("Cached.value", ["ValueError"]),
   ("Cached.value", []),
   ("Builder.ScopeTree.__init__", []),
   ("Builder.ScopeTree.parent", []),
   ("Builder.ScopeTree.lca", ["self.parent", "vis_a.add"]),
   ("Builder.__init__", ["self.ScopeTree"]),
   ("Builder.build_main", ["?.union", "BuildError", "Scope", "self.compile_graph", "self.discover", "self.graph_topo.reverse", "self.resolve_scopes", "self.update_scope_tree"]),
   ("Builder.get_intro_results", ["intros", "request_results.values", "var._rename"]),
   ("Builder.discover", ["BuildError", "all_arguments.add", "iterative_dfs", "self.discover", "self.get_intro_results", "self.graph_topo.append", "self.graphs.add", "used_arguments.add"]),
   ("Builder.update_scope_tree", ["iterative_dfs", "self.scope_tree.lca", "self.scope_tree.scope_of.setdefault"]),
   ("Builder.resolve_scopes", ["?.add", "BuildError", "iterative_dfs", "itertools.chain", "self.scope_tree.scope_of.items"]),
   ("Builder.get_build_subgraph_callback", ["?._inject_build_result", "?.with_opset", "self.compile_graph", "subgraph._get_build_result", "subgraph.to_onnx", "subgraph.with_name", "subgraph_functions.extend"]),
   ("Builder.compile_graph", ["BuildResult", "functions.extend", "node.to_onnx", "node.update_metadata", "scope.update", "self.get_build_subgraph_callback"])]

/-- module-level names of `_graph.py`, `_internal_op.py`, `_traverse.py`: constructors, two opset
    constants, classes - no module-level table that could memoise bodies or nodes across calls -/
def otherModuleNames : List (String × String) :=
  [("_graph.py", "arguments_dict"),
   ("_graph.py", "arguments"),
   ("_graph.py", "enum_arguments"),
   ("_graph.py", "initializer"),
   ("_graph.py", "Graph"),
   ("_graph.py", "results"),
   ("_graph.py", "enum_results"),
   ("_graph.py", "subgraph"),
   ("_internal_op.py", "INTERNAL_MIN_OPSET"),
   ("_internal_op.py", "IDENTITY_OPTIONAL_MIN_OPSET"),
   ("_internal_op.py", "_InternalNode"),
   ("_internal_op.py", "Argument"),
   ("_internal_op.py", "_Initializer"),
   ("_internal_op.py", "_Introduce"),
   ("_internal_op.py", "intros"),
   ("_internal_op.py", "intro"),
   ("_internal_op.py", "unsafe_cast"),
   ("_internal_op.py", "unsafe_reshape"),
   ("_traverse.py", "V"),
   ("_traverse.py", "iterative_dfs")]

end BuildAlgCover
