import SpoxModel.Generated.OpsetFacts
/-!
# Opset requirements, the maximum policy and the adaptation decisions (C09)

Model of `_build.compile_graph` (collection of `opset_req`, bodies merged upward),
`Node.opset_req` / `_Introduce` / `_Inline` / `Function.opset_req`, `_schemas.max_opset_policy`,
`Graph.get_adapted_nodes` (every graph adapts its own nodes against **its own** opsets),
`_adapt.adapt_best_effort` / `adapt_inline` / `adapt_node` (decision level) and
`Graph.to_onnx_model` / `Function.to_onnx_function` (imports of the model and of its functions).

What `onnx.version_converter` emits for a converted node is not modelled (third party).
Core Lean only (the driver links this file). The schema history and `INTERNAL_MIN_OPSET` come from
`Generated/OpsetFacts.lean`, rewritten from the source tree on every run.
-/
namespace Opset

/-- An opset requirement `(domain, version)`. -/
abbrev Req := String × Nat

/-! ## `max_opset_policy` -/

/-- `k if k != "ai.onnx" else ""` -/
def fold (d : String) : String := if d = "ai.onnx" then "" else d

def foldReq (r : Req) : Req := (fold r.1, r.2)

/-- insertion into a list ordered by `<` on strings (`sorted`) -/
def insertOrd (d : String) : List String → List String
  | [] => [d]
  | x :: xs => if d < x then d :: x :: xs else x :: insertOrd d xs

/-- the requirements are a Python `set`: a domain is listed once -/
def addDom (d : String) (l : List String) : List String := if d ∈ l then l else insertOrd d l

/-- the group keys of `groupby(sorted(reqs), key=domain)`: the distinct domains in ascending order -/
def domains (reqs : List Req) : List String := (reqs.map (·.1)).foldr addDom []

/-- `max(v for _, v in group)` for the group of domain `d` (0 for an empty group, which never occurs) -/
def maxVersion (d : String) (reqs : List Req) : Nat :=
  ((reqs.filter (fun r => r.1 == d)).map (·.2)).foldl max 0

/-- `max_opset_policy`: the resulting dict as an association list in insertion (= sorted) order. -/
def policy (reqs : List Req) : List Req :=
  let folded := reqs.map foldReq
  (domains folded).map (fun d => (d, maxVersion d folded))

/-- dict lookup -/
def lookup (d : String) (m : List Req) : Option Nat := List.lookup d m

/-! ## programs -/

/-- What a node is, as far as opsets are concerned. -/
inductive Kind where
  /-- `Argument`, `_Initializer`: no requirement, no NodeProto -/
  | internal
  /-- a user-level `_Introduce` (the one every graph gets from the builder is implicit in `PGraph`) -/
  | intro
  /-- an `_Introduce` (user-level, or the result identities of a graph) that forwards an OPTIONAL-typed value:
      the Identity it is built into accepts optional types only from `IDENTITY_OPTIONAL_MIN_OPSET` on -/
  | introOpt
  /-- `_Inline`: the opset imports of the inlined model; whether any of its nodes is in the default domain -/
  | inline (imports : List Req) (hasDefault : Bool)
  /-- any other node class with `op_type = OpType(op, domain, version)`; `op` numbers `Generated.OpsetFacts.opNames` -/
  | op (domain : String) (op : Nat) (version : Nat)
  /-- a `Function` node (an `_InternalNode`); its body is `subs[0]` -/
  | func (domain : String) (version : Nat) (name : String)
deriving Repr, DecidableEq

mutual
/-- A node: kind, number of NodeProtos its `to_onnx` returned, whether all its input/output types
    are tensors of known rank and none of its attributes is a reference (`_Ref`), its subgraphs (bodies in attribute order; for `func` the function graph),
    and a number identifying its (unique) node name. -/
inductive PNode where
  | mk (kind : Kind) (nProtos : Nat) (concrete : Bool) (subs : List PGraph) (id : Nat)
/-- A graph as compiled: the nodes the builder placed in it. Its result `_Introduce` is implicit. -/
inductive PGraph where
  | mk (nodes : List PNode)
end

def PNode.kind : PNode → Kind | .mk k _ _ _ _ => k
def PNode.nProtos : PNode → Nat | .mk _ n _ _ _ => n
def PNode.concrete : PNode → Bool | .mk _ _ c _ _ => c
def PNode.subs : PNode → List PGraph | .mk _ _ _ s _ => s
def PNode.id : PNode → Nat | .mk _ _ _ _ i => i
def PGraph.nodes : PGraph → List PNode | .mk ns => ns

/-- Facts about the surrounding code base the model is parametric in (instantiated from Generated). -/
structure Facts where
  /-- `INTERNAL_MIN_OPSET` -/
  minOpset : Nat
  /-- `IDENTITY_OPTIONAL_MIN_OPSET` -/
  optionalMin : Nat
  /-- `SCHEMAS.get(domain, {}).get(version, {}).get(op)` as the `since_version` of the schema found -/
  schemaSince : String → Nat → Nat → Option Nat

/-- `node.opset_req` without subgraphs (`Function.opset_req` adds its graph's, see `reqNode`) -/
def kindReq (F : Facts) : Kind → List Req
  | .internal => []
  | .intro => [("", F.minOpset)]
  | .introOpt => [("", F.optionalMin)]
  | .inline imports _ => imports ++ [("", F.minOpset)]
  | .op d _ v => [(d, v)]
  | .func d v _ => [(d, v)]

mutual
/-- everything a node contributes to the `opset_req` of the graph it is compiled in -/
def reqNode (F : Facts) : PNode → List Req
  | .mk k _ _ subs _ => kindReq F k ++ reqGraphs F subs
def reqGraphs (F : Facts) : List PGraph → List Req
  | [] => []
  | g :: gs => reqGraph F g ++ reqGraphs F gs
/-- `BuildResult.opset_req` of a compiled graph: its result `_Introduce`, its nodes, its bodies -/
def reqGraph (F : Facts) : PGraph → List Req
  | .mk nodes => ("", F.minOpset) :: reqNodes F nodes
def reqNodes (F : Facts) : List PNode → List Req
  | [] => []
  | n :: ns => reqNode F n ++ reqNodes F ns
end

/-- `Graph.get_opsets()` with `_extra_opset_req = extra` -/
def opsetsOf (F : Facts) (extra : List Req) (g : PGraph) : List Req := policy (reqGraph F g ++ extra)

/-! ## `adapt_best_effort` -/

inductive Decision where
  /-- `_Inline`, nothing to do (same version, or no default-domain node inside) -/
  | keepInline
  /-- `_Inline`, whole model through `convert_version(model, tgt)` -/
  | convertInline (src tgt : Nat)
  /-- `_InternalNode` -/
  | keepInternal
  /-- `len(protos) != 1` -/
  | keepProtos
  /-- a graph-valued attribute -/
  | keepSubgraph
  | keepSameVersion
  | keepSameSchema
  /-- differing schema outside the default domain: RuntimeWarning, kept -/
  | keepNonDefault (src tgt : Nat)
  /-- `adapt_node`: singleton model through the converter -/
  | convert (src tgt : Nat)
  /-- `adapt_node` on a node with a value of unknown rank: the singleton model fails the checker -/
  | convertError (src tgt : Nat)
  /-- a Python exception in the decision itself (`opsets[domain]` KeyError, `max` of an empty set) -/
  | pyError
deriving Repr, DecidableEq

/-- default-domain version an inlined model is written in (`default=` the target) -/
def inlineSource (imports : List Req) (target : Nat) : Nat :=
  match (imports.filter (fun r => r.1 == "" || r.1 == "ai.onnx")).map (·.2) with
  | [] => target
  | vs => vs.foldl max 0

/-- `source_schema == target_schema` for two entries of `SCHEMAS[dom]` that both exist
    (the comparison is object identity of `OpSchema`s, i.e. equal `since_version`) -/
def sameSchema (F : Facts) (dom : String) (o v tgt : Nat) : Bool :=
  match F.schemaSince dom o v, F.schemaSince dom o tgt with
  | some a, some b => a == b
  | _, _ => false

/-- `adapt_best_effort(node, protos, opsets, …)` at decision level. -/
def adaptBestEffort (F : Facts) (opsets : List Req) : PNode → Decision
  | .mk (.inline imports hasDefault) _ _ _ _ =>
      match lookup "" opsets with
      | none => .pyError
      | some tgt =>
        let src := inlineSource imports tgt
        if !hasDefault then .keepInline
        else if src ≠ tgt then .convertInline src tgt else .keepInline
  | .mk .internal _ _ _ _ => .keepInternal
  | .mk .intro _ _ _ _ => .keepInternal
  | .mk .introOpt _ _ _ _ => .keepInternal
  | .mk (.func _ _ _) _ _ _ _ => .keepInternal
  | .mk (.op d o v) nProtos concrete subs _ =>
      if nProtos ≠ 1 then .keepProtos
      else if !subs.isEmpty then .keepSubgraph
      else
        let dom := fold d
        if d ≠ dom then .pyError            -- `max` of the empty set of matching requirements
        else match lookup dom opsets with
        | none => .pyError
        | some tgt =>
          if v = tgt then .keepSameVersion
          else
            if sameSchema F dom o v tgt then .keepSameSchema
            else if d ≠ "" then .keepNonDefault v tgt
            else if concrete then .convert v tgt else .convertError v tgt

/-- One adapted node: the opsets of the graph it was adapted in, the node, the decision. -/
structure Entry where
  opsets : List Req
  node : PNode
  decision : Decision

mutual
/-- A body compiled by a builder whose `model_opset_req` (the requirements of every node of every
    graph of that build, plus the main graph's extra requirements) is `ctx`: `build_subgraph` hands it
    `ctx` through `with_opset`, so it is adapted against `policy (own requirements ∪ ctx)`. -/
def adaptBody (F : Facts) (ctx : List Req) : PGraph → List Entry
  | .mk nodes => adaptNodes F ctx (policy (reqGraph F (.mk nodes) ++ ctx)) nodes
def adaptNodes (F : Facts) (ctx opsets : List Req) : List PNode → List Entry
  | [] => []
  | n :: ns => adaptNode F ctx opsets n ++ adaptNodes F ctx opsets ns
def adaptNode (F : Facts) (ctx opsets : List Req) : PNode → List Entry
  | .mk k np c subs i =>
      ⟨opsets, .mk k np c subs i, adaptBestEffort F opsets (.mk k np c subs i)⟩ ::
        (match k with
         | .func _ _ _ => []
         | _ => adaptBodies F ctx subs)
def adaptBodies (F : Facts) (ctx : List Req) : List PGraph → List Entry
  | [] => []
  | g :: gs => adaptBody F ctx g ++ adaptBodies F ctx gs
end

/-- `Graph.get_adapted_nodes` of the graph a builder is started on (`_extra_opset_req = extra`) and,
    through `build_subgraph`, of all bodies below it. Function graphs are not entered here: they are
    built again by `to_onnx_function` with the model's opsets as their extra requirements. -/
def adaptGraph (F : Facts) (extra : List Req) : PGraph → List Entry
  | .mk nodes =>
      adaptNodes F (reqGraph F (.mk nodes) ++ extra) (policy (reqGraph F (.mk nodes) ++ extra)) nodes

/-! ## functions -/

mutual
/-- `BuildResult.functions` of a graph: first the `Function` nodes placed in the graph itself, each
    followed by the functions of its own graph; then the functions of the bodies of its other nodes
    (merged upward by `build_subgraph`). Returned as the function graphs. -/
def funcsOfGraph : PGraph → List PGraph
  | .mk nodes => funcsOfNodes nodes ++ subFuncsOfNodes nodes
def funcsOfNodes : List PNode → List PGraph
  | [] => []
  | n :: ns => funcsOfNode n ++ funcsOfNodes ns
def funcsOfNode : PNode → List PGraph
  | .mk (.func _ _ _) _ _ subs _ => funcsOfBodies subs
  | .mk _ _ _ _ _ => []
def funcsOfBodies : List PGraph → List PGraph
  | [] => []
  | g :: gs => (g :: funcsOfGraph g) ++ funcsOfBodies gs
def subFuncsOfNodes : List PNode → List PGraph
  | [] => []
  | n :: ns => subFuncsOfNode n ++ subFuncsOfNodes ns
def subFuncsOfNode : PNode → List PGraph
  | .mk (.func _ _ _) _ _ _ _ => []
  | .mk _ _ _ subs _ => funcsOfGraphs subs
def funcsOfGraphs : List PGraph → List PGraph
  | [] => []
  | g :: gs => funcsOfGraph g ++ funcsOfGraphs gs
end

/-- the key `to_onnx_model` merges function definitions under: `(proto.domain, proto.name)` -/
abbrev FKey := String × String

mutual
/-- the keys of `BuildResult.functions`, occurrence by occurrence, in the order of `funcsOfGraph` -/
def funcKeysOfGraph : PGraph → List FKey
  | .mk nodes => funcKeysOfNodes nodes ++ subFuncKeysOfNodes nodes
def funcKeysOfNodes : List PNode → List FKey
  | [] => []
  | n :: ns => funcKeysOfNode n ++ funcKeysOfNodes ns
def funcKeysOfNode : PNode → List FKey
  | .mk (.func d _ nm) _ _ subs _ => funcKeysOfBodies (d, nm) subs
  | .mk _ _ _ _ _ => []
def funcKeysOfBodies (key : FKey) : List PGraph → List FKey
  | [] => []
  | g :: gs => (key :: funcKeysOfGraph g) ++ funcKeysOfBodies key gs
def subFuncKeysOfNodes : List PNode → List FKey
  | [] => []
  | n :: ns => subFuncKeysOfNode n ++ subFuncKeysOfNodes ns
def subFuncKeysOfNode : PNode → List FKey
  | .mk (.func _ _ _) _ _ _ _ => []
  | .mk _ _ _ subs _ => funcKeysOfGraphs subs
def funcKeysOfGraphs : List PGraph → List FKey
  | [] => []
  | g :: gs => funcKeysOfGraph g ++ funcKeysOfGraphs gs
end

/-- The loop of `to_onnx_model` over `functions`: a definition is kept under its key the first time the key
    is seen; a later occurrence of the key must carry an equal definition, otherwise the build raises
    ("… has two different definitions") — `none`. -/
def mergeInto {δ : Type} [DecidableEq δ] (acc : List (FKey × δ)) : List (FKey × δ) → Option (List (FKey × δ))
  | [] => some acc
  | (k, d) :: rest =>
    match acc.lookup k with
    | none => mergeInto (acc ++ [(k, d)]) rest
    | some d' => if d' = d then mergeInto acc rest else none

def mergeFuncs {δ : Type} [DecidableEq δ] (l : List (FKey × δ)) : Option (List (FKey × δ)) := mergeInto [] l

/-- what the opset model knows of one adapted node of a function definition -/
def entryView (e : Entry) : List Req × Decision := (e.opsets, e.decision)

/-- What `to_onnx_model` assembles, at the level of opsets. -/
structure ModelOut where
  /-- `model.opset_import` in order -/
  imports : List Req
  /-- adapted nodes of the main graph and all bodies below it -/
  main : List Entry
  /-- per emitted function: `FunctionProto.opset_import` and the adapted nodes of its graph -/
  funcs : List (List Req × List Entry)

def buildModel (F : Facts) (g : PGraph) : ModelOut :=
  let imports := opsetsOf F [] g
  { imports := imports
    main := adaptGraph F [] g
    funcs := (funcsOfGraph g).map (fun fg => (opsetsOf F imports fg, adaptGraph F imports fg)) }

/-- The same for a graph with extra requirements (`Graph.with_opset(*extra)`, e.g. `("ai.onnx", 17)`). -/
def buildModelWith (F : Facts) (extra : List Req) (g : PGraph) : ModelOut :=
  let imports := opsetsOf F extra g
  { imports := imports
    main := adaptGraph F extra g
    funcs := (funcsOfGraph g).map (fun fg => (opsetsOf F imports fg, adaptGraph F imports fg)) }

/-- a function definition as far as opsets go: its imports and, node by node, opsets and decision -/
abbrev FuncDef := List Req × List (List Req × Decision)

/-- the occurrences `to_onnx_model` iterates over: key and definition -/
def funcOccurrences (F : Facts) (extra : List Req) (g : PGraph) : List (FKey × FuncDef) :=
  (funcKeysOfGraph g).zip ((buildModelWith F extra g).funcs.map (fun f => (f.1, f.2.map entryView)))

/-- `model.functions`: `none` when the build raises for two different definitions under one key -/
def emittedFunctions (F : Facts) (extra : List Req) (g : PGraph) : Option (List (FKey × FuncDef)) :=
  mergeFuncs (funcOccurrences F extra g)

/-! ## names introduced by adaptation -/

/-- Value names in the emitted model. `out n k`: output `k` of the node named `n` (assigned by the
    builder's scope); `fresh n k`: the `k`-th value the converter introduced while adapting node `n`,
    qualified with the node name (`f"{proto.name}__{name}"`); `bare k`: the same value under the
    converter's own name — what the pinned tree emitted. -/
inductive Name where
  | out (node k : Nat)
  | fresh (node k : Nat)
  | bare (k : Nat)
deriving Repr, DecidableEq

/-- names defined by the NodeProtos of one entry; `conv n` = converter-local names introduced for node `n`;
    `nOut n` = number of outputs of node `n` -/
def entryNames (qualified : Bool) (nOut : Nat → Nat) (conv : Nat → List Nat) (e : Entry) : List Name :=
  let own := (List.range (nOut e.node.id)).map (Name.out e.node.id)
  match e.decision with
  | .convert _ _ =>
      own ++ (conv e.node.id).map (fun k => if qualified then Name.fresh e.node.id k else Name.bare k)
  | _ => own

def allNames (qualified : Bool) (nOut : Nat → Nat) (conv : Nat → List Nat) (es : List Entry) : List Name :=
  es.flatMap (entryNames qualified nOut conv)

/-! ## the generated facts -/

open Generated.OpsetFacts in
/-- since-version of the schema `SCHEMAS[d][v]` holds for operator number `o` -/
def genSchemaSince (d : String) (o v : Nat) : Option Nat :=
  let pick : Option ((Nat × Nat) × List (Nat × List (Nat × Nat))) :=
    if d = "" then some (rangeDefault, runsDefault)
    else if d = "ai.onnx.ml" then some (rangeMl, runsMl) else none
  match pick with
  | none => none
  | some (range, table) =>
    if v < range.1 || range.2 < v then none
    else match List.lookup o table with
      | none => none
      | some runs =>
        let s := runs.foldl (fun acc r => if r.1 ≤ v then r.2 else acc) 0
        if s = 0 then none else some s

def genFacts : Facts :=
  { minOpset := Generated.OpsetFacts.internalMinOpset, optionalMin := Generated.OpsetFacts.identityOptionalMin,
    schemaSince := genSchemaSince }

/-- A node written for since-version `s` of operator `o` is well-formed for the schema in force at
    version `t` of domain `d`. -/
def genAccepts (d : String) (o s t : Nat) : Bool :=
  match genSchemaSince d o t with
  | none => false
  | some t' => t' == s || Generated.OpsetFacts.formCompat.contains (d, o, s, t')

end Opset
