/-!
# Model of a standard operator constructor call (C05)

What spox itself does between "the user calls `op.clip(x, max=m)`" and "the output Vars carry a
type": `BaseVars.__post_init__` (kind checks), `BaseVars._flatten` (field keys, variadics as
`field_i`), `StandardNode.to_singleton_onnx_model` (scope with first-key-wins naming, `Node.to_onnx`
with `""` for omitted optionals and trailing trimming down to `schema.min_input`, value infos for
every key, initializers for inputs with a known array value, placeholder outputs, one opset import),
`infer_output_types_onnx` (untyped-input short-circuit, result mapping by output name, empty
TypeProtos dropped, `unk__*` dims stripped) and `Node.inference` (only fill untyped output Vars).

ONNX's own judgement is a *parameter* (`InferFn`). Core Lean only (linked into the driver).
-/
namespace Sing

/-! ## Types -/

inductive Dim
  | const (n : Int)
  | sym (s : String)
  | unk
  deriving DecidableEq, Repr, Inhabited

inductive Ty
  | tensor (elem : Nat) (shape : Option (List Dim))
  | seq (t : Ty)
  | opt (t : Ty)
  deriving DecidableEq, Repr, Inhabited

/-- `lambda x: x.startswith("unk__")` -/
def isUnkName (s : String) : Bool := "unk__".toList.isPrefixOf s.toList

/-- `_strip_dim_symbol_shape` with the predicate of `infer_output_types_onnx`:
    `None if isinstance(x, str) and x.startswith("unk__") and x not in given else x` - `given` = the
    dimension names spelled in the input types (the caller's own, whatever they look like) -/
def stripDim (given : List String) : Dim → Dim
  | .sym s => if isUnkName s && !given.contains s then .unk else .sym s
  | d => d

/-- `_strip_dim_symbol` -/
def stripUnk (given : List String) : Ty → Ty
  | .tensor e sh => .tensor e (sh.map (List.map (stripDim given)))
  | .seq t => .seq (stripUnk given t)
  | .opt t => .opt (stripUnk given t)

/-- `_dim_symbols`: the dimension parameter names occurring in a type -/
def dimNames : Ty → List String
  | .tensor _ none => []
  | .tensor _ (some ds) => ds.filterMap (fun d => match d with | .sym s => some s | _ => none)
  | .seq t => dimNames t
  | .opt t => dimNames t

/-! ## Signatures and calls -/

inductive Kind
  | single
  | optional
  | variadic
  deriving DecidableEq, Repr, Inhabited

structure Slot where
  name : String
  kind : Kind
  deriving Repr, Inhabited

/-- What the node class knows: field declarations, `op_type`, and the schema's `min_input` /
    `min_output`. -/
structure Sig where
  op : String
  domain : String
  version : Nat
  inputs : List Slot
  outputs : List Slot
  minInput : Nat
  minOutput : Nat
  deriving Repr, Inhabited

/-- A value handed to one field of `Inputs(...)`: a Var (by identity), `None`, or an iterable of Vars. -/
inductive Arg
  | var (v : Nat)
  | none
  | list (vs : List Nat)
  deriving DecidableEq, Repr, Inhabited

/-- What is known about a Var when the constructor is called. `val` stands for an ndarray `_value`
    (a digest of dtype/shape/bytes; the model only moves it around). -/
structure VarInfo where
  ty : Option Ty
  val : Option String
  deriving Repr, Inhabited

structure Call where
  sig : Sig
  /-- one entry per field of `Inputs`, in declaration order -/
  args : List Arg
  /-- `Attributes` fields in declaration order; `none` = the attribute is `None` -/
  attrs : List (String × Option String)
  /-- `out_variadic` (0 when the operator has no variadic output) -/
  outVariadic : Nat
  info : Nat → VarInfo

/-! ## `BaseVars.__post_init__` -/

def kindOk : Kind → Arg → Bool
  | .single, .var _ => true
  | .optional, .var _ => true
  | .optional, .none => true
  | .variadic, .list _ => true
  | _, _ => false

def kindsOk : List Slot → List Arg → Bool
  | [], [] => true
  | s :: ss, a :: as => kindOk s.kind a && kindsOk ss as
  | _, _ => false

/-! ## `BaseVars._flatten` -/

def enumKeys (key : String) : Nat → List Nat → List (String × Option Nat)
  | _, [] => []
  | i, v :: vs => (key ++ "_" ++ toString i, some v) :: enumKeys key (i + 1) vs

/-- `_flatten` goes by the *value*: `None`/Var ⇒ `(key, value)`, otherwise enumerate. -/
def flattenOne (key : String) : Arg → List (String × Option Nat)
  | .var v => [(key, some v)]
  | .none => [(key, none)]
  | .list vs => enumKeys key 0 vs

def flatten : List Slot → List Arg → List (String × Option Nat)
  | s :: ss, a :: as => flattenOne s.name a ++ flatten ss as
  | _, _ => []

/-- keys of the output Vars created by `_init_output_vars`: one Var per non-variadic field
    (optional ones included), `out_variadic` Vars for the variadic field. -/
def outKeysOf (n : Nat) : List Slot → List String
  | [] => []
  | s :: ss =>
    (match s.kind with
      | .variadic => (List.range n).map (fun i => s.name ++ "_" ++ toString i)
      | _ => [s.name]) ++ outKeysOf n ss

/-- A value of the call: an input Var (by identity) or the i-th freshly created output Var. -/
inductive Ref
  | inp (v : Nat)
  | out (i : Nat)
  deriving DecidableEq, Repr, Inhabited

def Call.flat (c : Call) : List (String × Option Nat) := flatten c.sig.inputs c.args

/-- `inputs.get_vars().items()` -/
def Call.inPairs (c : Call) : List (String × Nat) :=
  c.flat.filterMap (fun p => p.2.map (fun v => (p.1, v)))

def Call.outKeys (c : Call) : List String := outKeysOf c.outVariadic c.sig.outputs

def enumFrom {α} : Nat → List α → List (Nat × α)
  | _, [] => []
  | i, x :: xs => (i, x) :: enumFrom (i + 1) xs

/-- `outputs.get_vars().items()` -/
def Call.outPairs (c : Call) : List (String × Nat) :=
  (enumFrom 0 c.outKeys).map (fun p => (p.2, p.1))

/-- everything the singleton scope is asked to name, in the order of the two loops -/
def Call.items (c : Call) : List (String × Ref) :=
  c.inPairs.map (fun p => (p.1, Ref.inp p.2)) ++ c.outPairs.map (fun p => (p.1, Ref.out p.2))

/-! ## `Node.to_onnx` -/

/-- `while len(names) > min and not names[-1]: names.pop()`, on the reversed list -/
def trimRev (minN : Nat) : List String → List String
  | [] => []
  | x :: rest => if x = "" ∧ rest.length + 1 > minN then trimRev minN rest else x :: rest

def trim (minN : Nat) (xs : List String) : List String := (trimRev minN xs.reverse).reverse

structure NodeView where
  op : String
  domain : String
  inputs : List String
  outputs : List String
  attrs : List (String × String)
  deriving DecidableEq, Repr, Inhabited

def optName (nm : Ref → String) : Option Nat → String
  | none => ""
  | some v => nm (Ref.inp v)

/-- `Node.to_onnx` under a scope that names the values by `nm`. -/
def emitNode (nm : Ref → String) (c : Call) : NodeView :=
  { op := c.sig.op
    domain := c.sig.domain
    inputs := trim c.sig.minInput (c.flat.map (fun p => optName nm p.2))
    outputs := trim c.sig.minOutput (c.outPairs.map (fun p => nm (Ref.out p.2)))
    attrs := c.attrs.filterMap (fun p => p.2.map (fun v => (p.1, v))) }

/-! ## `to_singleton_onnx_model` -/

abbrev ScopeL := List (Ref × String)

def lookupR : ScopeL → Ref → Option String
  | [], _ => none
  | (r', k) :: rest, r => if r' = r then some k else lookupR rest r

/-- `for key, var in ...: if var not in scope.var: scope.var[var] = key` -/
def buildScope : List (String × Ref) → ScopeL → ScopeL
  | [], sc => sc
  | (k, r) :: rest, sc =>
    buildScope rest (match lookupR sc r with | some _ => sc | none => sc ++ [(r, k)])

def nameIn (sc : ScopeL) (r : Ref) : String := (lookupR sc r).getD ""

/-- `scope.var[var] = key` raises `ScopeError` when the name is already taken by another object:
    true iff the two loops would hit that. -/
def scopeClash : List (String × Ref) → ScopeL → Bool
  | [], _ => false
  | (k, r) :: rest, sc =>
    match lookupR sc r with
    | some _ => scopeClash rest sc
    | none => sc.any (fun e => e.2 == k) || scopeClash rest (sc ++ [(r, k)])

structure OneNodeModel where
  node : NodeView
  nodeName : String
  /-- graph inputs: (name, type) value infos -/
  graphInputs : List (String × Option Ty)
  /-- initializers: (name, value digest) -/
  inits : List (String × String)
  /-- graph outputs: placeholder value infos with an empty TypeProto -/
  graphOutputs : List String
  opset : String × Nat
  deriving DecidableEq, Repr, Inhabited

def Call.scope (c : Call) : ScopeL := buildScope c.items []

/-- the names the singleton scope ends up giving -/
def Call.singName (c : Call) (r : Ref) : String := nameIn c.scope r

def singleton (c : Call) : OneNodeModel :=
  { node := emitNode c.singName c
    nodeName := "_this_"
    graphInputs := c.inPairs.map (fun p => (p.1, (c.info p.2).ty))
    inits := c.inPairs.filterMap (fun p => (c.info p.2).val.map (fun v => (p.1, v)))
    graphOutputs := c.outPairs.map (fun p => p.1)
    opset := (c.sig.domain, c.sig.version) }

/-! ## `infer_output_types_onnx` and `Node.inference` -/

/-- The ONNX judgement: reject (`none`) or the typed model's `graph.output` (name, type; `none` for an
    empty TypeProto). -/
abbrev InferFn := OneNodeModel → Option (List (String × Option Ty))

/-- `{info.name: ... for info in graph.output if info.type != TypeProto()}` then `.get(key)`:
    a dict comprehension — the last entry of a name wins. -/
def lookupTy (key : String) : List (String × Option Ty) → Option Ty
  | [] => none
  | (k, t) :: rest =>
    match lookupTy key rest with
    | some t' => some t'
    | none => if k = key then t else none

/-- `{name for var in inputs.get_vars().values() for name in _dim_symbols(var.unwrap_type())}` -/
def Call.givenNames (c : Call) : List String :=
  c.inPairs.flatMap (fun p => match (c.info p.2).ty with
    | some t => dimNames t
    | none => [])

def anyUntyped (c : Call) : Bool := c.inPairs.any (fun p => (c.info p.2).ty.isNone)

inductive Err
  | kind       -- TypeError from `BaseVars.__post_init__`
  | inference  -- InferenceError re-raised by `infer_output_types_onnx`
  deriving DecidableEq, Repr, Inhabited

/-- The constructor call: the error raised at the call, or the type of every output Var by field key. -/
def construct (Infer : InferFn) (c : Call) : Except Err (List (String × Option Ty)) :=
  if !kindsOk c.sig.inputs c.args then .error .kind
  else if anyUntyped c then .ok (c.outKeys.map (fun k => (k, none)))
  else match Infer (singleton c) with
    | none => .error .inference
    | some res => .ok (c.outKeys.map (fun k => (k, (lookupTy k res).map (stripUnk c.givenNames))))

/-- An operator whose inference spox *supplements* (Compress, Loop): the override first runs the
    standard routine (`self.infer_output_types_onnx()` / `super().infer_output_types()`), whose
    error propagates, and then its own rules `own` on top of the standard result. -/
def constructSupplemented (Infer : InferFn)
    (own : Call → List (String × Option Ty) → Except Err (List (String × Option Ty))) (c : Call) :
    Except Err (List (String × Option Ty)) :=
  match construct Infer c with
  | .error e => .error e
  | .ok std => own c std

/-! ## Operators outside the standard routine -/

/-- operators (domain, name, since_version) whose class has its own `infer_output_types`: for these
    only "rejects at least what ONNX rejects" is demanded (`constructSupplemented` for the two that
    run the standard routine first; the ml operators replace it - known findings) -/
def supplemented : List (String × String × Nat) := [
  ("", "Compress", 11), ("", "Loop", 16),
  ("ai.onnx.ml", "ArrayFeatureExtractor", 1), ("ai.onnx.ml", "Binarizer", 1),
  ("ai.onnx.ml", "CategoryMapper", 1), ("ai.onnx.ml", "Imputer", 1),
  ("ai.onnx.ml", "LinearRegressor", 1), ("ai.onnx.ml", "Normalizer", 1),
  ("ai.onnx.ml", "OneHotEncoder", 1), ("ai.onnx.ml", "Scaler", 1),
  ("ai.onnx.ml", "TreeEnsembleClassifier", 3), ("ai.onnx.ml", "TreeEnsembleRegressor", 3)]

/-- those of them whose override runs the standard routine first (`constructSupplemented`) -/
def standardFirst : List (String × String × Nat) := [("", "Compress", 11), ("", "Loop", 16)]

/-- operators with their own `propagate_values` (their results carry a value whatever the backend) -/
def ownPropagation : List (String × String × Nat) := [("", "Constant", 13), ("", "Constant", 19), ("", "Constant", 21)]

/-! ## Value propagation (`Node.inference`, second half) -/

structure OutVar where
  key : String
  ty : Option Ty
  val : Option String
  deriving DecidableEq, Repr, Inhabited

def lookupV (k : String) : List (String × String) → Option String
  | [] => none
  | (k', v) :: rest => if k' = k then some v else lookupV k rest

/-- `Node.inference` as a whole: the types come from `construct`; afterwards the backend `prop`
    (none / reference / onnxruntime, together with `PropValue.check`; it may look at the call and at
    the inferred types) offers values by output key, and a value is attached only to an output whose
    type is known. The types are not touched again. -/
def constructVP (Infer : InferFn)
    (prop : Call → List (String × Option Ty) → List (String × String)) (c : Call) :
    Except Err (List OutVar) :=
  match construct Infer c with
  | .error e => .error e
  | .ok tys => .ok (tys.map (fun p =>
      { key := p.1, ty := p.2, val := match p.2 with
                                       | none => none
                                       | some _ => lookupV p.1 (prop c tys) }))

/-! ## Sequences of calls in one process -/

abbrev Result := Except Err (List (String × Option Ty))

/-- The constructor calls of a process, in order. spox keeps no state between constructor calls:
    every call is answered by `construct` alone. (Tied to the code by the call-history
    correspondence: sequences of calls on shared Vars, each compared with the model.) -/
def runHistory (Infer : InferFn) : List Call → List Result
  | [] => []
  | c :: cs => construct Infer c :: runHistory Infer cs

def lookupK {K} [DecidableEq K] (k : K) : List (K × Result) → Option Result
  | [] => none
  | (k', r) :: rest => if k' = k then some r else lookupK k rest

/-- What an implementation that memoises inference under `key` would answer. -/
def runMemo {K} [DecidableEq K] (key : Call → K) (Infer : InferFn) :
    List (K × Result) → List Call → List Result
  | _, [] => []
  | cache, c :: cs =>
    match lookupK (key c) cache with
    | some r => r :: runMemo key Infer cache cs
    | none => construct Infer c :: runMemo key Infer ((key c, construct Infer c) :: cache) cs

/-! ## The same node, built directly ("hand-built"), and the operations inference is invariant under -/

def renameNode (σ : String → String) (n : NodeView) : NodeView :=
  { n with inputs := n.inputs.map σ, outputs := n.outputs.map σ }

def renameModel (σ : String → String) (m : OneNodeModel) : OneNodeModel :=
  { m with
    node := renameNode σ m.node
    graphInputs := m.graphInputs.map (fun p => (σ p.1, p.2))
    inits := m.inits.map (fun p => (σ p.1, p.2))
    graphOutputs := m.graphOutputs.map σ }

/-- drop graph inputs / initializers that the node does not read -/
def prune (m : OneNodeModel) : OneNodeModel :=
  { m with
    graphInputs := m.graphInputs.filter (fun p => m.node.inputs.contains p.1)
    inits := m.inits.filter (fun p => m.node.inputs.contains p.1) }

def firstKey : List (String × Ref) → Ref → Option String
  | [], _ => none
  | (k, r') :: rest, r => if r' = r then some k else firstKey rest r

/-- one entry per distinct input Var: the pair at which the Var occurs first -/
def Call.distinctIn (c : Call) : List (String × Nat) :=
  c.inPairs.filter (fun p => firstKey c.items (Ref.inp p.2) == some p.1)

/-- The node applied to the same input types, attributes and known constants, written down
    directly with value names `nm`: one value info (and initializer, if the value is known) per
    distinct Var, nothing else. -/
def handModel (nm : Ref → String) (c : Call) : OneNodeModel :=
  { node := emitNode nm c
    nodeName := "_this_"
    graphInputs := c.distinctIn.map (fun p => (nm (Ref.inp p.2), (c.info p.2).ty))
    inits := c.distinctIn.filterMap (fun p => (c.info p.2).val.map (fun v => (nm (Ref.inp p.2), v)))
    graphOutputs := c.outPairs.map (fun p => nm (Ref.out p.2))
    opset := (c.sig.domain, c.sig.version) }

/-- field keys are pairwise distinct and non-empty (checked for every generated call by the
    correspondence; a property of the shipped `Inputs`/`Outputs` declarations) -/
def Call.keys (c : Call) : List String := c.items.map (fun p => p.1)

def nodupB : List String → Bool
  | [] => true
  | x :: xs => !xs.contains x && nodupB xs

def Call.wfB (c : Call) : Bool := nodupB c.keys && !c.keys.contains ""

/-! ## The two supplements that run the standard routine first: their own rules

`_Compress.infer_output_types` and `_Loop.infer_output_types` (opset `ai.onnx` v17 text, shared by
the later modules). Both are applied *after* the standard routine accepted the node
(`constructSupplemented`). Tied to the code by correspondence on every generated Compress / Loop call
(tie H): the real output Var types are compared with `compressOwn` / `loopOwn` applied to the observed
standard answer. -/

/-- `x` says at least what `y` says about one dimension (`y` unknown, or the same) -/
def dimLe (x y : Dim) : Bool := y == Dim.unk || x == y

/-- `x` refines `y`: same constructor and element type, and wherever `y` knows the rank / a
    dimension `x` agrees. (The relation the model-free oracle demands between a supplemented
    operator's output types and ONNX's: the supplement may say more, never less, nothing else.) -/
def tyLe : Ty → Ty → Bool
  | .tensor e sh, .tensor e' sh' =>
    e == e' && (match sh', sh with
      | none, _ => true
      | some _, none => false
      | some ds', some ds => ds.length == ds'.length && (List.zip ds ds').all (fun p => dimLe p.1 p.2))
  | .seq t, .seq t' => tyLe t t'
  | .opt t, .opt t' => tyLe t t'
  | _, _ => false

def isConstDim : Dim → Bool
  | .const _ => true
  | _ => false

/-- `shape[axis] = None` for an in-range non-negative index -/
def setUnkAt : List Dim → Nat → List Dim
  | [], _ => []
  | _ :: ds, 0 => Dim.unk :: ds
  | d :: ds, i + 1 => d :: setUnkAt ds i

/-- `cond.shape and len(cond.shape) != 1`: the shape is known, not `()`, and not of rank 1 -/
def condRankBad : Option (List Dim) → Bool
  | some (_ :: _ :: _) => true
  | _ => false

/-- `_Compress.infer_output_types` after the standard routine accepted and both inputs are typed:
    `if inp.shape is None and axis is not None: unknown shape`; condition must be boolean (elem 9)
    and, if its shape is known and not `()`, of rank 1; with an axis the input shape with that axis
    unknown (Python negative indexing), without one a vector. -/
def compressOwn (inp cond : Ty) (axis : Option Int) : Except Err Ty :=
  match inp, cond with
  | .tensor e ish, .tensor ce csh =>
    if ish.isNone && axis.isSome then .ok (.tensor e none)
    else if ce != 9 then .error .inference
    else if condRankBad csh then .error .inference
    else match axis, ish with
      | none, _ => .ok (.tensor e (some [Dim.unk]))
      | some _, none => .ok (.tensor e none)
      | some a, some ds =>
        let n : Int := ds.length
        if -n ≤ a ∧ a < n then
          .ok (.tensor e (some (setUnkAt ds (if a < 0 then a + n else a).toNat)))
        else .error .inference
  | _, _ => .error .inference

/-- the rule before fix `2f0b661` (`if not inp.shape: unknown shape`, which also swallowed the
    no-axis case where ONNX infers a vector) -/
def compressOwnOld (inp cond : Ty) (axis : Option Int) : Except Err Ty :=
  match inp with
  | .tensor e none => .ok (.tensor e none)
  | _ => compressOwn inp cond axis

/-- `refines(res, arg)` of `_Loop.infer_output_types` -/
def loopRefines : Option Ty → Option Ty → Bool
  | some (.tensor re rsh), some (.tensor ae ash) =>
    if re != ae then false
    else match ash, rsh with
      | none, _ => true
      | some _, none => false
      | some as, some rs =>
        rs.length == as.length && (List.zip as rs).all (fun p => p.1 == p.2 || !isConstDim p.1)
  | some r, some a => r == a
  | _, _ => false

/-- `common(res, arg)` of `_Loop.infer_output_types` -/
def loopCommon : Ty → Ty → Ty
  | .tensor _ rsh, .tensor ae ash =>
    match rsh, ash with
    | some rs, some as => .tensor ae (some ((List.zip as rs).map (fun p => if p.1 = p.2 then p.1 else Dim.unk)))
    | _, _ => .tensor ae none
  | _, a => a

/-- `for name, res, arg in zip(carried_names, carried_types, argument_types): output_types[name] = common(res, arg)`
    (by position: the carried outputs are the first output keys) -/
def loopOverlay : List (Option Ty × Option Ty) → List (String × Option Ty) → List (String × Option Ty)
  | (some r, some a) :: ps, (k, _) :: std => (k, some (loopCommon r a)) :: loopOverlay ps std
  | _ :: ps, e :: std => e :: loopOverlay ps std
  | [], std => std
  | _, [] => []

/-- `_Loop.infer_output_types` on top of the standard answer `std` (one entry per output key, in
    order): `results` = types of the body's results after the condition, `args` = declared types of
    the body's arguments after (iteration, condition) -/
def loopOwn (results args : List (Option Ty)) (std : List (String × Option Ty)) :
    List (String × Option Ty) :=
  let ps := List.zip results args
  if ps.all (fun p => loopRefines p.1 p.2) then loopOverlay ps std else std

/-- the rule before fix `bd04552`: the body's result types are reported whatever the arguments were
    declared with -/
def loopOwnOld (results : List (Option Ty)) (std : List (String × Option Ty)) : List (String × Option Ty) :=
  loopOverlay (results.map (fun r => (r, r))) std

/-! ## `Type._to_onnx` / `Type._from_onnx` (with `Shape` / `Natural` in between)

What a TypeProto can say about a tensor: an element type, and *optionally* a shape whose dims each
carry a value, a parameter name, or nothing. Rank 0 (`shape` present, no dims) and unknown rank
(`shape` absent) are different protos, and so are a dimension of size 0 and an unknown dimension -
the places where a truthiness test (`if shape:`, `if dim_value:`) goes wrong. -/

inductive PDim
  | value (n : Int)
  | param (s : String)
  | unset
  deriving DecidableEq, Repr, Inhabited

inductive PTy
  | tensor (elem : Nat) (shape : Option (List PDim))
  | seq (t : PTy)
  | opt (t : PTy)
  deriving DecidableEq, Repr, Inhabited

/-- `make_tensor_type_proto` over `Tensor.shape` (= `Shape.to_simple`: an unknown with an empty label
    is `None`) -/
def toProtoDim : Dim → PDim
  | .const n => .value n
  | .sym s => if s = "" then .unset else .param s
  | .unk => .unset

def toProto : Ty → PTy
  | .tensor e sh => .tensor e (sh.map (List.map toProtoDim))
  | .seq t => .seq (toProto t)
  | .opt t => .opt (toProto t)

/-- `Natural.simple_from_onnx` then `Natural.from_simple(...).to_simple()` -/
def fromProtoDim : PDim → Dim
  | .value n => .const n
  | .param s => if s = "" then .unk else .sym s
  | .unset => .unk

/-- `Type._from_onnx`: `Shape.from_onnx(shape).to_simple() if HasField("shape") else None` -/
def fromProto : PTy → Ty
  | .tensor e sh => .tensor e (sh.map (List.map fromProtoDim))
  | .seq t => .seq (fromProto t)
  | .opt t => .opt (fromProto t)

/-- a symbolic dimension with an empty name is an unknown dimension -/
def normDim : Dim → Dim
  | .sym s => if s = "" then .unk else .sym s
  | d => d

def normTy : Ty → Ty
  | .tensor e sh => .tensor e (sh.map (List.map normDim))
  | .seq t => .seq (normTy t)
  | .opt t => .opt (normTy t)

/-- output by output: the same key, and the supplemented type refines the standard one (an output the
    standard routine left untyped may get any type; a typed one may not lose its type) -/
def optLe : Option Ty → Option Ty → Bool
  | _, none => true
  | none, some _ => false
  | some t, some t' => tyLe t t'

def refinesAll : List (String × Option Ty) → List (String × Option Ty) → Bool
  | [], [] => true
  | (k, t) :: r, (k', t') :: std => k == k' && optLe t t' && refinesAll r std
  | _, _ => false

/-! ## The constructors of the operators with a body: how the body's formal arguments are typed

`loop(...)`, `scan(...)`, `sequence_map(...)`, `if_(...)` (module text of `ai.onnx` v17, repeated in
the later modules) call `subgraph(types, body)` with a list of types computed from the operands
*before* the node exists; `out_variadic` is the number of results the body returned. Tied to the
code by correspondence on every generated Loop / Scan / SequenceMap / If call: the model's list is
compared with the types of `body.requested_arguments` of the real node. -/

/-- Python `xs[:i]` -/
def pyTake {α} (xs : List α) (i : Int) : List α :=
  if i < 0 then xs.take (xs.length - (-i).toNat) else xs.take i.toNat

/-- Python `xs[i:]` -/
def pyDrop {α} (xs : List α) (i : Int) : List α :=
  if i < 0 then xs.drop (xs.length - (-i).toNat) else xs.drop i.toNat

/-- `loop`: `[Tensor(int64, (1,)), Tensor(bool, (1,))] + [var.unwrap_type() for var in v_initial]` -/
def loopFormals (vInitial : List Ty) : List Ty :=
  [.tensor 7 (some [.const 1]), .tensor 9 (some [.const 1])] ++ vInitial

/-- what the ONNX specification gives the body of a Loop: a scalar iteration number and condition -/
def loopFormalsSpec (vInitial : List Ty) : List Ty :=
  [.tensor 7 (some []), .tensor 9 (some [])] ++ vInitial

/-- `Tensor(t.dtype, (lambda x: x[1:] if x is not None else None)(t.shape))`; `unwrap_tensor` raises
    for a non-tensor (`none`) -/
def scanSliceFormal : Ty → Option Ty
  | .tensor e sh => some (.tensor e (sh.map (fun ds => ds.drop 1)))
  | _ => none

def stateFormal : Ty → Option Ty
  | .tensor e sh => some (.tensor e sh)
  | _ => none

def allSome {α} : List (Option α) → Option (List α)
  | [] => some []
  | none :: _ => none
  | some x :: xs => (allSome xs).map (x :: ·)

/-- `scan`: the first `len - num_scan_inputs` operands (Python slice semantics) unchanged, the rest
    with their first axis dropped - whatever `scan_input_axes` says -/
def scanFormals (inputs : List Ty) (numScan : Int) : Option (List Ty) :=
  let k : Int := (inputs.length : Int) - numScan
  allSome ((pyTake inputs k).map stateFormal ++ (pyDrop inputs k).map scanSliceFormal)

/-- the slice ONNX specifies for a scan input scanned along `axis` (normalised, in range): that axis removed -/
def scanSliceSpec (t : Ty) (axis : Nat) : Option Ty :=
  match t with
  | .tensor e sh => some (.tensor e (sh.map (fun ds => ds.eraseIdx axis)))
  | _ => none

/-- `sequence_map`: the element type of the sequence operand (`.elem_type` of a non-sequence raises),
    additional operands: element type if a sequence, else the type itself -/
def seqMapFormals (inputSeq : Ty) (additional : List Ty) : Option (List Ty) :=
  match inputSeq with
  | .seq t => some (t :: additional.map (fun a => match a with | .seq t' => t' | a' => a'))
  | _ => none

end Sing
