import SpoxModel.Model.ValueProp
/-!
# What the build's version adapter sees of propagated values (C15, last clause)

`_adapt.adapt_node` builds a singleton model of an older-opset node (inputs / outputs declared with the
Vars' *graph names* and types), checks it and hands it to `onnx.version_converter`. Its only mention of
propagated values is

    initializers = [from_array(var._value, name)
                    for name, var in node.inputs.get_vars().items()
                    if isinstance(var._value, np.ndarray)]

`var._value` is `None` or a `PropValue` - never a bare ndarray - so the list is always empty: the adapter
model, hence the built model, is a function of names and types only. (Making the test true - say
`var._value.value` - would name initializers by FIELD KEY inside a model whose values carry graph names.)
-/
namespace VP

/-- An input of the node being adapted: its field key, the graph name the build scope gave the Var, its
    type, and what `var._value` holds. -/
structure AdaptIn where
  key : String
  name : String
  type : Ty
  value : Option PropValue

/-- `isinstance(var._value, np.ndarray)`: `None` is no ndarray, a `PropValue` (a dataclass) is none either. -/
def isBareNdarray : Option PropValue → Bool
  | none => false
  | some _ => false

/-- The `initializers` comprehension: (initializer name = field key) for the inputs passing the test. -/
def adaptInitializers (ins : List AdaptIn) : List String :=
  (ins.filter fun i => isBareNdarray i.value).map (·.key)

/-- The singleton adapter model as far as it depends on the node's inputs: declared graph inputs
    (one per distinct name, first declaration wins - a Python dict), and the initializers. -/
structure AdapterModel where
  inputs : List (String × Ty)
  initializers : List String
deriving DecidableEq

def dedup : List (String × Ty) → List (String × Ty)
  | [] => []
  | (n, t) :: rest => (n, t) :: (dedup rest).filter fun p => p.1 != n

def adapterModel (ins : List AdaptIn) : AdapterModel :=
  { inputs := dedup (ins.map fun i => (i.name, i.type)), initializers := adaptInitializers ins }

end VP
