import SpoxModel.Model.Ctx
/-!
# Block *programs* over the three scoped settings (C16, round 10)

`Model/Ctx.lean` runs forests of `with` blocks whose bodies snapshot, run inner blocks and then complete or
raise. Here bodies are arbitrary command lists: `with` blocks, calls of the public **non-scoped setters**
(`set_type_warning_level`, `set_value_prop_backend`) at any position, snapshots at any position, `raise` at any
position, and `try: … except BaseException: pass` (an exception raised inside is caught *inside* a body, so the
enclosing blocks go on running).

* `runCmd` / `runCmds` — the semantics **through the managers' IR** (`exec` of `Model/Ctx.lean`: CPython's
  generator-based context manager protocol on the statement list extracted from `_future.py`).
* `specCmd` / `specCmds` — the abstract specification, which does not mention the IR at all: a `with` block is
  "run the body with the setting overridden, then put the setting back to what it was, whatever the outcome".

`Props/C16.lean` proves that the former refines (equals) the latter for every IR of an accepted shape.
Core Lean only (the driver links this file).
-/
namespace Ctx

inductive Cmd
  | withC (which : Fin 3) (arg : Nat) (body : List Cmd)   -- with <manager which>(arg): body
  | set (which : Fin 3) (v : Nat)                           -- set_<setting>(v): public, not scoped
  | snap                                                    -- observe the three settings
  | raise                                                   -- raise (any exception)
  | tryC (body : List Cmd)                                  -- try: body / except BaseException: pass

def World.put (w : World) (g : Globals) : World := { w with glob := g }

mutual
/-- Semantics through the IR of the managers. -/
def runCmd (M : Managers) : Cmd → World → World × Outcome
  | .withC which arg body, w =>
    let r := exec which arg (runCmds M body) (M.ir which) ⟨w, 0⟩
    (r.1.world, r.2)
  | .set which v, w => (w.put (setG w.glob which v), .ok)
  | .snap, w => (w.snap, .ok)
  | .raise, w => (w, .exn)
  | .tryC body, w => ((runCmds M body w).1, .ok)
def runCmds (M : Managers) : List Cmd → World → World × Outcome
  | [], w => (w, .ok)
  | c :: cs, w =>
    match runCmd M c w with
    | (w1, .ok) => runCmds M cs w1
    | (w1, .exn) => (w1, .exn)
end

mutual
/-- The abstract specification (no IR): dynamic scoping of one setting around the body. -/
def specCmd : Cmd → World → World × Outcome
  | .withC which arg body, w =>
    let r := specCmds body (w.put (setG w.glob which arg))
    (r.1.put (setG r.1.glob which (w.glob which)), r.2)
  | .set which v, w => (w.put (setG w.glob which v), .ok)
  | .snap, w => (w.snap, .ok)
  | .raise, w => (w, .exn)
  | .tryC body, w => ((specCmds body w).1, .ok)
def specCmds : List Cmd → World → World × Outcome
  | [], w => (w, .ok)
  | c :: cs, w =>
    match specCmd c w with
    | (w1, .ok) => specCmds cs w1
    | (w1, .exn) => (w1, .exn)
end

mutual
/-- Does the program call the non-scoped setter of setting `j` anywhere (at any depth)? -/
def cmdSets (j : Fin 3) : Cmd → Bool
  | .withC _ _ body => cmdsSets j body
  | .set which _ => decide (which = j)
  | .snap => false
  | .raise => false
  | .tryC body => cmdsSets j body
def cmdsSets (j : Fin 3) : List Cmd → Bool
  | [] => false
  | c :: cs => cmdSets j c || cmdsSets j cs
end

/-- `inner` wrapped in a stack of enclosing blocks, outermost first. -/
def nest : List (Fin 3 × Nat) → List Cmd → List Cmd
  | [], inner => inner
  | (i, a) :: p, inner => [.withC i a (nest p inner)]

/-- The settings in force under a stack of enclosing blocks (outermost first). -/
def enter (g : Globals) : List (Fin 3 × Nat) → Globals
  | [] => g
  | (i, a) :: p => enter (setG g i a) p

end Ctx
