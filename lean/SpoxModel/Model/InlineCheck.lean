import SpoxModel.Model.Types
/-!
The argument check of `_Inline.infer_output_types` (`_inline.py`), for property C02:

    for i, var in zip(self.graph.input, self.inputs.inputs):
        if var.type is not None and not var.type._subtype(Type._from_onnx(i.type)):
            raise TypeError(...)

`accepts tbl decls args = true` ⇔ the loop does not raise. `decls` are the declared types of the inlined
model's inputs, `args` the static types of the supplied Vars (`none` = no type known). `zip` stops at
the shorter list. `_subtype` is `Types.subtype` (tie H of C13, and of C02 on the shape-boundary grid).
Core Lean only (the driver links this file).
-/
namespace InlineCheck
open Types

def accepts (tbl : DtypeTable) : List Ty → List (Option Ty) → Bool
  | d :: ds, a :: as =>
      (match a with
       | none => true
       | some t => subtype tbl t d) && accepts tbl ds as
  | _, _ => true

end InlineCheck
