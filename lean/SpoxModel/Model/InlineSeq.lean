import SpoxModel.Model.Inline
/-!
# Several Inline nodes in ONE build scope (property C08, "however many times and in whatever composition")

`spox.build` names every value of the program first (`Scope.update`), then calls `to_onnx` of every node in
topological order IN THE SAME `Scope`: the name spaces one `_Inline.to_onnx` leaves (its reserved `<node>__…`
names and the counters) are what the next one starts from.  `toOnnxSeq` is that fold over the (tied) `toOnnx`;
`specSeq` is the abstract meaning of the same program: every site applies the FUNCTION of its model
(`evalModel`) to the values of its argument names and binds its result names - no internal name exists.

Core Lean only (linked into the driver, which runs `toOnnxSeq` against two real `to_onnx` calls in one real
`Scope` on every run).
-/
namespace Inline

/-- one `_Inline` node of a build: its model, its node name, the outer names of its arguments and results -/
structure Site where
  g : Graph
  nodeName : String
  argNames : List String
  resNames : List String

def Site.ctx (s : Site) (var node : Space) : Ctx := ⟨s.nodeName, s.argNames, s.resNames, var, node⟩

/-- the `to_onnx` calls of the Inline nodes of a build, one after the other in the same scope -/
def toOnnxSeq : List Site → Space → Space → Except Err (List Node × Space × Space)
  | [], v, n => .ok ([], v, n)
  | s :: ss, v, n =>
    match toOnnx (s.ctx v n) (normalise s.g) with
    | .error e => .error e
    | .ok em =>
      match toOnnxSeq ss em.var em.node with
      | .error e => .error e
      | .ok (ns, v', n') => .ok (em.nodes ++ ns, v', n')

def allSome {α : Type} : List (Option α) → Option (List α)
  | [] => some []
  | none :: _ => none
  | some a :: r =>
    match allSome r with
    | none => none
    | some l => some (a :: l)

/-- the abstract program: each site reads the values of its argument names (all must be defined), applies the
    function of its model and binds its result names -/
def specSeq {V : Type} (sem : OpSem V) (lit : Lit → V) : List Site → Env V → Option (Env V)
  | [], E => some E
  | s :: ss, E =>
    match allSome (s.argNames.map E.get) with
    | none => none
    | some vals =>
      match evalModel sem lit s.g vals with
      | none => none
      | some outs => specSeq sem lit ss (E.setMany s.resNames outs)

/-- validity of a site relative to the value names `U` of the build: `m` is a valid model (distinct non-empty
    input / output names, no node assigns an input), the call supplies one name per input / output, result names
    are pairwise distinct, differ from the argument names, and all of them are value names of the build -/
structure Site.Valid (s : Site) (U : List String) : Prop where
  hin : s.g.inputs.Nodup
  hin0 : "" ∉ s.g.inputs
  hout : s.g.outputs.Nodup
  hout0 : "" ∉ s.g.outputs
  hA : ∀ x ∈ Node.assignedL s.g.nodes, x ∉ s.g.inputs
  hal : s.argNames.length = s.g.inputs.length
  hrl : s.resNames.length = s.g.outputs.length
  hrn : s.resNames.Nodup
  hau : ∀ a ∈ s.argNames, a ∈ U
  hru : ∀ r ∈ s.resNames, r ∈ U ∧ r ∉ s.argNames

end Inline
