/-!
# `adapt_inline` — which inlined models are handed to the version converter  (C18)

Core Lean only. Model of the *decision* in `src/spox/_adapt.py::adapt_inline`:

* target = the version the built model imports the default domain at;
* source = the highest version the inlined model imports `""` / `"ai.onnx"` at (target if none);
* no emitted node in the default domain → nothing to convert, nodes kept;
* source ≠ target → the whole model goes through `onnx.version_converter.convert_version`, which
  rewrites default-domain nodes and passes every other node through unchanged;
* otherwise nodes kept.

Nothing else is looked at: in particular not whether other domains occur among the nodes or the
imports (user-defined operators, `ai.onnx.ml`, `com.microsoft`).
-/
namespace CustomInline

/-- What `adapt_inline` reads of an inlined model. -/
structure Inlined where
  /-- `model.opset_import` -/
  imports : List (String × Nat)
  /-- `domain` of every emitted (top-level) node -/
  nodeDomains : List String
  deriving Repr

inductive Decision where
  | keep
  | convert (source target : Nat)
  deriving Repr, DecidableEq

def isDefault (d : String) : Bool := d == "" || d == "ai.onnx"

/-- `max({imp.version for imp in opset_import if imp.domain in ("", "ai.onnx")}, default=target)` -/
def sourceVersion (imports : List (String × Nat)) (target : Nat) : Nat :=
  match imports.filter (fun i => isDefault i.1) with
  | [] => target
  | l => l.foldl (fun acc i => max acc i.2) 0

def decide (m : Inlined) (target : Nat) : Decision :=
  if !(m.nodeDomains.any isDefault) then .keep
  else if sourceVersion m.imports target != target then .convert (sourceVersion m.imports target) target
  else .keep

/-- The converter's treatment of one node, as far as the property needs it: default-domain nodes
    are rewritten by `conv`, every other node is passed through verbatim. -/
def convertNodes {ν : Type} (dom : ν → String) (conv : ν → List ν) (nodes : List ν) : List ν :=
  nodes.flatMap fun n => if isDefault (dom n) then conv n else [n]

/-! ## `_initializers_to_constants` — the step after `convert_version`

The converter may turn former attributes (`pads` of Pad-10, `min`/`max` of Clip-6, …) into *graph
initializers* of the converted model. `_Inline.to_onnx` refuses graphs with initializers, so
`adapt_inline` first rewrites them: every initializer whose name is not also a graph input becomes a
leading default-domain `Constant` node (in initializer order), the initializer list is emptied, the
nodes follow unchanged. With no such initializer the graph is left as it is. -/

/-- what the step reads of the converted graph: input names, initializer names, nodes -/
structure ConvGraph (ν : Type) where
  inputs : List String
  initializers : List String
  nodes : List ν

def initializersToConstants {ν : Type} (mkConst : String → ν) (g : ConvGraph ν) : ConvGraph ν :=
  match g.initializers.filter (fun n => !g.inputs.contains n) with
  | [] => g
  | cs => { inputs := g.inputs, initializers := [], nodes := cs.map mkConst ++ g.nodes }

/-- `adapt_inline` after its decision: kept nodes, or converted → initializers to constants -/
def adaptNodes {ν : Type} (dom : ν → String) (conv : ν → List ν) (mkConst : String → ν)
    (d : Decision) (inputs convInitializers : List String) (nodes : List ν) : List ν :=
  match d with
  | .keep => nodes
  | .convert _ _ =>
    (initializersToConstants mkConst
      { inputs := inputs, initializers := convInitializers, nodes := convertNodes dom conv nodes }).nodes

/-- `adapt_inline` as a whole on the model side: decision, conversion, initializer step -/
def adaptInline {ν : Type} (dom : ν → String) (conv : ν → List ν) (mkConst : String → ν)
    (m : Inlined) (target : Nat) (inputs convInitializers : List String) (nodes : List ν) : List ν :=
  adaptNodes dom conv mkConst (decide m target) inputs convInitializers nodes

/-! ## what of `_adapt.py` this model covers (compared with `Generated/AdaptAttrInventory.lean`, tie G) -/

/-- The exits of `adapt_inline` — (kind, returned expression, guarding tests) — one per branch of
    `decide` (normalised by the translator: single-assignment locals inlined, parameters `p0…` = node, protos, target_opsets, var_names, node_name, bound names `b0…`): no default-domain node → `keep`; versions differ → `convert`; fall through → `keep`.
    A further exit (an early `return protos` under some new condition) is a code path `decide`
    does not have. -/
def coveredExits : List (String × String × List String) := [("return", "p1", ["not {b0.domain for b0 in p1} & {'', 'ai.onnx'}"]), ("return", "p0.to_onnx(Scope.of((p0, p4), *p3.items()))", ["max({b0.version for b0 in p0.model.opset_import if b0.domain in ('', 'ai.onnx')}, default=p2['']) != p2['']"]), ("return", "p1", [])]

/-- Every function of `_adapt.py` with the (kind, guards) of each of its exits. `adapt_best_effort`
    dispatches `_Inline` nodes to `adapt_inline` first and leaves nodes of other domains alone
    (`proto.domain not in ('', 'ai.onnx')` → `None`, i.e. emitted verbatim: C18's custom nodes);
    `_initializers_to_constants` = `initializersToConstants` (early return when nothing is to be rewritten). -/
def coveredFunctions : List (String × List (String × List String)) := [
  ("adapt_node", [("return", ["p2 == p3"]), ("return", ["<except ValueError>"]), ("return", [])]),
  ("_initializers_to_constants", [("return", ["not [onnx.helper.make_node('Constant', [], [b0.name], value=b0) for b0 in p0.initializer if b0.name not in {b1.name for b1 in p0.input}]"])]),
  ("adapt_inline", [("return", ["not {b0.domain for b0 in p1} & {'', 'ai.onnx'}"]), ("return", ["max({b0.version for b0 in p0.model.opset_import if b0.domain in ('', 'ai.onnx')}, default=p2['']) != p2['']"]), ("return", [])]),
  ("adapt_best_effort", [("return", ["isinstance(p0, _Inline)"]), ("return", ["isinstance(p0, _InternalNode) or len(p1) != 1"]), ("return", ["any((isinstance(b0, AttrGraph) for b0 in p0.attrs.get_fields().values()))"]), ("return", ["not b0"]), ("return", ["b0.domain not in ('', 'ai.onnx')"]), ("return", [])])
]

/-- the names `adapt_inline` calls: the converter, the new initializer step, re-emission under the same scope -/
def coveredInlineCalls : List String :=
  ["Scope.of", "_initializers_to_constants", "max", "node.to_onnx", "onnx.version_converter.convert_version",
   "var_names.items"]

end CustomInline
