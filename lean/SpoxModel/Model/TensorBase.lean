/-!
# Element types and TensorProto storage fields (shared by the generated table and `Model/Tensor.lean`)

Core Lean only. The 16 numpy element types that spox can embed in a model (the ONNX-representable
ones: `np_dtype_to_tensor_dtype` knows them and ONNX type inference accepts them in a `Constant`).
-/
namespace Tensor

inductive DType
  | bool | int8 | int16 | int32 | int64 | uint8 | uint16 | uint32 | uint64
  | float16 | bfloat16 | float32 | float64 | complex64 | complex128 | str
  deriving DecidableEq, Repr, Inhabited

def DType.all : List DType :=
  [.bool, .int8, .int16, .int32, .int64, .uint8, .uint16, .uint32, .uint64,
   .float16, .bfloat16, .float32, .float64, .complex64, .complex128, .str]

def DType.name : DType → String
  | .bool => "bool" | .int8 => "int8" | .int16 => "int16" | .int32 => "int32" | .int64 => "int64"
  | .uint8 => "uint8" | .uint16 => "uint16" | .uint32 => "uint32" | .uint64 => "uint64"
  | .float16 => "float16" | .bfloat16 => "bfloat16" | .float32 => "float32" | .float64 => "float64"
  | .complex64 => "complex64" | .complex128 => "complex128" | .str => "str"

def DType.ofName? (s : String) : Option DType := DType.all.find? (fun d => d.name == s)

/-- The typed repeated field of `onnx.TensorProto` in which a non-raw tensor keeps its elements. -/
inductive Field
  | int32Data | int64Data | uint64Data | floatData | doubleData | stringData | none
  deriving DecidableEq, Repr, Inhabited

def Field.ofName : String → Field
  | "int32_data" => .int32Data | "int64_data" => .int64Data | "uint64_data" => .uint64Data
  | "float_data" => .floatData | "double_data" => .doubleData | "string_data" => .stringData
  | _ => .none

end Tensor
