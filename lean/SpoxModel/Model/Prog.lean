/-!
# The shared program model (DESIGN.md §2) — C01 and the build properties

* **Programs.**  A spox program is the implicit dataflow graph of `Var`/`Node` objects.  Every node is
  created after its inputs and after the `Graph` objects in its attributes, so *creation order is a
  topological numbering*: a program is a `List PNode`, **newest first**, and the id of a node is the
  number of older nodes.  A node has a kind (argument / initializer / operator application with an
  opaque label standing for "operator + attributes"), positional inputs (`none` = omitted optional
  input), any number of outputs (addressed by `VarRef.idx`) and subgraph bodies (`PGraph`: formal
  argument ids + result references; bodies may refer to *any* older node — closures).
* **Direct denotation** (`table` / `denote`): "evaluating the program's dataflow directly with each
  operator's semantics".  Operator meaning is an arbitrary parameter `Sem Val`; a body is handed to
  the operator as a function from actual arguments to results (so If / Loop / Scan are just
  particular `Sem.op`s).  Structural recursion on the list; no fuel.
* **Emission** (`ENode` / `EGraph`): what a build emits — nested graphs listing node ids in emission
  order — and its ONNX-style evaluation `evalG` (a node sees the values defined earlier in its own
  graph and everything visible where the owning node sits; formal arguments are bound on entry;
  a missing value makes evaluation fail).
* **Validity** (`validG`): the decidable def-before-use / scoping predicate on an emission.

Core Lean only (the driver links this file).  Ids are plain `Nat`.
-/
namespace Prog

/-- An output of a node: node id and output position. -/
structure VarRef where
  node : Nat
  idx : Nat
deriving DecidableEq, Repr

/-- A spox `Graph` used as a body (or the main graph): formal argument node ids, result references. -/
structure PGraph where
  args : List Nat
  results : List VarRef
deriving DecidableEq, Repr

/-- `arg`: an `Argument` node.  `init l`: an initializer (no NodeProto; value token `l`).
    `op l`: an operator application; `l` stands for operator type + non-graph attributes. -/
inductive Kind
  | arg
  | init (label : Nat)
  | op (label : Nat)
deriving DecidableEq, Repr

/-- `none` for arguments, the semantic label otherwise (an initializer is a nullary operator). -/
def Kind.label? : Kind → Option Nat
  | .arg => none
  | .init l => some l
  | .op l => some l

structure PNode where
  kind : Kind
  inputs : List (Option VarRef)
  subs : List PGraph
deriving Repr

/-- Operator semantics: label, positional inputs (`none` = omitted), bodies as functions. -/
structure Sem (Val : Type) where
  op : Nat → List (Option Val) → List (List Val → List Val) → List Val

variable {Val : Type} [Inhabited Val]

def valAt : List (List Val) → Nat → List Val
  | [], _ => []
  | v :: tbl, k => if k = tbl.length then v else valAt tbl k

def nodeAt : List PNode → Nat → Option PNode
  | [], _ => none
  | n :: older, k => if k = older.length then some n else nodeAt older k

def getVar (tbl : List (List Val)) (r : VarRef) : Val := (valAt tbl r.node).getD r.idx default

def getOpt (tbl : List (List Val)) : Option VarRef → Option Val
  | none => none
  | some r => some (getVar tbl r)

/-- Rebind the formal arguments `args` to the actual values `vals` (first occurrence wins). -/
def updArgs (bind : Nat → Val) : List Nat → List Val → Nat → Val
  | [], _ => bind
  | a :: as, vs => fun i => if i = a then vs.headD default else updArgs bind as vs.tail i

/-- One node's outputs given the table of all older nodes (as a function of the binding). -/
def nodeVal (S : Sem Val) (tblOf : (Nat → Val) → List (List Val)) (bind : Nat → Val) (k : Nat)
    (n : PNode) : List Val :=
  match n.kind.label? with
  | none => [bind k]
  | some l => S.op l (n.inputs.map (getOpt (tblOf bind)))
      (n.subs.map fun g => fun vals => g.results.map (getVar (tblOf (updArgs bind g.args vals))))

/-- All node outputs, newest first; node id = number of older nodes. -/
def table (S : Sem Val) : List PNode → (Nat → Val) → List (List Val)
  | [], _ => []
  | n :: older, bind =>
    let t := table S older bind          -- shared: the compiled code evaluates the older nodes once
    (match n.kind.label? with
      | none => [bind older.length]
      | some l => S.op l (n.inputs.map (getOpt t))
          (n.subs.map fun g => fun vals =>
            g.results.map (getVar (table S older (updArgs bind g.args vals)))))
    :: t

/-- The value of an output under an argument binding: the program's dataflow, evaluated directly. -/
def denote (S : Sem Val) (prog : List PNode) (bind : Nat → Val) (r : VarRef) : Val :=
  getVar (table S prog bind) r

/-- Calling a graph of the program directly: bind the formals, read the results. -/
def denoteG (S : Sem Val) (prog : List PNode) (bind : Nat → Val) (g : PGraph) (vals : List Val) :
    List Val :=
  g.results.map (denote S prog (updArgs bind g.args vals))

/-- Well-formed: every reference (input, body result) goes to an older node. -/
def WF (prog : List PNode) : Prop :=
  ∀ k n, nodeAt prog k = some n →
    (∀ r, some r ∈ n.inputs → r.node < k) ∧ (∀ g ∈ n.subs, ∀ r ∈ g.results, r.node < k)

def refsBelow (n : PNode) (k : Nat) : Bool :=
  n.inputs.all (fun o => match o with | none => true | some r => decide (r.node < k))
  && n.subs.all (fun g => g.results.all (fun r => decide (r.node < k)))

/-- Executable form of `WF` (run by the driver on every generated program). -/
def wfCheck : List PNode → Bool
  | [] => true
  | n :: older => refsBelow n older.length && wfCheck older

/-! ## Emission and its evaluation -/

mutual
inductive ENode where
  | mk (id : Nat) (subs : List EGraph)
inductive EGraph where
  | mk (args : List Nat) (body : List ENode) (results : List VarRef)
end

abbrev Env (Val : Type) := Nat → Option (List Val)

def Env.set (e : Env Val) (k : Nat) (v : List Val) : Env Val :=
  fun i => if i = k then some v else e i

def Env.getVar (e : Env Val) (r : VarRef) : Option Val :=
  match e r.node with
  | none => none
  | some l => some (l.getD r.idx default)

/-- Reading an input slot: an omitted input reads as `none`, a present one must be defined. -/
def Env.getOpt (e : Env Val) : Option VarRef → Option (Option Val)
  | none => some none
  | some r => match e.getVar r with
    | none => none
    | some v => some (some v)

def bindArgs (env : Env Val) : List Nat → List Val → Env Val
  | [], _ => env
  | a :: as, vs => fun i => if i = a then some [vs.headD default] else bindArgs env as vs.tail i

mutual
/-- Run an emitted graph in environment `env` on actual arguments `vals`. -/
def evalG (S : Sem Val) (prog : List PNode) : EGraph → Env Val → List Val → Option (List Val)
  | .mk args body results, env, vals =>
    match evalBody S prog body (bindArgs env args vals) with
    | none => none
    | some env1 => results.mapM env1.getVar
def evalBody (S : Sem Val) (prog : List PNode) : List ENode → Env Val → Option (Env Val)
  | [], env => some env
  | (.mk id subs) :: rest, env =>
    match nodeAt prog id with
    | none => none
    | some pn =>
      match pn.kind.label? with
      | none => none
      | some l =>
        match pn.inputs.mapM env.getOpt with
        | none => none
        | some ins => evalBody S prog rest (env.set id (S.op l ins (evalSubs S prog subs env)))
def evalSubs (S : Sem Val) (prog : List PNode) : List EGraph → Env Val → List (List Val → List Val)
  | [], _ => []
  | g :: gs, env => (fun vals => (evalG S prog g env vals).getD []) :: evalSubs S prog gs env
end

def isArg (prog : List PNode) (a : Nat) : Bool :=
  match nodeAt prog a with
  | some pn => pn.kind == Kind.arg
  | none => false

def inputsVisible (ins : List (Option VarRef)) (vis : List Nat) : Bool :=
  ins.all (fun o => match o with | none => true | some r => vis.contains r.node)

mutual
/-- `validG prog e pg vis`: emission `e` is a valid rendering of program graph `pg` where the ids in
    `vis` are visible from outside: same formals and results, formals fresh and really arguments,
    every node's present inputs visible when it runs, every body valid where its owner sits. -/
def validG (prog : List PNode) : EGraph → PGraph → List Nat → Bool
  | .mk args body results, pg, vis =>
    args == pg.args && results == pg.results
    && args.all (fun a => !vis.contains a && isArg prog a)
    && match validBody prog body (args ++ vis) with
       | none => false
       | some vis' => results.all (fun r => vis'.contains r.node)
def validBody (prog : List PNode) : List ENode → List Nat → Option (List Nat)
  | [], vis => some vis
  | (.mk id subs) :: rest, vis =>
    match nodeAt prog id with
    | none => none
    | some pn =>
      match pn.kind.label? with
      | none => none
      | some _ =>
        if inputsVisible pn.inputs vis && validSubs prog subs pn.subs vis
        then validBody prog rest (id :: vis) else none
def validSubs (prog : List PNode) : List EGraph → List PGraph → List Nat → Bool
  | [], [], _ => true
  | g :: gs, pg :: pgs, vis => validG prog g pg vis && validSubs prog gs pgs vis
  | _, _, _ => false
end

/-- A program with its requested main graph. -/
structure Program where
  nodes : List PNode
  main : PGraph

end Prog
