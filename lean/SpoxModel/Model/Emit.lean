/-!
# Model of `Node.to_onnx` slotting (`src/spox/_node.py`, `_fields.py`, `_standard.py`)

Shared by C11 (standard operators: trimming down to `schema.min_input`) and C18 (plain `Node`
subclasses: `min_input = len(inputs)`, nothing trimmed). Core Lean only.

Code facts reproduced (DESIGN.md Appendix A, "Node emission"):
* `BaseVars.__iter__`: fields in declaration order, a variadic field flattened in place, `None` kept;
* names: `scope.var[v]` for a present Var, `""` for `None`   (here: `Option α`, `none` ↦ `""`);
* `while len(names) > min and not names[-1]: names.pop()` for inputs and for outputs;
* attributes: `attrs.get_fields()` in field order, `None` skipped, each emitted under the *name the
  `Attr` object carries* (`Attr._name`, given at construction: `AttrInt64(v, name="…")`).
-/
namespace Emit

/-- A value passed for one field of an `Inputs`/`Outputs` dataclass. -/
inductive Arg (α : Type) where
  | single (v : α)
  | opt (v : Option α)
  | variadic (vs : List α)
  deriving Repr, DecidableEq

/-- rename the argument carried by a slot (presence is untouched) -/
def Arg.map {α β : Type} (f : α → β) : Arg α → Arg β
  | .single v => .single (f v)
  | .opt v => .opt (v.map f)
  | .variadic vs => .variadic (vs.map f)

/-- `BaseVars.__iter__`. -/
def flatten {α : Type} : List (Arg α) → List (Option α)
  | [] => []
  | .single v :: rest => some v :: flatten rest
  | .opt v :: rest => v :: flatten rest
  | .variadic vs :: rest => vs.map some ++ flatten rest

/-- `len(self.inputs)` (`BaseVars.__len__` counts the flattened entries). -/
def len {α : Type} (args : List (Arg α)) : Nat := (flatten args).length

/-- The popping loop, on the reversed list. -/
def trimRev {α : Type} (minN : Nat) : List (Option α) → List (Option α)
  | none :: rest => if rest.length + 1 > minN then trimRev minN rest else none :: rest
  | xs => xs

def trim {α : Type} (minN : Nat) (xs : List (Option α)) : List (Option α) :=
  (trimRev minN xs.reverse).reverse

/-- Emitted positional list for a `StandardNode` (`minN = schema.min_input` / `min_output`). -/
def emitSlots {α : Type} (minN : Nat) (args : List (Arg α)) : List (Option α) :=
  trim minN (flatten args)

/-- Emitted positional list for a plain `Node`: `min_input = len(self.inputs)`. -/
def emitSlotsCustom {α : Type} (args : List (Arg α)) : List (Option α) :=
  trim (len args) (flatten args)

/-- Attribute emission: fields in order, `None` skipped; `(name carried by the Attr, value)`. -/
def emitAttrs {β : Type} : List (Option (String × β)) → List (String × β)
  | [] => []
  | none :: rest => emitAttrs rest
  | some a :: rest => a :: emitAttrs rest

/-- What a node instance holds when `to_onnx` is called. -/
structure NodeIn (α β : Type) where
  opType : String
  domain : String
  version : Nat
  /-- `none` = plain `Node` (keep everything); `some (i, o)` = `schema.min_input/min_output`. -/
  mins : Option (Nat × Nat)
  inputs : List (Arg α)
  outputs : List (Arg α)
  attrs : List (Option (String × β))

/-- The NodeProto fields the properties speak about. -/
structure NodeOut (α β : Type) where
  opType : String
  domain : String
  inputs : List (Option α)
  outputs : List (Option α)
  attrs : List (String × β)
  deriving Repr, DecidableEq

def emitNode {α β : Type} (n : NodeIn α β) : NodeOut α β :=
  { opType := n.opType, domain := n.domain,
    inputs := match n.mins with
      | some (i, _) => emitSlots i n.inputs
      | none => emitSlotsCustom n.inputs,
    outputs := match n.mins with
      | some (_, o) => emitSlots o n.outputs
      | none => emitSlotsCustom n.outputs,
    attrs := emitAttrs n.attrs }

/-- `Node.opset_req`: one requirement `(domain, version)`. -/
def opsetReq {α β : Type} (n : NodeIn α β) : String × Nat := (n.domain, n.version)

/-! ## the source this model was written against (tie G, compared with `Generated/AdaptAttrInventory.lean`)

`flatten` = `BaseVars._flatten/__iter__`; `len` = `BaseVars.__len__` (one per *flattened* entry, not per
declared field); `emitSlotsCustom` uses `Node.min_input/min_output = len(self.inputs/outputs)`, `emitSlots`
`StandardNode.min_input/min_output = schema.min_*`; `trimRev` = the two popping loops of `Node.to_onnx`.
(`self` kept, other names alpha-renamed by the translator.) -/
def coveredSlotting : List (String × String × List String) := [
  ("_fields.py", "BaseVars._flatten", ["for v0, v1 in self.__dict__.items():\n    if v1 is None or isinstance(v1, Var):\n        yield (v0, v1)\n    else:\n        yield from ((f'{v0}_{v2}', v3) for v2, v3 in enumerate(v1))"]),
  ("_fields.py", "BaseVars.__iter__", ["yield from (v1 for v0, v1 in self._flatten())"]),
  ("_fields.py", "BaseVars.__len__", ["return sum((1 for v0 in self))"]),
  ("_node.py", "Node.min_input", ["return len(self.inputs)"]),
  ("_node.py", "Node.min_output", ["return len(self.outputs)"]),
  ("_standard.py", "StandardNode.min_input", ["return self.schema.min_input"]),
  ("_standard.py", "StandardNode.min_output", ["return self.schema.min_output"]),
  ("_node.py", "Node.to_onnx:<while loops>", ["while len(v3) > self.min_input and (not v3[-1]):\n    v3.pop()", "while len(v4) > self.min_output and (not v4[-1]):\n    v4.pop()"])
]

end Emit
