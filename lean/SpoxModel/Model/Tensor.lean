import SpoxModel.Generated.TensorEnum
/-!
# Arrays, the typed-field `TensorProto`, `from_array` and `to_array`  (C10)

Core Lean only (linked into the driver). An array is an element type, a shape and a flat C-order
payload of *bit patterns* (one natural number per component: complex elements have two), or of
code-point sequences for strings. `fromArray` is the model of `spox._utils.from_array`
(= `onnx.helper.make_tensor(..., raw=False)` on the flattened array, UTF-8 for strings), `toArray`
the model of `onnx.numpy_helper.to_array` for typed-field tensors.

The element-type → ONNX enum table (`enumOf`) and the enum → storage field table (`fieldOf`) are
*generated* from the code on every run (`Generated/TensorEnum.lean`).

`q` says whether the platform's float32→double→float32 conversion (the path protobuf's `float`
fields take in Python) sets the quiet bit of a signalling NaN; it is measured on every run.
-/
namespace Tensor
open Generated.TensorEnum

/-- `onnx.TensorProto.DataType` (ONNX IR specification) restricted to the 16 element types. -/
def onnxDType : Nat → Option DType
  | 1 => some .float32 | 2 => some .uint8 | 3 => some .int8 | 4 => some .uint16
  | 5 => some .int16 | 6 => some .int32 | 7 => some .int64 | 8 => some .str
  | 9 => some .bool | 10 => some .float16 | 11 => some .float64 | 12 => some .uint32
  | 13 => some .uint64 | 14 => some .complex64 | 15 => some .complex128 | 16 => some .bfloat16
  | _ => none

/-- Width of one payload word (one component) in bits. `bool` words are 0/1. -/
def DType.bits : DType → Nat
  | .bool => 1
  | .int8 | .uint8 => 8
  | .int16 | .uint16 | .float16 | .bfloat16 => 16
  | .int32 | .uint32 | .float32 | .complex64 => 32
  | .int64 | .uint64 | .float64 | .complex128 => 64
  | .str => 0

/-- Payload words per element. -/
def DType.comps : DType → Nat
  | .complex64 | .complex128 => 2
  | _ => 1

def DType.signed : DType → Bool
  | .int8 | .int16 | .int32 | .int64 => true
  | _ => false

structure Arr where
  dtype : DType
  shape : List Nat
  /-- bit patterns, C order, `comps` words per element (empty for strings) -/
  words : List Nat
  /-- code points of each element (only for `str`) -/
  strs : List (List Char)
  deriving DecidableEq, Repr

def numel (shape : List Nat) : Nat := shape.foldl (· * ·) 1

/-- What every numpy array of one of the 16 element types satisfies. -/
structure Arr.WF (a : Arr) : Prop where
  range : ∀ w ∈ a.words, w < 2 ^ a.dtype.bits
  words_len : a.dtype ≠ .str → a.words.length = numel a.shape * a.dtype.comps
  strs_len : a.dtype = .str → a.strs.length = numel a.shape
  no_strs : a.dtype ≠ .str → a.strs = []
  no_words : a.dtype = .str → a.words = []

/-- `onnx.TensorProto` with the typed repeated fields (no `raw_data`: spox never uses it). -/
structure TProto where
  dataType : Nat := 0
  dims : List Nat := []
  name : String := ""
  int32Data : List Int := []
  int64Data : List Int := []
  uint64Data : List Nat := []
  /-- IEEE-754 binary32 bit patterns -/
  floatData : List Nat := []
  /-- IEEE-754 binary64 bit patterns -/
  doubleData : List Nat := []
  stringData : List ByteArray := []
  /-- `raw_data`, as bytes; ONNX: fixed-width little-endian, C order. spox never writes it
      (`raw=False`), `to_array` reads it when present. -/
  rawData : Option (List Nat) := none
  deriving DecidableEq

/-- The signed integer whose `bits`-wide two's-complement pattern is `w`. -/
def toSigned (bits w : Nat) : Int :=
  if w < 2 ^ (bits - 1) then (w : Int) else (w : Int) - ((2 ^ bits : Nat) : Int)

/-- C conversion of an integer to a `bits`-wide pattern (numpy `astype` / `view` on integers). -/
def ofInt (bits : Nat) (v : Int) : Nat := (v % ((2 ^ bits : Nat) : Int)).toNat

def isNaN32 (w : Nat) : Bool := (w / 2 ^ 23) % 256 == 255 && w % 2 ^ 23 != 0
def quietBit32 (w : Nat) : Bool := (w / 2 ^ 22) % 2 == 1
/-- float32 → double → float32 as protobuf's Python `float` fields do it. -/
def quiet32 (q : Bool) (w : Nat) : Nat :=
  if q && isNaN32 w && !quietBit32 w then w + 2 ^ 22 else w

/-- The value `make_tensor` appends to `int32_data`/`int64_data` for the pattern `w`:
    numpy hands protobuf the *value* (signed for the signed types; `view(uint16)` for the half
    floats; `astype(uint8)` for bool). -/
def encInt (d : DType) (w : Nat) : Int :=
  if d.signed then toSigned d.bits w else (w : Int)

/-- `to_array` on an `int32_data` entry. -/
def decInt32 (d : DType) (v : Int) : Nat :=
  match d with
  | .float16 | .bfloat16 | .int16 | .uint16 => ofInt 32 v % 2 ^ 16   -- int32 → view uint32 → astype uint16
  | .bool => ofInt 32 v % 2 ^ 8                                      -- … → astype uint8 → view bool
  | d => ofInt d.bits v                                              -- asarray(int32).astype(dtype)

def encodeStr (cs : List Char) : ByteArray := (String.ofList cs).toUTF8
def decodeStr (b : ByteArray) : Option (List Char) := (String.fromUTF8? b).map String.toList

/-- `spox._utils.from_array(arr, name)`. `none` = the generated tables send the element type to an
    enum of a different element type (then `make_tensor` would *convert* the values with numpy,
    which is outside this model) or to no storage field. -/
def fromArray (q : Bool) (a : Arr) (name : String := "") : Option TProto :=
  let e := enumOf a.dtype
  if onnxDType e ≠ some a.dtype then none else
  let base : TProto := { dataType := e, dims := a.shape, name := name }
  match fieldOf a.dtype with
  | .int32Data => some { base with int32Data := a.words.map (encInt a.dtype) }
  | .int64Data => some { base with int64Data := a.words.map (encInt a.dtype) }
  | .uint64Data => some { base with uint64Data := a.words }
  | .floatData => some { base with floatData := a.words.map (quiet32 q) }
  | .doubleData => some { base with doubleData := a.words }
  | .stringData => some { base with stringData := a.strs.map encodeStr }
  | .none => none

/-- Bytes per payload word. -/
def DType.bytes : DType → Nat
  | .bool => 1
  | d => d.bits / 8

/-- little-endian bytes of a word / the word of little-endian bytes -/
def toLE : Nat → Nat → List Nat
  | 0, _ => []
  | n + 1, w => w % 256 :: toLE n (w / 256)
def fromLE : List Nat → Nat
  | [] => 0
  | b :: bs => b + 256 * fromLE bs

def encodeRaw (nb : Nat) (ws : List Nat) : List Nat := ws.flatMap (toLE nb)
/-- `np.frombuffer(raw, dtype)`: `k` words of `nb` bytes each. -/
def decodeRaw (nb : Nat) : Nat → List Nat → List Nat
  | 0, _ => []
  | k + 1, bs => fromLE (bs.take nb) :: decodeRaw nb k (bs.drop nb)

/-- `onnx.numpy_helper.to_array(t)`: `raw_data` if present (little-endian, exact — no float
    conversion happens), else the typed field. `none` = it raises. -/
def toArray (q : Bool) (t : TProto) : Option Arr :=
  match onnxDType t.dataType with
  | none => none
  | some d =>
    match t.rawData with
    | some raw =>
      if d = .str ∨ d.bytes = 0 then none
      else some ⟨d, t.dims, decodeRaw d.bytes (raw.length / d.bytes) raw, []⟩
    | none =>
    match fieldOf d with
    | .int32Data => some ⟨d, t.dims, t.int32Data.map (decInt32 d), []⟩
    | .int64Data => some ⟨d, t.dims, t.int64Data.map (ofInt d.bits), []⟩
    | .uint64Data => some ⟨d, t.dims, t.uint64Data.map (· % 2 ^ d.bits), []⟩
    | .floatData => some ⟨d, t.dims, t.floatData.map (quiet32 q), []⟩
    | .doubleData => some ⟨d, t.dims, t.doubleData, []⟩
    | .stringData => (t.stringData.mapM decodeStr).map fun ss => ⟨d, t.dims, [], ss⟩
    | .none => none

/-- The same array in raw storage, as the ONNX specification defines it (an implementation that
    chose `raw_data` would have to produce exactly this). -/
def rawProto (a : Arr) (name : String := "") : TProto :=
  { dataType := enumOf a.dtype, dims := a.shape, name := name,
    rawData := some (encodeRaw a.dtype.bytes a.words) }

/-- What comes back: the array itself, except that float32 components that are signalling NaNs
    have their quiet bit set when the platform does that (`q`). -/
def canon (q : Bool) (a : Arr) : Arr :=
  match a.dtype with
  | .float32 | .complex64 => { a with words := a.words.map (quiet32 q) }
  | _ => a

/-- The element type and shape ONNX type inference reads off an embedded tensor
    (`Constant`: from the `value` attribute; initializers: `Tensor(arr.dtype, arr.shape)`). -/
def typeOfProto (t : TProto) : Option (DType × List Nat) :=
  (onnxDType t.dataType).map fun d => (d, t.dims)

end Tensor
