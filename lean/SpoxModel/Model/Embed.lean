import SpoxModel.Model.Attr
/-!
# The embedding path: from what the user hands over to what is in the model  (C10)

Core Lean only.
* `numpyArray` — `np.array(value)` on the universe of values a user hands to `const` /
  `spox._future.initializer`: bare Python scalars, numpy scalars, arrays, flat and nested lists of
  scalars. Gives the element type numpy infers (bool → bool; int → int64, or uint64 from 2^63, or
  float64 when ints below and from 2^63 meet, or `object` (→ TypeError) outside [−2^63, 2^64); float → float64;
  str → str with trailing NULs dropped), the shape, and the payload. `none` = outside the model
  (strings mixed with numbers: numpy stringifies the numbers).
* `const`, `futureInitializer`, `graphInitializer`, `argDefault` — the four routes; all end in
  `AttrTensor` (`Attr.construct .tensor`).
* `constant` — `constant(value_*=…)`: which attribute class each keyword uses and the value
  `_Constant.propagate_values` derives from it.
-/
namespace Embed
open Tensor Attr FloatBits

inductive Scalar
  | bool (b : Bool) | int (n : Int) | float (bits : Nat) | str (cs : List Char)
  deriving DecidableEq

inductive Value
  | scalar (s : Scalar)
  /-- `np.int8(3)`, `np.float32(1.5)`, `np.str_("x")` … : a 0-d value with its own element type -/
  | npScalar (d : DType) (ws : List Nat) (cs : List Char)
  | array (a : Arr)
  | list (xs : List Scalar)
  | nested (rows : List (List Scalar))
  deriving DecidableEq

/-- numpy's fixed-width strings cannot end in NUL. -/
def stripNul (cs : List Char) : List Char := (cs.reverse.dropWhile (· == '\x00')).reverse

inductive Kind | bool | int | float | str deriving DecidableEq
def Scalar.kind : Scalar → Kind
  | .bool _ => .bool | .int _ => .int | .float _ => .float | .str _ => .str

def Scalar.asInt : Scalar → Int
  | .bool b => if b then 1 else 0
  | .int n => n
  | _ => 0

/-- The scalar as a binary64 pattern (`none` = no such conversion in the model). -/
def Scalar.asDouble : Scalar → Option Nat
  | .bool b => some (if b then 0x3FF0000000000000 else 0)
  | .int n => i2d n
  | .float b => some b
  | .str _ => none

/-- Element type numpy infers for a collection of Python scalars (`none` = outside the model;
    `some none` = `object`, which spox refuses). -/
def inferDType (xs : List Scalar) : Option (Option DType) :=
  let anyStr := xs.any (·.kind == .str)
  let allStr := xs.all (·.kind == .str)
  let ints := (xs.filter fun x => x.kind == .int || x.kind == .bool).map Scalar.asInt
  if xs.isEmpty then some (some .float64)
  else if anyStr then (if allStr then some (some .str) else none)
  else if ints.any (fun n => n < -(2 ^ 63 : Int) || (2 ^ 64 : Int) ≤ n) then some none      -- object
  else if xs.any (·.kind == .float) then some (some .float64)
  else if xs.all (·.kind == .bool) then some (some .bool)
  else
    -- numpy types each Python int on its own: int64 below 2^63, uint64 from there; bool is neutral;
    -- int64 next to uint64 promotes to float64
    let plain := (xs.filter fun x => x.kind == .int).map Scalar.asInt
    let hasI64 := plain.any (fun n => n < (2 ^ 63 : Int))
    let hasU64 := plain.any (fun n => (2 ^ 63 : Int) ≤ n)
    if hasI64 && hasU64 then some (some .float64)
    else if hasU64 then some (some .uint64)
    else some (some .int64)

/-- Payload of the scalars in the inferred element type. -/
def payload (d : DType) (xs : List Scalar) : Option (List Nat × List (List Char)) :=
  match d with
  | .bool => some (xs.map (fun x => (x.asInt).toNat), [])
  | .int64 | .uint64 => some (xs.map (fun x => ofInt 64 x.asInt), [])
  | .float64 => (xs.mapM Scalar.asDouble).map (·, [])
  | .str => some ([], xs.map fun x => match x with | .str cs => stripNul cs | _ => [])
  | _ => none

def arrayOfScalars (shape : List Nat) (xs : List Scalar) : Option (Except Err Arr) :=
  match inferDType xs with
  | none => none
  | some none => some (.error .typeError)          -- object dtype: AttrTensor's validation refuses it
  | some (some d) =>
    match payload d xs with
    | none => none
    | some (ws, ss) => some (.ok ⟨d, shape, ws, ss⟩)

/-- `np.array(value)`. -/
def numpyArray : Value → Option (Except Err Arr)
  | .scalar s => arrayOfScalars [] [s]
  | .npScalar d ws cs => some (.ok ⟨d, [], ws, if d = .str then [stripNul cs] else []⟩)
  | .array a => some (.ok a)
  | .list xs => arrayOfScalars [xs.length] xs
  | .nested rows =>
    match rows with
    | [] => arrayOfScalars [0] []
    | r :: rs =>
      if rs.all (·.length == r.length) then arrayOfScalars [rows.length, r.length] rows.flatten
      else some (.error .valueError)               -- ragged: numpy refuses ("inhomogeneous shape")

inductive Route
  /-- the `value` attribute (type TENSOR) of a `Constant` node -/
  | constantNode
  /-- a graph initializer carrying the Var's name -/
  | initializer
  deriving DecidableEq

structure Embedded where
  route : Route
  tensor : TProto
  /-- `Var.type` -/
  varType : DType × List Nat
  /-- `Var._get_value()` (absent for an argument default: an argument can be overridden) -/
  propagated : Option Arr
  deriving DecidableEq

/-- `AttrTensor(arr)` and what the node makes of it. -/
def embedArr (q : Bool) (r : Route) (prop : Bool) (a : Arr) : Except Err Embedded :=
  match construct q .tensor "value" (.atom (.ndarray a)) with
  | .ok (_, p) =>
    match p.t with
    | some t => .ok ⟨r, t, (a.dtype, a.shape), if prop then some a else none⟩
    | none => .error .other
  | .error e => .error e

/-- `op.const(value)` = `constant(value=np.array(value))`. -/
def const (q : Bool) (v : Value) : Option (Except Err Embedded) :=
  (numpyArray v).map (· >>= embedArr q .constantNode true)
/-- `spox._graph.initializer(arr)` (an ndarray). -/
def graphInitializer (q : Bool) (a : Arr) : Except Err Embedded := embedArr q .initializer true a
/-- `spox._future.initializer(value)` = `spox._graph.initializer(np.array(value))`. -/
def futureInitializer (q : Bool) (v : Value) : Option (Except Err Embedded) :=
  (numpyArray v).map (· >>= graphInitializer q)
/-- `arguments(x=arr)`: an argument whose default is an initializer of its name. -/
def argDefault (q : Bool) (a : Arr) : Except Err Embedded := embedArr q .initializer false a

/-! ### `constant(value_*=…)` -/
inductive ConstKey
  | value | value_float | value_floats | value_int | value_ints | value_string | value_strings
  deriving DecidableEq

def ConstKey.name : ConstKey → String
  | .value => "value" | .value_float => "value_float" | .value_floats => "value_floats"
  | .value_int => "value_int" | .value_ints => "value_ints" | .value_string => "value_string"
  | .value_strings => "value_strings"
def ConstKey.all : List ConstKey :=
  [.value, .value_float, .value_floats, .value_int, .value_ints, .value_string, .value_strings]
def ConstKey.ofName? (s : String) : Option ConstKey := ConstKey.all.find? (·.name == s)

/-- The attribute class `constant` wraps each keyword in. -/
def ConstKey.cls : ConstKey → Cls
  | .value => .tensor | .value_float => .float32 | .value_floats => .float32s | .value_int => .int64
  | .value_ints => .int64s | .value_string => .string | .value_strings => .strings

def strItems (items : List Atom) : Option (List (List Char)) :=
  items.mapM fun a => match a with | .str cs => some (stripNul cs) | _ => none

/-- `_Constant.propagate_values` (`none` = a value the model does not follow: `bytes`). -/
def propagate (k : ConstKey) (stored : PyVal) (p : AProto) : Option Arr :=
  match k, stored with
  | .value, .atom (.ndarray a) => some a
  | .value_float, _ => some ⟨.float32, [], [p.f], []⟩
  | .value_int, _ => some ⟨.int64, [], [ofInt 64 p.i], []⟩
  | .value_string, .atom (.str cs) => some ⟨.str, [], [], [stripNul cs]⟩
  | .value_floats, _ => some ⟨.float32, [p.floats.length], p.floats, []⟩
  | .value_ints, _ => some ⟨.int64, [p.ints.length], p.ints.map (ofInt 64), []⟩
  | .value_strings, .seq items => (strItems items).map fun ss => ⟨.str, [ss.length], [], ss⟩
  | _, _ => none

/-- `op.constant(<key>=v)`: the attribute and the propagated value. -/
def constant (q : Bool) (k : ConstKey) (v : PyVal) : Except Err (AProto × Option Arr) :=
  match construct q k.cls k.name v with
  | .ok (sv, p) => .ok (p, propagate k sv p)
  | .error e => .error e

end Embed
