import SpoxModel.Model.ScanRun
/-!
# C06 — `Scan` state outputs (round 10)

**Reported type.** `Scan` has no `infer_output_types` override; what `op.scan` reports for a final-state
output is ONNX's rule on spox's dummy typed body: the initial state's type MERGED with the body's result
type for that state (`mergeInShapeInfo`): element type of the initial state; a dim constant in either type
is constant in the result (two different constants: `InferenceError`), else the initial state's symbol, else
the result's; ranks must agree when both are known. `scanStateTy` is that function — compared with the real
`op.scan` of every opset module on every run (tie H).

**Runtime.** onnxruntime keeps the loop-state buffers allocated for the initial states: an iteration whose
body returns a state of another element type or shape FAILS the run (no value). `guardBody` adds exactly that
to a body; `scanRun cfg (guardBody body)` is the run — compared with onnxruntime on raw `Scan` nodes whose
body changes / keeps the state's shape on every run.
-/
namespace C06M

/-- One dim: `none` = two different constants. -/
def meetDim : Dim → Dim → Option Dim
  | .const n, .const m => if n = m then some (.const n) else none
  | .const n, _ => some (.const n)
  | .named _, .const m => some (.const m)
  | .named s, _ => some (.named s)
  | .anon, d => some d

/-- `none` = conflicting constants or different ranks. -/
def meetDims : List Dim → List Dim → Option (List Dim)
  | [], [] => some []
  | a :: as, b :: bs =>
    match meetDim a b, meetDims as bs with
    | some d, some ds => some (d :: ds)
    | _, _ => none
  | _, _ => none

/-- Reported type of a final-state output from the initial state's type `s0` and the body's result type `r`
    (`none` = `InferenceError`). -/
def scanStateTy (s0 r : Ty) : Option Ty :=
  match s0.s, r.s with
  | none, rs => some ⟨s0.e, rs⟩
  | some a, none => some ⟨s0.e, some a⟩
  | some a, some b => (meetDims a b).map (fun ds => ⟨s0.e, some ds⟩)

def scanStateTys : List Ty → List Ty → Option (List Ty)
  | [], [] => some []
  | a :: as, b :: bs =>
    match scanStateTy a b, scanStateTys as bs with
    | some u, some us => some (u :: us)
    | _, _ => none
  | _, _ => none

/-- The runtime's loop-state rule: a body result state that differs (element type or shape) from the state it
    received fails the run. -/
def guardBody (body : ScanBody) : ScanBody := fun t st sl =>
  match body t st sl with
  | some (st', row) => if st' = st then some (st', row) else none
  | none => none

end C06M
