import SpoxModel.Model.Scope
import SpoxModel.Model.Named
import SpoxModel.Lemmas.Scope
/-!
# Naming model of `Builder.compile_graph` (C02)

Input: the emission tree of a build (which nodes go in which graph, in which order — computed by the
real `Builder`, see C01/C04 for that half) with, per node, what naming needs: object ids, operator
identifier, output fields with preset names, inputs, body graphs with their attribute keys, and for
`_Inline` nodes the inner graph. Output: the named graph (`Named.NGraph`) exactly as the names appear
in the ModelProto, or the error class.

`compileGraph` threads one flat `Scope` through all nested graphs, as the code does; bodies get the
prefix `<owner name>_<attr>__`. Every change to the scope goes through `Scope.update`,
`Space.maybeEnum` and `Space.reserve` (values in the var namespace, inlined node names in the
node namespace); the run also records these calls (`TraceOp`) so that the
driver can confirm, on every case, that replaying the trace from the empty scope gives the same final
scope (`Props/C02.lean` proves the invariant for every replay).
Core Lean only.
-/
namespace Naming
open Scope Named

inductive Kind where
  | plain (minIn : Nat)
  | arg (hasDefault : Bool)
  | init
  | intro
  | inline (topIn topOut : List String) (g : NGraph)

mutual
inductive ENode where
  | mk (id : Nat) (opId : String) (kind : Kind) (ins : List (Option Nat)) (outs : List OutVar)
       (subKeys : List String) (subs : List EGraph)
inductive EGraph where
  | mk (args : List ENode) (nodes : List ENode) (results : List Nat)
end

inductive TraceOp where
  | update (pfx : String) (id : Nat) (opId : String) (outs : List OutVar)
  | maybeEnumVar (base : String)
  | reserveVar (n : String)
  | maybeEnumNode (base : String)
  | reserveNode (n : String)
deriving Repr

/-- The state threaded through the compilation: the scope, the trace of naming calls, and — carried
    along, erased at run time — the proof that the scope satisfies the invariant. Only `doUpdate`,
    `reservePrefixed` and `reservePrefixedNode` build a new state, each from the lemma for the scope
    operation it performs; so whatever `compileGraph` returns has a scope satisfying `SInv` *by
    construction* (`Props/C02.lean: compile_names_unique`). -/
structure St where
  sc : Scope
  trace : List TraceOp     -- newest first
  inv : SInv sc

def St.empty : St := { sc := {}, trace := [], inv := ⟨empty_inv, empty_inv⟩ }

abbrev M := Except Err

def lookupVar (st : St) (v : Nat) : M String :=
  match getObj st.sc.var.frames v with
  | some n => .ok n
  | none => .error .key

def lookupOpt (st : St) : Option Nat → M String
  | none => .ok ""
  | some v => lookupVar st v

def doUpdate (st : St) (pfx : String) (id : Nat) (opId : String) (outs : List OutVar) : M (String × St) :=
  match h : st.sc.update pfx id opId outs with
  | .ok (nm, sc') => .ok (nm, { sc := sc', trace := .update pfx id opId outs :: st.trace,
                                inv := update_inv st.inv h })
  | .error e => .error e

/-- `reserve_prefixed` of `_Inline.to_onnx` -/
def reservePrefixed (st : St) (nodeName name : String) : M (String × St) :=
  if name = "" then .ok ("", st) else
  let base := nodeName ++ "__" ++ name
  let r := st.sc.var.maybeEnum base
  match h : r.2.reserve r.1 with
  | .ok var2 => .ok (r.1, { sc := { st.sc with var := var2 },
                            trace := .reserveVar r.1 :: .maybeEnumVar base :: st.trace,
                            inv := ⟨reserve_inv (maybeEnum_inv st.inv.1) h, st.inv.2⟩ })
  | .error e => .error e

/-- the node-name counterpart (inlined node names are reserved in the node namespace) -/
def reservePrefixedNode (st : St) (nodeName name : String) : M (String × St) :=
  if name = "" then .ok ("", st) else
  let base := nodeName ++ "__" ++ name
  let r := st.sc.node.maybeEnum base
  match h : r.2.reserve r.1 with
  | .ok node2 => .ok (r.1, { sc := { st.sc with node := node2 },
                             trace := .reserveNode r.1 :: .maybeEnumNode base :: st.trace,
                             inv := ⟨st.inv.1, reserve_inv (maybeEnum_inv st.inv.2) h⟩ })
  | .error e => .error e

/-- renaming state of one `_Inline.to_onnx` call -/
structure Ren where
  st : St
  memoV : List (String × String) := []
  memoN : List (String × String) := []

def idxOf (xs : List String) (x : String) : Option Nat :=
  let i := xs.findIdx (· == x)
  if i < xs.length then some i else none

/-- `apply_rename` -/
def applyRename (nodeName : String) (topIn topOut : List String) (inVars outVars : List Nat)
    (r : Ren) (name : String) : M (String × Ren) :=
  match idxOf topIn name with
  | some i => match inVars[i]? with
    | some v => (lookupVar r.st v).map (·, r)
    | none => .error .key
  | none =>
    match idxOf topOut name with
    | some i => match outVars[i]? with
      | some v => (lookupVar r.st v).map (·, r)
      | none => .error .key
    | none =>
      match r.memoV.find? (·.1 == name) with
      | some (_, n) => .ok (n, r)
      | none =>
        match reservePrefixed r.st nodeName name with
        | .ok (n, st') => .ok (n, { r with st := st', memoV := (name, n) :: r.memoV })
        | .error e => .error e

/-- `apply_node_rename` (only called for non-empty names) -/
def applyNodeRename (nodeName : String) (r : Ren) (name : String) : M (String × Ren) :=
  if name = "" then .ok ("", r) else
  match r.memoN.find? (·.1 == name) with
  | some (_, n) => .ok (n, r)
  | none =>
    match reservePrefixedNode r.st nodeName name with
    | .ok (n, st') => .ok (n, { r with st := st', memoN := (name, n) :: r.memoN })
    | .error e => .error e

def renameList (f : Ren → String → M (String × Ren)) : Ren → List String → M (List String × Ren)
  | r, [] => .ok ([], r)
  | r, x :: xs => do
    let (y, r1) ← f r x
    let (ys, r2) ← renameList f r1 xs
    return (y :: ys, r2)

mutual
/-- `rename_in_graph`: inputs, initializers, then per node (name, inputs, outputs, body graphs), then
    outputs (+ value_info, which the harness appends to `outputs`) -/
def renameGraph (nodeName : String) (topIn topOut : List String) (inVars outVars : List Nat) (r : Ren) :
    NGraph → M (NGraph × Ren)
  | .mk ins inits nodes outs => do
    let f := applyRename nodeName topIn topOut inVars outVars
    let (ins', r1) ← renameList f r ins
    let (inits', r2) ← renameList f r1 inits
    let (nodes', r3) ← renameNodes nodeName topIn topOut inVars outVars r2 nodes
    let (outs', r4) ← renameList f r3 outs
    return (.mk ins' inits' nodes' outs', r4)
def renameNodes (nodeName : String) (topIn topOut : List String) (inVars outVars : List Nat) (r : Ren) :
    List NNode → M (List NNode × Ren)
  | [] => .ok ([], r)
  | (.mk name ins outs subs) :: rest => do
    let f := applyRename nodeName topIn topOut inVars outVars
    let (name', r1) ← applyNodeRename nodeName r name
    let (ins', r2) ← renameList f r1 ins
    let (outs', r3) ← renameList f r2 outs
    let (subs', r4) ← renameSubs nodeName topIn topOut inVars outVars r3 subs
    let (rest', r5) ← renameNodes nodeName topIn topOut inVars outVars r4 rest
    return (.mk name' ins' outs' subs' :: rest', r5)
def renameSubs (nodeName : String) (topIn topOut : List String) (inVars outVars : List Nat) (r : Ren) :
    List NGraph → M (List NGraph × Ren)
  | [] => .ok ([], r)
  | g :: gs => do
    let (g', r1) ← renameGraph nodeName topIn topOut inVars outVars r g
    let (gs', r2) ← renameSubs nodeName topIn topOut inVars outVars r1 gs
    return (g' :: gs', r2)
end

def nodesOf : NGraph → List NNode
  | .mk _ _ nodes _ => nodes

/-- `Node.to_onnx` trailing-optional trimming of the input name list -/
def trimTrailing (minIn : Nat) (xs : List String) : List String :=
  (xs.reverse.dropWhile (· == "")).reverse ++ List.replicate (minIn - (xs.reverse.dropWhile (· == "")).length) ""

def mapM' {α β} (f : α → M β) : List α → M (List β)
  | [] => .ok []
  | x :: xs => do
    let y ← f x
    let ys ← mapM' f xs
    return y :: ys

def introProtos (st : St) (nm : String) : Nat → List (Option Nat) → List OutVar → M (List NNode)
  | _, [], _ => .ok []
  | _, _, [] => .ok []
  | i, a :: as, o :: os => do
    let x ← lookupOpt st a
    let y ← lookupVar st o.id
    let rest ← introProtos st nm (i + 1) as os
    return .mk (nm ++ "_id" ++ toString i) [x] [y] [] :: rest

mutual
def compileGraph (st : St) (pfx : String) : EGraph → M (NGraph × St)
  | .mk args nodes results => do
    let st1 ← updateArgs st pfx args
    let (nnodes, inits, st2) ← compileNodes st1 pfx nodes
    let inputs ← mapM' (fun a => match a with
      | .mk _ _ _ _ outs _ _ => match outs with
        | o :: _ => lookupVar st2 o.id
        | [] => .error .key) args
    let argInits ← mapM' (fun a => match a with
      | .mk _ _ _ _ outs _ _ => match outs with
        | o :: _ => lookupVar st2 o.id
        | [] => .error .key)
      (args.filter (fun a => match a with | .mk _ _ (.arg true) _ _ _ _ => true | _ => false))
    let outputs ← mapM' (lookupVar st2) results
    return (.mk inputs (argInits ++ inits) nnodes outputs, st2)
def updateArgs (st : St) (pfx : String) : List ENode → M St
  | [] => .ok st
  | (.mk id opId _ _ outs _ _) :: rest => do
    let (_, st1) ← doUpdate st pfx id opId outs
    updateArgs st1 pfx rest
/-- returns (node protos, initializer names of this graph, state) -/
def compileNodes (st : St) (pfx : String) : List ENode → M (List NNode × List String × St)
  | [] => .ok ([], [], st)
  | (.mk id opId kind ins outs subKeys subs) :: rest => do
    let (nm, st1) ← doUpdate st pfx id opId outs
    let (protos, inits, st2) ← (match kind with
      | .plain minIn => do
        let inNames ← mapM' (lookupOpt st1) ins
        let outNames ← mapM' (fun (o : OutVar) => lookupVar st1 o.id) outs
        let (subsN, st2) ← compileSubs st1 nm subKeys subs
        return ([NNode.mk nm (trimTrailing minIn inNames) outNames subsN], [], st2)
      | .arg _ => return ([], [], st1)
      | .init => do
        let outNames ← mapM' (fun (o : OutVar) => lookupVar st1 o.id) outs
        return ([], outNames, st1)
      | .intro => do
        let ps ← introProtos st1 nm 0 ins outs
        return (ps, [], st1)
      | .inline topIn topOut g => do
        let inVars := ins.filterMap (fun x => x)
        let (g', r) ← renameGraph nm topIn topOut inVars (outs.map (·.id)) { st := st1 } g
        return (nodesOf g', [], r.st) : M (List NNode × List String × St))
    let (restP, restI, st3) ← compileNodes st2 pfx rest
    return (protos ++ restP, inits ++ restI, st3)
def compileSubs (st : St) (ownerName : String) : List String → List EGraph → M (List NGraph × St)
  | k :: ks, g :: gs => do
    let (ng, st1) ← compileGraph st (ownerName ++ "_" ++ k ++ "__") g
    let (ngs, st2) ← compileSubs st1 ownerName ks gs
    return (ng :: ngs, st2)
  | _, _ => .ok ([], st)
end

/-- the scope effects of a trace, replayed from any scope -/
def replayOp (sc : Scope) : TraceOp → M Scope
  | .update pfx id opId outs => (sc.update pfx id opId outs).map (·.2)
  | .maybeEnumVar b => .ok { sc with var := (sc.var.maybeEnum b).2 }
  | .reserveVar n => (sc.var.reserve n).map (fun v => { sc with var := v })
  | .maybeEnumNode b => .ok { sc with node := (sc.node.maybeEnum b).2 }
  | .reserveNode n => (sc.node.reserve n).map (fun v => { sc with node := v })

def replay : Scope → List TraceOp → M Scope
  | sc, [] => .ok sc
  | sc, op :: ops =>
    match replayOp sc op with
    | .ok sc' => replay sc' ops
    | .error e => .error e

/-- `Builder.build_main`'s last step: `compile_graph(main, Scope())` -/
def compile (g : EGraph) : M (NGraph × St) := compileGraph St.empty "" g

end Naming
