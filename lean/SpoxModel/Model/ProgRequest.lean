import SpoxModel.Model.ProgUsed
/-!
# Requests over one program, and finding the needed part of a program inside another (C01, round 10)

Executable side conditions of `C01.needed_part_decides_values` and `C01.other_request_same_values`
(`Props/C01.lean`); the driver evaluates them on real runs.  Core Lean only.

* `embedsNeeded p p' σ w`: every node reached from the wanted ids `w` (through inputs and bodies at any
  depth — `needed`) exists in `p` and sits in `p'` at position `σ k` with all its references renamed by `σ`.
  Nothing is asked of any other node of `p` or `p'` (what else was constructed, where, in which order).
* `sigmaOf tbl bound`: a renaming given by a finite table (ids beyond the table are sent above `bound`),
  `sigmaOk`: the executable condition under which it is injective.
-/
namespace Prog

deriving instance DecidableEq for PNode

def renRef (σ : Nat → Nat) (r : VarRef) : VarRef := ⟨σ r.node, r.idx⟩
def renGraph (σ : Nat → Nat) (g : PGraph) : PGraph := ⟨g.args.map σ, g.results.map (renRef σ)⟩
def renNode (σ : Nat → Nat) (n : PNode) : PNode :=
  ⟨n.kind, n.inputs.map (fun o => o.map (renRef σ)), n.subs.map (renGraph σ)⟩

def embedsNeeded (p p' : List PNode) (σ : Nat → Nat) (w : List Nat) : Bool :=
  (needed p w).all fun k =>
    match nodeAt p k with
    | none => false
    | some n => decide (nodeAt p' (σ k) = some (renNode σ n))

def sigmaOf (tbl : List Nat) (bound : Nat) (k : Nat) : Nat :=
  if k < tbl.length then tbl.getD k 0 else bound + k

def nodupB : List Nat → Bool
  | [] => true
  | a :: as => !as.contains a && nodupB as

def sigmaOk (tbl : List Nat) (bound : Nat) : Bool :=
  nodupB tbl && tbl.all (fun x => decide (x < bound))

end Prog
