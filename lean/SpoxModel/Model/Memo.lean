/-!
# Memoised build results (C12 `cache_transparent`)

`Graph._get_build_result` memoises `Builder(self).build_main()` in `Graph._build_result`; the
`with_*` setters make new Graphs with `dataclasses.replace`, which *shares* the cache object unless
the setter replaces it. A Graph is modelled by the part of it the Builder reads (`key`: requested
results and arguments) and its cache. Core Lean only.
-/
namespace Memo

/-- A `Graph` method that returns `replace(self, …)`: which fields it replaces. -/
structure Setter where
  name : String
  fields : List String
deriving Repr, DecidableEq

/-- What an attribute of a Graph that `_build.py` reads stands for: `some (some f)` — the dataclass
    field `f` (directly or through a property); `some none` — a method that reads no field into the
    build result (setters, `to_onnx` of an injected result, the memo itself); `none` — unknown to
    this model (the obligation `builder_reads_known` then fails). -/
def readField : String → Option (Option String)
  | "requested_results" => some (some "_results")
  | "requested_arguments" => some (some "_arguments")
  | "_results" => some (some "_results")
  | "_arguments" => some (some "_arguments")
  | "_extra_opset_req" => some (some "_extra_opset_req")
  | "_name" => some (some "_name")
  | "_doc_string" => some (some "_doc_string")
  | "_constructor" => some (some "_constructor")
  | "with_name" => some none
  | "with_opset" => some none
  | "with_doc" => some none
  | "_inject_build_result" => some none
  | "_get_build_result" => some none
  | "to_onnx" => some none
  | _ => none

/-- The Graph fields the build result depends on: those `_build.py` reads (table generated from the
    source), e.g. `_results`, `_arguments` and — since the Builder passes the model's opset
    requirements down to subgraphs — `_extra_opset_req`. -/
def keyFieldsOf (reads : List String) : List String := reads.filterMap (fun r => (readField r).join)

def readsKnown (reads : List String) : Bool := reads.all (fun r => (readField r).isSome)

def Setter.changesKey (reads : List String) (s : Setter) : Bool :=
  s.fields.any (fun f => (keyFieldsOf reads).contains f)
def Setter.resetsCache (s : Setter) : Bool := s.fields.contains "_build_result"

/-- every setter that replaces a field the build depends on starts the new Graph with its own cache -/
def settersOk (reads : List String) (l : List Setter) : Bool :=
  l.all (fun s => !s.changesKey reads || s.resetsCache)

structure G (K R : Type) where
  key : K
  cache : Option R

inductive Op (K : Type)
  | get                              -- `_get_build_result()`
  | setKey (k : K) (reset : Bool)    -- a setter changing results/arguments; `reset`: new cache object
  | setOther                         -- a setter changing name / doc string / extra opsets

def step {K R} (compute : K → R) (g : G K R) : Op K → G K R × Option R
  | .get => match g.cache with
      | some v => (g, some v)
      | none => ({ g with cache := some (compute g.key) }, some (compute g.key))
  | .setKey k reset => ({ key := k, cache := if reset then none else g.cache }, none)
  | .setOther => (g, none)

/-- what the successive reads return, with the cache -/
def reads {K R} (compute : K → R) : G K R → List (Op K) → List R
  | _, [] => []
  | g, op :: rest =>
    match step compute g op with
    | (g', some v) => v :: reads compute g' rest
    | (g', none) => reads compute g' rest

/-- what they would return if every read recomputed -/
def spec {K R} (compute : K → R) : K → List (Op K) → List R
  | _, [] => []
  | k, .get :: rest => compute k :: spec compute k rest
  | _, .setKey k' _ :: rest => spec compute k' rest
  | k, .setOther :: rest => spec compute k rest

def resetting {K} : List (Op K) → Bool
  | [] => true
  | .setKey _ r :: rest => r && resetting rest
  | _ :: rest => resetting rest

def Inv {K R} (compute : K → R) (g : G K R) : Prop := g.cache = none ∨ g.cache = some (compute g.key)

end Memo
