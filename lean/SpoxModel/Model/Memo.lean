/-!
# Memoised build results (C12 `cache_transparent`)

`Graph._get_build_result` memoises `Builder(self).build_main()` in `Graph._build_result`; the
`with_*` setters make new Graphs with `dataclasses.replace`, which *shares* the cache object unless
the setter replaces it. A Graph is modelled by the part of it the Builder reads (`key`: requested
results and arguments) and its cache. Core Lean only.
-/
namespace Memo

/-- A `Graph` method that returns `replace(self, …)`: which fields it replaces. -/
structure Setter where
  name : String
  fields : List String
deriving Repr, DecidableEq

/-- Graph fields the build result depends on (behind the properties the Builder reads). -/
def keyFields : List String := ["_results", "_arguments"]

/-- Graph attributes `_build.py` may read; anything else is a dependency this model does not know. -/
def knownBuilderReads : List String :=
  ["requested_results", "requested_arguments", "with_name", "_inject_build_result", "_get_build_result", "to_onnx"]

def Setter.changesKey (s : Setter) : Bool := s.fields.any (fun f => keyFields.contains f)
def Setter.resetsCache (s : Setter) : Bool := s.fields.contains "_build_result"

/-- every setter that changes what the build depends on starts the new Graph with its own cache -/
def settersOk (l : List Setter) : Bool := l.all (fun s => !s.changesKey || s.resetsCache)

structure G (K R : Type) where
  key : K
  cache : Option R

inductive Op (K : Type)
  | get                              -- `_get_build_result()`
  | setKey (k : K) (reset : Bool)    -- a setter changing results/arguments; `reset`: new cache object
  | setOther                         -- a setter changing name / doc string / extra opsets

def step {K R} (compute : K → R) (g : G K R) : Op K → G K R × Option R
  | .get => match g.cache with
      | some v => (g, some v)
      | none => ({ g with cache := some (compute g.key) }, some (compute g.key))
  | .setKey k reset => ({ key := k, cache := if reset then none else g.cache }, none)
  | .setOther => (g, none)

/-- what the successive reads return, with the cache -/
def reads {K R} (compute : K → R) : G K R → List (Op K) → List R
  | _, [] => []
  | g, op :: rest =>
    match step compute g op with
    | (g', some v) => v :: reads compute g' rest
    | (g', none) => reads compute g' rest

/-- what they would return if every read recomputed -/
def spec {K R} (compute : K → R) : K → List (Op K) → List R
  | _, [] => []
  | k, .get :: rest => compute k :: spec compute k rest
  | _, .setKey k' _ :: rest => spec compute k' rest
  | k, .setOther :: rest => spec compute k rest

def resetting {K} : List (Op K) → Bool
  | [] => true
  | .setKey _ r :: rest => r && resetting rest
  | _ :: rest => resetting rest

def Inv {K R} (compute : K → R) (g : G K R) : Prop := g.cache = none ∨ g.cache = some (compute g.key)

end Memo
