/-!
# Caller-owned containers (C01, round 7)

A constructor that takes a sequence of Vars (`concat`, `max`, `loop(v_initial=…)`, …) is handed a
container that stays the caller's: the caller may append to it, overwrite items, clear it or re-use it for
the next call before `build`.  The program's dataflow is what was CONSTRUCTED: a node's operands are the
contents of the container at the moment of the call (`BaseVars.__post_init__` takes a `tuple` snapshot).

`Ev.set l vs`: the caller makes list object `l` hold `vs` (creation and every later mutation);
`Ev.call l`: a constructor is called with list object `l`.  `snapshots` is what spox must have recorded
as operands of the constructed nodes, in construction order; `aliased` is the faulty reading (the node
keeps the list object and build looks inside it at the end).  Core Lean only (the driver links this file).
-/
namespace Containers

inductive Ev where
  | set (l : Nat) (vs : List Nat)
  | call (l : Nat)
deriving Repr, DecidableEq

def upd (h : Nat → List Nat) (l : Nat) (vs : List Nat) : Nat → List Nat :=
  fun i => if i = l then vs else h i

/-- Operands of the constructed nodes: the list contents at call time. -/
def snapshots : List Ev → (Nat → List Nat) → List (List Nat)
  | [], _ => []
  | .set l vs :: es, h => snapshots es (upd h l vs)
  | .call l :: es, h => h l :: snapshots es h

/-- The heap after all events. -/
def finalHeap : List Ev → (Nat → List Nat) → (Nat → List Nat)
  | [], h => h
  | .set l vs :: es, h => finalHeap es (upd h l vs)
  | .call _ :: es, h => finalHeap es h

/-- The list objects the calls were made with. -/
def calls : List Ev → List Nat
  | [] => []
  | .set _ _ :: es => calls es
  | .call l :: es => l :: calls es

/-- The faulty reading: nodes keep the list OBJECT, build reads it at the end. -/
def aliased (es : List Ev) (h : Nat → List Nat) : List (List Nat) :=
  (calls es).map (finalHeap es h)

def isSet : Ev → Bool
  | .set _ _ => true
  | .call _ => false

end Containers
