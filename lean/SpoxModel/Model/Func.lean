/-!
# Function collection and de-duplication (C14)

What `compile_graph` / `Function.update_metadata` / `Graph.to_onnx_model` do with functions:

* while compiling a graph, every node's `update_metadata` runs in emission order; a `Function` node
  appends **itself** and then the functions of its body's build; after the nodes, the functions met
  while compiling control-flow bodies are appended (sub-builds are merged upward);
* `to_onnx_model` walks that list, renders every instance to a `FunctionProto` and keeps one per
  `(domain, name)`; a second instance under the same key whose proto differs raises `RuntimeError`;
* a function's opset imports are `max_opset_policy(body requirements ∪ the model's opsets)`.

An instance is abstracted to `(key, fp)`: `fp` identifies the rendered `FunctionProto` (equal `fp` ⇔
equal proto); the harness takes it from the real proto bytes.
Core Lean only.
-/
namespace Func

abbrev Key := String × String          -- (domain, name)

mutual
inductive FNode where
  | op                                            -- any node that is neither a function nor has bodies
  | call (key : Key) (fp : Nat) (body : FGraph)   -- a `Function` node: its key, proto, body build
  | ctrl (subs : List FGraph)                     -- a node with body graphs (If / Loop / Scan)
inductive FGraph where
  | mk (nodes : List FNode)                       -- arguments first, then `scope_own`, in order
end

abbrev Inst := Key × Nat

mutual
/-- `BuildResult.functions` of `compile_graph(g)` -/
def collectG : FGraph → List Inst
  | .mk nodes => ownNs nodes ++ subNs nodes
/-- appended by the nodes' `update_metadata`, in node order -/
def ownNs : List FNode → List Inst
  | [] => []
  | .op :: rest => ownNs rest
  | .call k fp body :: rest => (k, fp) :: (collectG body ++ ownNs rest)
  | .ctrl _ :: rest => ownNs rest
/-- appended after the node loop: what the body builds collected -/
def subNs : List FNode → List Inst
  | [] => []
  | .op :: rest => subNs rest
  | .call _ _ _ :: rest => subNs rest
  | .ctrl subs :: rest => collectGs subs ++ subNs rest
def collectGs : List FGraph → List Inst
  | [] => []
  | g :: gs => collectG g ++ collectGs gs
end

def lookup {κ β : Type} [BEq κ] (tbl : List (κ × β)) (k : κ) : Option β := (tbl.find? (·.1 == k)).map (·.2)

/-- `to_onnx_model`'s table: insertion order of first occurrences; `none` = RuntimeError
    (generic in the key and in what stands for the rendered proto) -/
def table {κ β : Type} [BEq κ] [DecidableEq β] : List (κ × β) → List (κ × β) → Option (List (κ × β))
  | tbl, [] => some tbl
  | tbl, (k, fp) :: rest =>
    match lookup tbl k with
    | some fp' => if fp' = fp then table tbl rest else none
    | none => table (tbl ++ [(k, fp)]) rest

/-- `model.functions` (keys with their proto), or `none` when the build raises -/
def toModel (g : FGraph) : Option (List Inst) := table [] (collectG g)

/-! ### the declarative side: every function instance used anywhere -/
mutual
/-- every `Function` node reachable from the graph: its own nodes, control-flow bodies, and the bodies
    of the functions it calls — by plain structural descent (no ordering subtleties) -/
def usedG : FGraph → List Inst
  | .mk nodes => usedNs nodes
def usedNs : List FNode → List Inst
  | [] => []
  | .op :: rest => usedNs rest
  | .call k fp body :: rest => (k, fp) :: (usedG body ++ usedNs rest)
  | .ctrl subs :: rest => usedGs subs ++ usedNs rest
def usedGs : List FGraph → List Inst
  | [] => []
  | g :: gs => usedG g ++ usedGs gs
end

/-! ### opset imports -/
def norm (d : String) : String := if d = "ai.onnx" then "" else d

def getV (t : List (String × Nat)) (d : String) : Option Nat := (t.find? (·.1 == d)).map (·.2)

/-- raise the entry of `d` to at least `v` -/
def bump : List (String × Nat) → String → Nat → List (String × Nat)
  | [], d, v => [(d, v)]
  | (d', v') :: t, d, v => if d' == d then (d', max v' v) :: t else (d', v') :: bump t d v

/-- `max_opset_policy` (as a finite map; the code's dict is sorted by domain) -/
def policy (req : List (String × Nat)) : List (String × Nat) :=
  req.foldl (fun t p => bump t (norm p.1) p.2) []

/-- opset imports of a function: `func_graph.with_opset(*model_opsets).get_opsets()` -/
def funcImports (bodyReq modelOpsets : List (String × Nat)) : List (String × Nat) :=
  policy (bodyReq ++ modelOpsets)

end Func

namespace Func

/-! ### opset requirements of a (function body) build, over nested bodies

`compile_graph` collects `opset_req` from every node's `update_metadata` in the node loop and, after
the loop, merges what the builds of the nodes' body graphs (If/Loop/Scan branches) collected. A node
is abstracted to its own requirement set (`Node.opset_req`; for a `Function` node that already
includes its body build's) and its body graphs. -/
mutual
inductive RNode where
  | mk (req : List (String × Nat)) (subs : List RGraph)
inductive RGraph where
  | mk (nodes : List RNode)
end

mutual
/-- `BuildResult.opset_req` of `compile_graph(g)` (as a list; the code uses a set) -/
def reqG : RGraph → List (String × Nat)
  | .mk nodes => ownReq nodes ++ subReq nodes
def ownReq : List RNode → List (String × Nat)
  | [] => []
  | .mk r _ :: rest => r ++ ownReq rest
def subReq : List RNode → List (String × Nat)
  | [] => []
  | .mk _ subs :: rest => reqGs subs ++ subReq rest
def reqGs : List RGraph → List (String × Nat)
  | [] => []
  | g :: gs => reqG g ++ reqGs gs
end

mutual
/-- the requirement of every node at any nesting depth, by plain structural descent -/
def allReqG : RGraph → List (String × Nat)
  | .mk nodes => allReqNs nodes
def allReqNs : List RNode → List (String × Nat)
  | [] => []
  | .mk r subs :: rest => r ++ (allReqGs subs ++ allReqNs rest)
def allReqGs : List RGraph → List (String × Nat)
  | [] => []
  | g :: gs => allReqG g ++ allReqGs gs
end

end Func
