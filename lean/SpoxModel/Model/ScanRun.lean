import SpoxModel.Model.MLInfer
import SpoxModel.Model.RtShape
/-!
# ONNX `Scan` at the level of element types and shapes (C06)

`Scan` iterates over the slices of its scan inputs along `scan_input_axes` (default 0; negative axes count
from the back) and stacks what the body returns per iteration along `scan_output_axes`. The directions
(`scan_input_directions`, `scan_output_directions`) only change the ORDER in which slices are read and
rows are written — a shape-level model ignores them (the correspondence runs both directions against
onnxruntime). Everything here is compared with onnxruntime on raw `Scan` nodes on every run (tie H).
-/
namespace C06M

/-- Insert at position `i` (at the end if `i` is beyond it). -/
def insAt {α : Type} : Nat → α → List α → List α
  | 0, a, l => a :: l
  | _ + 1, a, [] => [a]
  | i + 1, a, x :: l => x :: insAt i a l

/-- Delete position `i` (nothing if beyond the end). -/
def delAt {α : Type} : Nat → List α → List α
  | _, [] => []
  | 0, _ :: l => l
  | i + 1, x :: l => x :: delAt i l

structure ScanCfg where
  inAxes : List Int := []    -- `scan_input_axes`, one per scan input (missing = 0)
  outAxes : List Int := []   -- `scan_output_axes`, one per scan output (missing = 0)
  deriving Repr

def axisOf (l : List Int) (j : Nat) : Int := l.getD j 0

/-- One scan input: the length of its scan axis and the shape of one slice (the axis removed). -/
def scanSlice (axis : Int) (x : RtVal) : Option (Nat × RtVal) :=
  match normAxis axis x.s.length with
  | none => none
  | some i => some (x.s.getD i 0, ⟨x.e, delAt i x.s⟩)

/-- The same on types: the dim of the scan axis and the slice type. (Unknown rank: nothing known.) -/
def scanSliceTy (axis : Int) (t : Ty) : Option (Dim × Ty) :=
  match t.s with
  | none => some (.anon, ⟨t.e, none⟩)
  | some ds =>
    match normAxis axis ds.length with
    | none => none
    | some i => some (ds.getD i .anon, ⟨t.e, some (delAt i ds)⟩)

/-- What spox's `scan` constructor prescribes for the body's slice argument: `shape[1:]` WHATEVER the
    axis (the source's `(lambda x: x[1:] if x is not None else None)`). -/
def scanSliceTySpox (t : Ty) : Ty := ⟨t.e, t.s.map (fun ds => ds.drop 1)⟩

/-- `body t states slices`: iteration `t` → (next states, this iteration's scan rows). -/
abbrev ScanBody := Nat → List RtVal → List RtVal → Option (List RtVal × List RtVal)

def scanIter (body : ScanBody) (slices : List RtVal) : Nat → Nat → List RtVal → Option (List RtVal × List (List RtVal))
  | 0, _, st => some (st, [])
  | n + 1, t, st =>
    match body t st slices with
    | none => none
    | some (st', row) =>
      match scanIter body slices n (t + 1) st' with
      | none => none
      | some (fin, rows) => some (fin, row :: rows)

/-- Stack `rows` (all of one shape) along a new axis `axis` of the result (rank = slice rank + 1). -/
def stackAt (axis : Int) : List RtVal → Option RtVal
  | [] => none
  | v :: vs =>
    if vs.all (fun w => w == v) then
      match normAxis axis (v.s.length + 1) with
      | none => none
      | some i => some ⟨v.e, insAt i (vs.length + 1) v.s⟩
    else none

/-- ... exactly `n` rows (one per iteration). -/
def stackAtN (n : Nat) (axis : Int) (rows : List RtVal) : Option RtVal :=
  if rows.length == n then stackAt axis rows else none

def allSome {α : Type} : List (Option α) → Option (List α)
  | [] => some []
  | none :: _ => none
  | some a :: l => (allSome l).map (a :: ·)

/-- The scan length: all scan inputs agree on it; at least one scan input. -/
def scanLen : List (Nat × RtVal) → Option Nat
  | [] => none
  | (n, _) :: r => if r.all (fun p => p.1 == n) then some n else none

/-- One run of `Scan`: final states and the stacked scan outputs (`k` of them). A zero-length scan axis
    has no rows to take the output shapes from: no value (onnxruntime refuses it, too). -/
def scanRun (cfg : ScanCfg) (body : ScanBody) (k : Nat) (states xs : List RtVal) : Option (List RtVal × List RtVal) :=
  match allSome ((List.range xs.length).map (fun j => match xs[j]? with
      | some x => scanSlice (axisOf cfg.inAxes j) x | none => none)) with
  | none => none
  | some sl =>
    match scanLen sl with
    | none => none
    | some n =>
      match scanIter body (sl.map (·.2)) n 0 states with
      | none => none
      | some (fin, rows) =>
        match allSome ((List.range k).map (fun j => stackAtN n (axisOf cfg.outAxes j) (column rows j))) with
        | none => none
        | some outs => some (fin, outs)

/-- Reported type of a scan output: the body's declared result type with the scan-length dim inserted at
    the output axis (ONNX's Scan inference; unknown rank stays unknown). -/
def scanOutTy (axis : Int) (len : Dim) (t : Ty) : Option Ty :=
  match t.s with
  | none => some ⟨t.e, none⟩
  | some ds =>
    match normAxis axis (ds.length + 1) with
    | none => none
    | some i => some ⟨t.e, some (insAt i len ds)⟩

end C06M
