import SpoxModel.Model.AttrBase
import SpoxModel.Model.AttrSite
/-!
# Input / output fields (`spox._fields.BaseVars`)  (C10, round 8)
Core Lean only.  `__post_init__` checks each declared field by kind - a single field wants a Var, an optional field a
Var or None, a variadic field an iterable, which is frozen with ONE `tuple(value)` (so a one-shot iterable is consumed
once and the caller's list is not kept) and only then checked for non-Var items - and raises `TypeError` otherwise;
`_flatten` / `get_vars` produce the node's named inputs (`key` or `key_i`), which is what `Node.to_onnx` emits.
-/
namespace VarFields
open AttrSite Attr

/-- what the caller put into a slot -/
inductive Item
  | var (id : Nat)
  | none_
  /-- any other Python object (int, str, ndarray …) -/
  | other
  deriving DecidableEq, Repr, Inhabited

def Item.isVar : Item → Bool
  | .var _ => true
  | _ => false

inductive Kind
  | single | optional | variadic
  deriving DecidableEq, Repr, Inhabited

/-- the value of a field at the call: one object, or an iterable of objects (list / tuple: re-iterable; generator: one-shot) -/
inductive Given
  | obj (i : Item)
  | iter (s : Src Item)

inductive Stored
  | one (i : Item)
  | many (l : List Item)
  deriving DecidableEq, Repr

/-- `BaseVars.__post_init__` for one field. A Var is not iterable; an iterable is not a Var. -/
def store : Kind → Given → Except Err Stored
  | .single, .obj (.var n) => .ok (.one (.var n))
  | .single, _ => .error .typeError
  | .optional, .obj (.var n) => .ok (.one (.var n))
  | .optional, .obj .none_ => .ok (.one .none_)
  | .optional, _ => .error .typeError
  | .variadic, .obj _ => .error .typeError
  | .variadic, .iter s =>
    let l := stored [.full] s          -- value = tuple(value)
    if l.all Item.isVar then .ok (.many l) else .error .typeError

/-- all declared fields, in declaration order; the first failing field decides -/
def storeAll : List (String × Kind × Given) → Except Err (List (String × Stored))
  | [] => .ok []
  | (n, k, g) :: rest =>
    match store k g with
    | .error e => .error e
    | .ok s => match storeAll rest with
      | .error e => .error e
      | .ok r => .ok ((n, s) :: r)

def enumFrom (key : String) : Nat → List Item → List (String × Option Nat)
  | _, [] => []
  | i, x :: xs => (key ++ "_" ++ toString i, match x with | .var n => some n | _ => none) :: enumFrom key (i + 1) xs

/-- `_flatten`: `(key, value)` for single / optional fields, `(key_i, v)` for the items of a variadic one -/
def flatten : List (String × Stored) → List (String × Option Nat)
  | [] => []
  | (key, .one (.var n)) :: rest => (key, some n) :: flatten rest
  | (key, .one _) :: rest => (key, none) :: flatten rest
  | (key, .many l) :: rest => enumFrom key 0 l ++ flatten rest

/-- `get_vars`: the named Vars (what becomes the node's inputs, `None` slots dropped) -/
def getVars (fs : List (String × Stored)) : List (String × Nat) :=
  (flatten fs).filterMap fun p => p.2.map fun n => (p.1, n)

end VarFields
