/-!
# Value propagation (C07, C15)

Executable model of spox's value-propagation logic (`_value_prop.py`, `StandardNode.propagate_values_onnx`,
`_Inline.propagate_values`, the value half of `Node.inference`). The *backend* (onnx.reference /
onnxruntime) is a parameter: all the model sees of it is a `Backend` result - an exception of some
class, or a list of output names and a list of raw result objects (`RefVal`).

The model carries a `Variant` so that the behaviour of the pinned tree (conversions outside the
backend's `try`, non-recursive `check`, `_Inline` ignoring the `NONE` switch) stays expressible:
the property theorems are proved for `Variant.fixed` (what the correspondence compares the code
with), the `..._counterexample` theorems are about `Variant.pinned`.

Core Lean only (the driver links this file).
-/
namespace VP

/-! ## dtypes, shapes, types -/

/-- numpy dtypes that can occur on a backend result. `longlong`/`ulonglong` are the platform alias
    classes (`np.dtype('longlong').type is not np.int64`, but its `.name` is `int64`);
    `object` is an object array all of whose elements are `str`, `objmixed` any other object array;
    `other` stands for every dtype that is no ONNX tensor element type (datetime64, bytes, void,
    longdouble ...). -/
inductive DT
  | bool | i8 | i16 | i32 | i64 | u8 | u16 | u32 | u64 | f16 | f32 | f64 | c64 | c128 | str
  | object | objmixed | longlong | ulonglong | other
deriving DecidableEq, Repr

/-- `np.dtype(dtype.name)` on a numeric dtype (`PropValue.__post_init__`): aliases collapse. -/
def DT.norm : DT → DT
  | .longlong => .i64
  | .ulonglong => .u64
  | d => d

/-- `np.issubdtype(dtype, np.number)`. -/
def DT.isNumber : DT → Bool
  | .bool | .str | .object | .objmixed | .other => false
  | _ => true

inductive Dim | const (n : Nat) | unk
deriving DecidableEq, Repr

/-- `None` = unknown rank. -/
abbrev Shape := Option (List Dim)

inductive Ty
  | tensor (e : DT) (s : Shape)
  | seq (t : Ty)
  | opt (t : Ty)
deriving DecidableEq, Repr

/-- `Constant(n) <= d` (`_shape.py`). -/
def dimLe (n : Nat) : Dim → Bool
  | .const m => n == m
  | .unk => true

/-- `Shape.from_simple(value.shape) <= shape` for known rank: equal ranks and every dimension `<=`. -/
def dimsLe : List Nat → List Dim → Bool
  | [], [] => true
  | n :: ns, d :: ds => dimLe n d && dimsLe ns ds
  | _, _ => false

def shapeLe (sh : List Nat) : Shape → Bool
  | none => true
  | some ds => dimsLe sh ds

/-- `Natural.__le__` between two declared dimensions (`Unknown <= anything`, `Constant <= Unknown`). -/
def Dim.le : Dim → Dim → Bool
  | .unk, _ => true
  | .const _, .unk => true
  | .const n, .const m => n == m

def dimsLe' : List Dim → List Dim → Bool
  | [], [] => true
  | a :: as, b :: bs => a.le b && dimsLe' as bs
  | _, _ => false

def Shape.le : Shape → Shape → Bool
  | none, _ => true
  | _, none => true
  | some a, some b => dimsLe' a b

/-- `Type._subtype` (a compatibility relation, not an order: see C13). -/
def Ty.sub : Ty → Ty → Bool
  | .tensor e s, .tensor e' s' => e == e' && Shape.le s s'
  | .seq a, .seq b => a.sub b
  | .opt a, .opt b => a.sub b
  | _, _ => false

/-! ## raw backend results and propagated values -/

/-- What a backend may hand back for one output. -/
inductive RefVal
  | arr (dt : DT) (shape : List Nat) (pid : Nat)   -- an ndarray; `pid` identifies the contents
  | list (xs : List RefVal)                         -- a Python list
  | none
  | scalar (dt : DT) (pid : Nat)   -- a Python / numpy scalar or a str: `np.array(·)` is 0-d of `dt`
  | opaque (pid : Nat)             -- any other object: `np.array(·)` is a 0-d object array
  | ragged                         -- e.g. a tuple of arrays of different lengths: `np.array(·)` raises ValueError
deriving Repr

mutual
/-- `PropValueType`. -/
inductive Payload
  | arr (dt : DT) (shape : List Nat) (pid : Nat)
  | list (xs : List PropValue)
  | some (v : PropValue)
  | none
/-- `PropValue(type, value)`. -/
inductive PropValue
  | mk (type : Ty) (value : Payload)
end

def PropValue.type : PropValue → Ty | .mk t _ => t
def PropValue.value : PropValue → Payload | .mk _ v => v

/-- `PropValue.__post_init__`: numeric arrays are re-created with `np.dtype(dtype.name)`. -/
def Payload.normalise : Payload → Payload
  | .arr dt sh pid => .arr (if dt.isNumber then dt.norm else dt) sh pid
  | p => p

/-- The constructor call `PropValue(type, value)` (without strict mode). -/
def PropValue.new (t : Ty) (v : Payload) : PropValue := .mk t v.normalise

/-- Exception classes that matter. `backend isExc id`: whatever the backend raised; `isExc = false`
    for classes not derived from `Exception` (KeyboardInterrupt, SystemExit). -/
inductive Exc
  | typeError | keyError | valueError | runtimeError
  | backend (isException : Bool) (id : Nat)
deriving DecidableEq, Repr

def Exc.isException : Exc → Bool
  | .backend b _ => b
  | _ => true

/-- Behaviour switches: the pinned tree vs. the tree after the three `fix:` commits. -/
structure Variant where
  /-- result conversions run under a `try` that gives up on propagation (fix 4a0f72b) -/
  convGuarded : Bool
  /-- `check` looks inside Sequence / Optional values (fix 8cf8b4c) and into object arrays standing
      for strings (fix ccb5773, same flag) -/
  checkRecursive : Bool
  /-- `_Inline.propagate_values` honours the `NONE` backend (fix 5a207b8) -/
  inlineNoneGuard : Bool
deriving DecidableEq, Repr

def Variant.fixed : Variant := ⟨true, true, true⟩
def Variant.pinned : Variant := ⟨false, false, false⟩

/-! ## `PropValue.check` -/

/-- `value.dtype.type is type.dtype.type`, or the object/str special case (fixed: only object
    arrays that hold strings, fix ccb5773). -/
def dtMatch (v e : DT) : Bool := (v == .object && e == .str) || v == e

/-- The pinned special case: *any* object array passes for a string tensor. -/
def dtMatchLoose (v e : DT) : Bool := ((v == .object || v == .objmixed) && e == .str) || v == e

/-- The Tensor branch of `check`, in the order the code evaluates it: first "is an ndarray whose
    shape is `<=` the declared shape" (else `False`), only then the object/str special case, only then
    the dtype-class identity. (A string-typed output must fail on a wrong shape *before* the special
    case can accept it.) -/
def checkTensor (e : DT) (s : Shape) (dt : DT) (sh : List Nat) : Bool :=
  if !(shapeLe sh s) then false
  else if (dt == .object || dt == .objmixed) && e == .str then dt == .object  -- all elements are str
  else dt == e

/-- The pinned Tensor branch: same order, but any object array passes for a string tensor. -/
def checkTensorLoose (e : DT) (s : Shape) (dt : DT) (sh : List Nat) : Bool :=
  if !(shapeLe sh s) then false
  else if (dt == .object || dt == .objmixed) && e == .str then true
  else dt == e

/-- The fixed `check`, as a function of the declared type and the payload (recursion on the type). -/
def checkRec : Ty → Payload → Bool
  | .tensor e s, .arr dt sh _ => checkTensor e s dt sh
  | .tensor _ _, _ => false
  | .seq t, .list xs => xs.all fun x => x.type.sub t && checkRec t (PropValue.new t x.value).value
  | .seq _, _ => false
  | .opt _, .none => true
  | .opt t, .some x => checkRec t (PropValue.new t x.value).value
  | .opt _, _ => false

/-- The pinned `check`: containers are only looked at one level deep. -/
def checkShallow : Ty → Payload → Bool
  | .tensor e s, .arr dt sh _ => checkTensorLoose e s dt sh
  | .tensor _ _, _ => false
  | .seq t, .list xs => xs.all fun x => x.type.sub t
  | .seq _, _ => false
  | .opt _, .none => true
  | .opt _, .some _ => true
  | .opt _, _ => false

def check (v : Variant) (p : PropValue) : Bool :=
  if v.checkRecursive then checkRec p.type p.value else checkShallow p.type p.value

/-! ## conversions from backend representations -/

/-- "Sometimes non-Sequence values are wrapped in a list": a singleton list is unwrapped. -/
def unwrap1 : RefVal → RefVal
  | .list [x] => x
  | v => v

/-- `cls(typ, np.array(value))` for a non-list, non-None value. -/
def leafRef (typ : Ty) : RefVal → Except Exc PropValue
  -- an object array ALL of whose elements are `str` is normalised to a string array (fix 05c97c9: the
  -- reference evaluator returns StringConcat / StringSplit results that way); other object arrays stay
  | .arr dt sh pid => .ok (PropValue.new typ (.arr (if dt == .object then .str else dt) sh pid))
  | .scalar dt pid => .ok (PropValue.new typ (.arr (if dt == .object then .str else dt) [] pid))
  | .opaque pid => .ok (PropValue.new typ (.arr .objmixed [] pid))
  | .ragged => .error .valueError
  | .none => .ok (PropValue.new typ .none)
  | .list _ => .error .typeError        -- `typ.unwrap_sequence()` on a non-Sequence type

/-- `PropValue.from_ref_value`. -/
def fromRef : Ty → RefVal → Except Exc PropValue
  | .tensor e s, v => leafRef (.tensor e s) (unwrap1 v)
  | .opt t, v =>
    match unwrap1 v with
    | .none => .ok (PropValue.new (.opt t) .none)
    | v' => do
      let inner ← fromRef t v'
      .ok (PropValue.new (.opt t) (.some inner))
  | .seq t, v =>
    match v with
    | .list xs => do
      let es ← xs.mapM (fromRef t)
      .ok (PropValue.new (.seq t) (.list es))
    | v' => leafRef (.seq t) v'

/-- `from_ort_value` on a value that is neither `None` nor a list. -/
def leafOrt (typ : Ty) : RefVal → Except Exc PropValue
  | .arr dt sh pid =>
    .ok (PropValue.new typ (.arr (if dt == .object || dt == .objmixed then .str else dt) sh pid))
  | .none => .ok (PropValue.new typ .none)
  | _ => .error .typeError              -- "No handler for ORT value"

/-- `PropValue.from_ort_value`. -/
def fromOrt : Ty → RefVal → Except Exc PropValue
  | .tensor e s, v => leafOrt (.tensor e s) v
  | .opt t, v =>
    match v with
    | .none => .ok (PropValue.new (.opt t) .none)
    | v' => do
      let inner ← fromOrt t v'
      .ok (PropValue.new (.opt t) (.some inner))
  | .seq t, v =>
    match v with
    | .list xs => do
      let es ← xs.mapM (fromOrt t)
      .ok (PropValue.new (.seq t) (.list es))
    | v' => leafOrt (.seq t) v'

/-- The value-propagation backend switch. -/
inductive BackendSel | none | reference | onnxruntime
deriving DecidableEq, Repr

/-- `unwrap_feed` of `get_backend_calls()` (`NONE` raises RuntimeError there). -/
def unwrapFeed : BackendSel → Ty → RefVal → Except Exc PropValue
  | .reference, t, v => fromRef t v
  | .onnxruntime, t, v => fromOrt t v
  | .none, _, _ => .error .runtimeError

/-! ## Python dicts as association lists (first position, last value) -/

def dictSet {α β} [DecidableEq α] : List (α × β) → α → β → List (α × β)
  | [], k, v => [(k, v)]
  | (k', v') :: rest, k, v => if k' = k then (k', v) :: rest else (k', v') :: dictSet rest k v

def dictOf {α β} [DecidableEq α] (ps : List (α × β)) : List (α × β) :=
  ps.foldl (fun d p => dictSet d p.1 p.2) []

def dictGet {α β} [DecidableEq α] : List (α × β) → α → Option β
  | [], _ => none
  | (k', v') :: rest, k => if k' = k then some v' else dictGet rest k

/-! ## the backend and `_run_*` -/

/-- What the third-party evaluator does when asked to run the singleton model. -/
inductive Backend
  | raise (e : Exc)                                   -- constructing the session or `run` raises
  | ret (names : List String) (vals : List RefVal)    -- output names and the list `run` returns
deriving Repr

/-- `_run_reference_implementation` / `_run_onnxruntime`: `dict(zip(names, run(...)))` under
    `try ... except Exception: return {}`. `swallow = false` is only used by the mutation tests'
    reading of the model; the code has `true`. -/
def runCatch : Backend → Except Exc (List (String × RefVal))
  | .raise e => if e.isException then .ok [] else .error e
  | .ret names vals => .ok (dictOf (names.zip vals))

/-! ## one node under construction -/

/-- An input Var as the singleton scope sees it. -/
structure InVar where
  name : String                  -- its name in the singleton scope (the input field key)
  whichOutput : Option String    -- `var._which_output`: its field key in its *own* producer
  type : Option Ty
  hasValue : Bool
deriving Repr

/-- An output Var of the node (after the type half of `Node.inference`). -/
structure OutVar where
  key : String
  type : Option Ty
  value : Option PropValue

/-- The facts about a node that make its `propagate_values` return early WITHOUT consulting the backend
    (each observed separately on the real node and combined here, in the model):
    * `sampling` - a standard operator listed in `_standard._NON_DETERMINISTIC_OPS` (RandomUniform,
      Bernoulli, Dropout ...): `StandardNode.propagate_values_onnx` returns `{}` (fix 616ba26);
    * `subgraph` - a standard operator carrying a subgraph attribute (If / Loop / Scan / SequenceMap);
    * `inlineControlFlow` - an `_Inline` node whose inlined graph has a node with a GRAPH / GRAPHS
      attribute: `_Inline.propagate_values` returns `{}` (fix 341024b). -/
structure Traits where
  sampling : Bool
  subgraph : Bool
  inlineControlFlow : Bool
deriving Repr, DecidableEq

def Traits.plain : Traits := ⟨false, false, false⟩

/-- The node skips value propagation whatever its inputs and the backend are. -/
def Traits.skips (t : Traits) : Bool := t.sampling || t.subgraph || t.inlineControlFlow

/-- **Does a node of these traits propagate at all under this backend setting?** (Constant / initializer
    nodes are not subject to it: they propagate their embedded array under every setting.) -/
def propagates (sel : BackendSel) (t : Traits) : Bool :=
  match sel with
  | .none => false
  | _ => !t.skips

structure NodeCtx where
  inputs : List InVar
  outputs : List OutVar
  /-- `Traits.skips` of the node (historically only "has a subgraph"). -/
  hasSubgraph : Bool

/-- `scope.var[str(name)]` → (`_which_output`, `type`); `none` = KeyError. Inputs are named first. -/
def scopeLookup (ctx : NodeCtx) (name : String) : Option (Option String × Option Ty) :=
  match ctx.inputs.find? (fun i => i.name == name) with
  | some i => some (i.whichOutput, i.type)
  | none =>
    match ctx.outputs.find? (fun o => o.key == name) with
    | some o => some (some o.key, o.type)
    | none => none

/-- The dict comprehension building `results` in `propagate_values_onnx` (one entry at a time, in
    the order of `output_feed.items()`; the first failing entry decides the exception). -/
def convertAll (sel : BackendSel) (ctx : NodeCtx) :
    List (String × RefVal) → Except Exc (List (Option String × Payload))
  | [] => .ok []
  | (name, r) :: rest =>
    match scopeLookup ctx name with
    | none => .error .keyError
    | some (k, oty) =>
      match oty with
      | none => .error .typeError                    -- `unwrap_type()` of an untyped Var
      | some ty => do
        let pv ← unwrapFeed sel ty r
        let tl ← convertAll sel ctx rest
        .ok ((k, pv.value) :: tl)

/-- keep entries whose key is not `None`, as a dict. -/
def keyed (rs : List (Option String × Payload)) : List (String × Payload) :=
  dictOf (rs.filterMap fun p => p.1.map fun k => (k, p.2))

/-- `StandardNode.propagate_values_onnx`. -/
def propagateOnnx (v : Variant) (sel : BackendSel) (ctx : NodeCtx) (b : Backend) :
    Except Exc (List (String × Payload)) :=
  if ctx.inputs.any (fun i => i.type.isNone || !i.hasValue) then .ok []
  else if ctx.hasSubgraph then .ok []
  else
    match runCatch b with
    | .error e => .error e
    | .ok feed =>
      match convertAll sel ctx feed with
      | .ok rs => .ok (keyed rs)
      | .error e => if v.convGuarded then .ok [] else .error e

/-- `StandardNode.propagate_values`. -/
def propagateStd (v : Variant) (sel : BackendSel) (ctx : NodeCtx) (b : Backend) :
    Except Exc (List (String × Payload)) :=
  match sel with
  | .none => .ok []
  | _ => propagateOnnx v sel ctx b

/-- The comprehension of `_Inline.propagate_values`: output `k` of the inlined graph is called
    `gnames[k]` there and `outputs_k` here; names the backend did not return are skipped. -/
def convertInline (sel : BackendSel) (feed : List (String × RefVal)) :
    List (String × OutVar) → Except Exc (List (String × Payload))
  | [] => .ok []
  | (gname, o) :: rest =>
    match dictGet feed gname with
    | none => convertInline sel feed rest
    | some r =>
      match o.type with
      | none => .error .typeError
      | some ty => do
        let pv ← unwrapFeed sel ty r
        let tl ← convertInline sel feed rest
        .ok ((o.key, pv.value) :: tl)

/-- `_Inline.propagate_values`; `gnames` are the output names of the inlined graph. -/
def propagateInline (v : Variant) (sel : BackendSel) (ctx : NodeCtx) (gnames : List String)
    (b : Backend) : Except Exc (List (String × Payload)) :=
  if ctx.inputs.any (fun i => i.type.isNone || !i.hasValue) then .ok []
  else if v.inlineNoneGuard && sel == .none then .ok []
  else if sel == .none then .error .runtimeError      -- `get_backend_calls()` under NONE
  else if ctx.hasSubgraph then .ok []                 -- the inlined graph contains control flow (341024b)
  else
    match runCatch b with
    | .error e => .error e
    | .ok feed =>
      match convertInline sel feed (gnames.zip ctx.outputs) with
      | .ok rs => .ok (dictOf rs)
      | .error e => if v.convGuarded then .ok [] else .error e

/-- The value half of `Node.inference` for one output Var; the Bool is "an InferenceWarning was
    issued for it". -/
def mergeOne (v : Variant) (vals : List (String × Payload)) (o : OutVar) : OutVar × Bool :=
  match o.type, o.value, dictGet vals o.key with
  | some t, none, some p =>
    if check v (PropValue.new t p) then ({ o with value := some (PropValue.new t p) }, false)
    else (o, true)
  | _, _, _ => (o, false)

def merge (v : Variant) (vals : List (String × Payload)) (outs : List OutVar) :
    List (OutVar × Bool) :=
  outs.map (mergeOne v vals)

/-- Which kind of node is being constructed. -/
inductive Kind
  | standard
  | inline (gnames : List String)
deriving Repr

def propagate (v : Variant) (sel : BackendSel) (ctx : NodeCtx) (b : Backend) :
    Kind → Except Exc (List (String × Payload))
  | .standard => propagateStd v sel ctx b
  | .inline g => propagateInline v sel ctx g b

/-- Constructing the node, as far as values are concerned: either an exception escapes the
    constructor, or the output Vars end up as listed (with the warning flags). -/
def construct (v : Variant) (sel : BackendSel) (k : Kind) (ctx : NodeCtx) (b : Backend) :
    Except Exc (List (OutVar × Bool)) :=
  match propagate v sel ctx b k with
  | .error e => .error e
  | .ok vals => .ok (merge v vals ctx.outputs)

/-! ## conformance (the specification `check` is measured against) -/

/-- Array dtype `dt` *is* element type `e`: equal as numpy dtypes (the platform alias classes
    `longlong`/`ulonglong` compare equal to `int64`/`uint64`), or an object array standing for
    strings. -/
def dtConf (dt e : DT) : Prop := dt.norm = e.norm ∨ (dt = .object ∧ e = .str)

def dimConf (n : Nat) : Dim → Prop
  | .const m => n = m
  | .unk => True

def dimsConf : List Nat → List Dim → Prop
  | [], [] => True
  | n :: ns, d :: ds => dimConf n d ∧ dimsConf ns ds
  | _, _ => False

def shapeConf (sh : List Nat) : Shape → Prop
  | none => True
  | some ds => dimsConf sh ds

/-- A payload conforms to a type: right container at every level, element type and shape of every
    array inside. (The declared types stored inside nested PropValues are ignored.) -/
def conforms : Ty → Payload → Prop
  | .tensor e s, .arr dt sh _ => dtConf dt e ∧ shapeConf sh s
  | .tensor _ _, _ => False
  | .seq t, .list xs => ∀ x ∈ xs, conforms t x.value
  | .seq _, _ => False
  | .opt _, .none => True
  | .opt t, .some x => conforms t x.value
  | .opt _, _ => False

end VP
