import SpoxModel.Props.C07
/-! `#print axioms` for every property theorem of C07; parsed by ./check. -/
