import SpoxModel.Props.C07
/-! `#print axioms` for every property theorem of C07; parsed by ./check. -/
#print axioms C07.step_inv
#print axioms C07.kept_value_conforms
#print axioms C07.value_is_input_independent
#print axioms C07.mapping_correct
#print axioms C07.constant_propagation_exact
#print axioms C07.fold_correct_partial
#print axioms C07.fold_correct
#print axioms C07.generated_overrides_modelled
#print axioms C07.fold_binding_independent
#print axioms C07.kept_value_conforms_counterexample
#print axioms C07.guarded_propagates_nothing
#print axioms C07.guarded_node_valueless
#print axioms C07.guarded_standard_step_valueless
#print axioms C07.guarded_inline_step_valueless
#print axioms C07.faithful_snoc_valueless
#print axioms C07.generated_sampling_guarded
#print axioms C07.guarded_nodes_valueless
#print axioms C07.sampling_guarded
#print axioms C07.sampling_nodes_valueless
#print axioms C07.feed_roundtrip
#print axioms C07.feed_roundtrip_tensor
#print axioms C07.feed_roundtrip_counterexample
#print axioms C07.converted_value_roundtrips_exactly
