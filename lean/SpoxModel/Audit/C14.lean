import SpoxModel.Props.C14
/-! `#print axioms` for every property theorem of C14; parsed by ./check. -/
#print axioms C14.defined_once
#print axioms C14.definition_is_own_body
#print axioms C14.inconsistent_rejected
#print axioms C14.consistent_accepted
#print axioms C14.imports_cover_body
#print axioms C14.imports_cover_nested_body
#print axioms C14.imports_cover_model
#print axioms C14.imports_attained
#print axioms C14.imports_agree_with_model
#print axioms C14.function_sem
#print axioms C14.function_sem_rejects
#print axioms C14.coarse_comparison_merges
