import SpoxModel.Props.C14
/-! `#print axioms` for every property theorem of C14; parsed by ./check. -/
