import SpoxModel.Props.C14
/-! `#print axioms` for every property theorem of C14; parsed by ./check. -/
#print axioms C14.defined_once
#print axioms C14.definition_is_own_body
#print axioms C14.inconsistent_rejected
#print axioms C14.consistent_accepted
#print axioms C14.imports_cover_body
#print axioms C14.imports_cover_nested_body
#print axioms C14.imports_cover_model
#print axioms C14.imports_attained
#print axioms C14.imports_agree_with_model
#print axioms C14.function_sem
#print axioms C14.function_sem_rejects
#print axioms C14.coarse_comparison_merges
#print axioms C14.body_req_in_model_req
#print axioms C14.reachable_bodies_are_used
#print axioms C14.imports_agree_with_model_program
#print axioms C14.used_has_body
#print axioms C14.rejected_iff_inconsistent
