import SpoxModel.Props.C19
/-! `#print axioms` for every property theorem of C19; parsed by ./check. -/
