import SpoxModel.Props.C19
/-! `#print axioms` for every property theorem of C19; parsed by ./check. -/
#print axioms C19.generated_good
#print axioms C19.generator_consistent
#print axioms C19.modules_covered
#print axioms C19.sites_good
#print axioms C19.callgraph_safe
#print axioms C19.no_callback_reachable
#print axioms C19.args_prescribed_if
#print axioms C19.args_prescribed_sequence_map
#print axioms C19.args_prescribed_scan_partial
#print axioms C19.scan_args_ignore_attributes
#print axioms C19.args_prescribed_scan_iff
#print axioms C19.args_prescribed_loop_partial
#print axioms C19.loop_partial_vs_onnx
#print axioms C19.loop_scalar_counterexample
#print axioms C19.scan_axes_counterexample
#print axioms C19.scan_pinned_counterexample
#print axioms C19.sequence_map_pinned_counterexample
#print axioms C19.args_fresh
#print axioms C19.called_once
#print axioms C19.called_exactly_once
#print axioms C19.called_at_most_once
#print axioms C19.reconstruct_counterexample
#print axioms C19.out_count
#print axioms C19.bad_callbacks_typeerror
#print axioms C19.bad_callback_invocations
#print axioms C19.nested_results_typeerror
