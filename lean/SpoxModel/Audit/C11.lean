import SpoxModel.Props.C11
/-! `#print axioms` for every property theorem of C11; parsed by ./check. -/
#print axioms C11.emit_slots
#print axioms C11.emit_slots_exact
#print axioms C11.emit_slots_index
#print axioms C11.emit_slots_present
#print axioms C11.slot_position
#print axioms C11.emit_slots_custom
#print axioms C11.emit_identity_free
#print axioms C11.emit_attrs
#print axioms C11.table_conforms
#print axioms C11.entryOK_sound
#print axioms C11.conforming_call
#print axioms C11.shipped_call
#print axioms C11.table_conforms_except
#print axioms C11.constant_sparse_value_counterexample
#print axioms C11.group_normalization_deprecated_counterexample
#print axioms C11.outputs_never_omitted
#print axioms C11.batchnorm_outputs_counterexample
#print axioms C11.conforming_call_total
#print axioms C11.none_never_invents
#print axioms C11.malformed_raises
#print axioms C11.total_extends_call
#print axioms C11.attr_classes_covered
#print axioms C11.dtype_exits_covered
#print axioms C11.dtype_raises_typeerror
#print axioms C11.attr_overrides_shape
