import SpoxModel.Props.C11
/-! `#print axioms` for every property theorem of C11; parsed by ./check. -/
