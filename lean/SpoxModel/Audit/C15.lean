import SpoxModel.Props.C15
/-! `#print axioms` for every property theorem of C15; parsed by ./check. -/
