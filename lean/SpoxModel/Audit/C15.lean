import SpoxModel.Props.C15
/-! `#print axioms` for every property theorem of C15; parsed by ./check. -/
#print axioms C15.check_sound
#print axioms C15.construct_total
#print axioms C15.no_bad_value
#print axioms C15.types_unaffected
#print axioms C15.off_is_transparent
#print axioms C15.raise_is_off
#print axioms C15.valueless_input_propagates_nothing
#print axioms C15.downstream_types_permissive
#print axioms C15.construct_total_counterexample
#print axioms C15.no_bad_value_counterexample
#print axioms C15.off_is_transparent_counterexample
#print axioms C15.tensor_value_never_object
#print axioms C15.adapt_initializers_nil
#print axioms C15.adapter_value_blind
#print axioms C15.generated_value_readers_modelled
#print axioms C15.construct_raises_iff
#print axioms C15.step_total
#print axioms C15.history_total
#print axioms C15.outputs_insim
#print axioms C15.chain_types_permissive
