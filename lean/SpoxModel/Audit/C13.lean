import SpoxModel.Props.C13
/-! `#print axioms` for every property theorem of C13; parsed by ./check. -/
