import SpoxModel.Props.C13
/-! `#print axioms` for every property theorem of C13; parsed by ./check. -/
#print axioms C13.spelling_class_of_code
#print axioms C13.spelling_canonical
#print axioms C13.elem_roundtrip
#print axioms C13.code_roundtrip
#print axioms C13.undefined_refused
#print axioms C13.defined_accepted
#print axioms C13.undefined_code_refused
#print axioms C13.subclass_is_eq
#print axioms C13.fromOnnx_toOnnx
#print axioms C13.subtype_exact
#print axioms C13.compat_iff_common_value
#print axioms C13.subtype_iff_common_value
#print axioms C13.broadcast_known
#print axioms C13.broadcast_sound
#print axioms C13.broadcast_raises_only_if_impossible
#print axioms C13.broadcast_unknown_rank
#print axioms C13.fromSimple_toSimple
#print axioms C13.broadcastArg_spelling
#print axioms C13.broadcastArg_congr
#print axioms C13.broadcastArg_none
#print axioms C13.broadcastArg_sound
#print axioms C13.canBroadcast_false_only_if_impossible
#print axioms C13.broadcast_comm
#print axioms C13.type_layer_inventory
#print axioms C13.broadcast_rank
#print axioms C13.subtype_symm
