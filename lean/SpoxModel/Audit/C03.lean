import SpoxModel.Props.C03
/-! `#print axioms` for every property theorem of C03; parsed by ./check. -/
#print axioms C03.generated_good
#print axioms C03.inputs_exact
#print axioms C03.outputs_exact
#print axioms C03.inputs_dropped
#print axioms C03.inputs_dropped_counterexample
#print axioms C03.missing_input_keyerror
#print axioms C03.non_argument_typeerror
#print axioms C03.non_var_output_typeerror
#print axioms C03.valid_request_builds
#print axioms C03.discover_all_arguments_spec
#print axioms C03.discover_all_arguments_spec_checked
#print axioms C03.generated_build_good
#print axioms C03.build_statements_refine
#print axioms C03.inputs_exact_stmts
#print axioms C03.outputs_exact_stmts
#print axioms C03.inputs_dropped_stmts
#print axioms C03.missing_input_keyerror_stmts
#print axioms C03.type_errors_stmts
#print axioms C03.names_restored_stmts
#print axioms C03.pinned_statements_counterexample
#print axioms C03.arguments_of_main_graph
#print axioms C03.recursion_only_along_nesting
#print axioms C03.missing_input_preset_name_counterexample
#print axioms C03.inputs_dropped_noclash
#print axioms C03.missing_input_keyerror_noclash
