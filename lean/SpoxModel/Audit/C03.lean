import SpoxModel.Props.C03
/-! `#print axioms` for every property theorem of C03; parsed by ./check. -/
