import SpoxModel.Props.C12
/-! `#print axioms` for every property theorem of C12; parsed by ./check. -/
#print axioms C12.generated_good
#print axioms C12.renames_restored_shape
#print axioms C12.renames_restored
#print axioms C12.names_in_force
#print axioms C12.renames_pinned_counterexample
#print axioms C12.renames_nofinally_counterexample
#print axioms C12.build_restores_names
#print axioms C12.build_deterministic
#print axioms C12.build_deterministic_counterexample
#print axioms C12.writes_allowed
#print axioms C12.var_writes_ok
#print axioms C12.swaps_restored
#print axioms C12.inline_copies_first
#print axioms C12.cache_transparent
#print axioms C12.setters_reset
#print axioms C12.memo_guarded
#print axioms C12.builder_reads_known
#print axioms C12.cache_stale_counterexample
#print axioms C12.key_has_results_and_arguments
#print axioms C12.no_class_level_mutable_state
#print axioms C12.no_memoising_decorators
#print axioms C12.no_module_level_caches
#print axioms C12.dict_backdoor_unused
