import SpoxModel.Props.C12
/-! `#print axioms` for every property theorem of C12; parsed by ./check. -/
