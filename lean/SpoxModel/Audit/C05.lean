import SpoxModel.Props.C05
/-! `#print axioms` for every property theorem of C05; parsed by ./check. -/
#print axioms C05.untyped_input_no_check
