import SpoxModel.Props.C05
/-! `#print axioms` for every property theorem of C05; parsed by ./check. -/
#print axioms C05.node_alpha
#print axioms C05.key_used_iff
#print axioms C05.singleton_prune_eq
#print axioms C05.singleton_alpha
#print axioms C05.singleton_scope_no_clash
#print axioms C05.emit_positional
#print axioms C05.untyped_input_no_check
#print axioms C05.sigma_inj_on_hand
#print axioms C05.infer_singleton
#print axioms C05.eager_agrees
#print axioms C05.result_mapping_bijective
#print axioms C05.stripUnk_weakens
#print axioms C05.stripUnk_idem
#print axioms C05.stripUnk_keeps
#print axioms C05.inferOK_accept
#print axioms C05.inferOK_reject
#print axioms C05.goodNames_exist
#print axioms C05.eager_agrees_canonical
#print axioms C05.supplemented_rejects_more
#print axioms C05.kind_error_iff
#print axioms C05.construct_history_free
#print axioms C05.construct_history_free_at
#print axioms C05.memo_sound
#print axioms C05.memo_without_output_count_counterexample
