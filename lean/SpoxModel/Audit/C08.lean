import SpoxModel.Props.C08
/-! `#print axioms` for every property theorem of C08; parsed by ./check. -/
#print axioms C08.copyFirst_pure
#print axioms C08.generated_copy_first
#print axioms C08.normalise_pure
#print axioms C08.no_copy_counterexample
