import SpoxModel.Props.C08
/-! `#print axioms` for every property theorem of C08; parsed by ./check. -/
#print axioms C08.bind_spec
#print axioms C08.bind_slot
#print axioms C08.bind_missing_typeerror
#print axioms C08.bind_duplicate_typeerror
#print axioms C08.bind_unknown_typeerror
#print axioms C08.bind_surplus_counterexample
#print axioms C08.call_type_check
#print axioms C08.rename_injective
#print axioms C08.rename_injective_repeated
#print axioms C08.rename_clash_counterexample
#print axioms C08.rename_fixed_example
#print axioms C08.inline_sem
#print axioms C08.toOnnx_nodes
#print axioms C08.inline_sem_scope
#print axioms C08.rename_total
#print axioms C08.toOnnx_total
#print axioms C08.inline_sem_total
#print axioms C08.inline_passthrough_counterexample
#print axioms C08.inline_passthrough_fixed
#print axioms C08.functions_refused
#print axioms C08.output_types_declared
#print axioms C08.copyFirst_pure
#print axioms C08.generated_copy_first
#print axioms C08.normalise_pure
#print axioms C08.no_copy_counterexample
