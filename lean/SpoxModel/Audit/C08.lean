import SpoxModel.Props.C08
/-! `#print axioms` for every property theorem of C08; parsed by ./check. -/
