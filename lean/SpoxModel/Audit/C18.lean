import SpoxModel.Props.C18
/-! `#print axioms` for every property theorem of C18; parsed by ./check. -/
#print axioms C18.custom_verbatim
#print axioms C18.custom_arity
#print axioms C18.custom_identity_free
#print axioms C18.custom_import
#print axioms C18.custom_domain_kept
#print axioms C18.hooks_determine
#print axioms C18.no_hooks_untyped
#print axioms C18.dropped_iff
#print axioms C18.relabel_build
#print axioms C18.custom_composes
#print axioms C18.adapt_ignores_foreign
#print axioms C18.adapt_converts_older
#print axioms C18.convert_keeps_foreign
#print axioms C18.adapt_exits_covered
#print axioms C18.adapt_functions_covered
#print axioms C18.custom_build_sound
#print axioms C18.custom_build_sound_nested
#print axioms C18.custom_node_value
#print axioms C18.standard_node_value
#print axioms C18.inference_pointwise
#print axioms C18.declared_type_reported
#print axioms C18.declared_types_carried
#print axioms C18.untyped_result_refused
#print axioms C18.construct_reports
