import SpoxModel.Props.C18
/-! `#print axioms` for every property theorem of C18; parsed by ./check. -/
