import SpoxModel.Props.C01
import SpoxModel.Props.C01Build
/-! `#print axioms` for every property theorem of C01; parsed by ./check. -/
#print axioms C01.valid_sound
#print axioms C01.valid_sound_checked
#print axioms C01.valid_sound_nested
#print axioms C01.emission_irrelevant
#print axioms C01.outer_binding_irrelevant
#print axioms C01.later_nodes_irrelevant
#print axioms C01.creation_order_irrelevant
#print axioms C01.written_differently_same_values
#print axioms C01.denote_congr_needed
#print axioms C01.unused_inputs_irrelevant
#print axioms C01.drop_unused_inputs_sound
#print axioms C01.generated_entry_options_exercised
#print axioms C01.usedArgs_caller_order
#print axioms C01.dropUnused_idempotent
#print axioms C01.read_inputs_must_be_listed
#print axioms C01.usedArgs_least
#print axioms C01.later_mutations_irrelevant
#print axioms C01.operands_are_contents_at_call
#print axioms C01.aliasing_counterexample
#print axioms C01.generated_sequence_parameters_exercised
#print axioms C01.needed_part_decides_values
#print axioms C01.needed_part_decides_values_checked
#print axioms C01.needed_part_decides_denotation
#print axioms C01.needed_part_decides_denotation_args
#print axioms C01.other_request_same_values
#print axioms C01.more_outputs_irrelevant
#print axioms C01.default_and_drop_builds_agree
#print axioms C01Build.built_model_computes_dataflow
#print axioms C01Build.built_models_written_differently_same_values
#print axioms C01Build.built_model_independent_of_unused_inputs
