import SpoxModel.Props.C01
/-! `#print axioms` for every property theorem of C01; parsed by ./check. -/
