import SpoxModel.Props.C06
/-! `#print axioms` for every property theorem of C06; parsed by ./check. -/
#print axioms C06M.overrides_all_modelled
#print axioms C06M.arrayFeatureExtractor_sound
#print axioms C06M.binarizer_sound
#print axioms C06M.categoryMapper_sound
#print axioms C06M.imputer_sound
#print axioms C06M.linearRegressor_sound_partial
#print axioms C06M.linearRegressor_counterexample
#print axioms C06M.normalizer_sound_partial
#print axioms C06M.normalizer_counterexample
#print axioms C06M.oneHotEncoder_sound
#print axioms C06M.scaler_sound
#print axioms C06M.treeEnsembleClassifier_sound_partial
#print axioms C06M.treeEnsembleClassifier_counterexample
#print axioms C06M.treeEnsembleClassifier_Y_sound
#print axioms C06M.treeEnsembleRegressor_sound
#print axioms C06M.compress_sound
#print axioms C06M.loop_carried_sound
#print axioms C06M.loop_body_args_sound
#print axioms C06M.loop_carried_pinned_counterexample
#print axioms C06M.loop_scan_sound
#print axioms C06M.loop_scan_output_sound
#print axioms C06M.loop_scan_zero_sound
#print axioms C06M.nonTensor_outcomes_cover
#print axioms C06M.stripDim_sound
#print axioms C06M.stripUnk_sound
#print axioms C06M.inline_types_sound
