import SpoxModel.Props.C06
/-! `#print axioms` for every property theorem of C06; parsed by ./check. -/
