import SpoxModel.Props.C17
/-! `#print axioms` for every property theorem of C17; parsed by ./check. -/
