import SpoxModel.Props.C17
/-! `#print axioms` for every property theorem of C17; parsed by ./check. -/
#print axioms C17.result_dtype_matches
#print axioms C17.neg_dtype_matches
#print axioms C17.no_promotion_strict
#print axioms C17.outside_block_typeerror
#print axioms C17.logical_matches
#print axioms C17.int_shape
#print axioms C17.arith_matches
#print axioms C17.int_closed
#print axioms C17.expr_matches
#print axioms C17.scoped_restored
#print axioms C17.outside_after_blocks
#print axioms C17.enclosing_after_inner
#print axioms C17.neg_matches
#print axioms C17.neg_unsigned_counterexample
#print axioms C17.floordiv_float_partial
#print axioms C17.floordiv_bare_div_counterexample
#print axioms Dispatch.floordiv_correct
#print axioms C17.var_dunders_wired
#print axioms C17.genWiring_fwd
#print axioms C17.genWiring_rev
#print axioms C17.operator_is_dispatch
#print axioms C17.unary_operator_is_dispatch
