import SpoxModel.Props.C04
/-! `#print axioms` for every property theorem of C04; parsed by ./check. -/
