import SpoxModel.Props.C04
/-! `#print axioms` for every property theorem of C04; parsed by ./check. -/
#print axioms C04.emitted_nodup
#print axioms C04.emitted_iff_reachable
#print axioms C04.unreachable_not_emitted
#print axioms C04.emitted_once
#print axioms C04.lca_spec
#print axioms C04.lca_lowest
#print axioms C04.least_enclosing_fixed_tree
#print axioms C04.visit_spec
#print axioms C04.visit_spec_inputs
#print axioms C04.no_outer_leak
#print axioms C04.leak_rejected
#print axioms C04.claimed_twice_rejected
#print axioms C04.multiple_owner_rejected
#print axioms C04.double_introduction_rejected
#print axioms C04.least_enclosing
#print axioms C04.scope_defined
#print axioms C04.build_valid_of_facts
#print axioms C04.build_valid
#print axioms C04.build_correct
#print axioms C04.build_valid_checked
#print axioms C04.build_kind_parametric
