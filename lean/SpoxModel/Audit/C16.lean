import SpoxModel.Props.C16
/-! `#print axioms` for every property theorem of C16; parsed by ./check. -/
#print axioms C16.runBlock_restores
#print axioms C16.runBlocks_restores
#print axioms C16.runTop_restores
#print axioms C16.generated_good
#print axioms C16.settings_restored
#print axioms C16.settings_restored_history
#print axioms C16.inside_in_force
#print axioms C16.pinned_counterexample
#print axioms C16.write_sites_covered
#print axioms C16.write_sites_defaults
#print axioms C16.own_setting_restored_any_body
#print axioms C16.settings_restored_any_body
#print axioms C16.module_state_inventory
#print axioms C16.behaviour_after_blocks
#print axioms C16.runCmd_refines_spec
#print axioms C16.runCmds_refines_spec
#print axioms C16.programs_refine_spec
#print axioms C16.spec_with
#print axioms C16.specCmd_frame
#print axioms C16.specCmds_frame
#print axioms C16.program_setting_restored
#print axioms C16.program_with_confines
#print axioms C16.spec_nest
#print axioms C16.enter_innermost
#print axioms C16.program_inside_in_force
#print axioms C16.pinned_program_counterexample
