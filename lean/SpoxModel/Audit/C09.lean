import SpoxModel.Props.C09
/-! `#print axioms` for every property theorem of C09; parsed by ./check. -/
#print axioms C09.one_version_per_domain
#print axioms C09.one_version_per_domain_functions
#print axioms C09.import_is_max
#print axioms C09.not_imported_of_not_required
#print axioms C09.min_opset_ge_14
#print axioms C09.default_floor
#print axioms C09.default_floor_every_graph
#print axioms C09.entry_invariant
#print axioms C09.node_valid_at_import_partial
#print axioms C09.decision_total
#print axioms C09.convert_only_when_needed
#print axioms C09.body_opsets_agree
#print axioms C09.function_opsets_agree
#print axioms C09.body_own_opsets_pinned_counterexample
#print axioms C09.body_witness_now_converted
#print axioms C09.unknown_rank_counterexample
#print axioms C09.adapted_names_fresh
#print axioms C09.adapted_names_fresh_pinned_counterexample
#print axioms Opset.lookup_policy_iff
#print axioms Opset.mem_reqGraph_iff
#print axioms Opset.since_fix_default
#print axioms Opset.since_fix_ml
#print axioms Opset.in_force_default
#print axioms Opset.in_force_ml
#print axioms Opset.kept_graph_ok
#print axioms Opset.kept_ml_ok
