import SpoxModel.Props.C09
/-! `#print axioms` for every property theorem of C09; parsed by ./check. -/
#print axioms C09.min_opset_ge_14
