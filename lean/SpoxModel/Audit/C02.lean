import SpoxModel.Props.C02
/-! `#print axioms` for every property theorem of C02; parsed by ./check. -/
