import SpoxModel.Props.C02
/-! `#print axioms` for every property theorem of C02; parsed by ./check. -/
#print axioms C02.ops_inv
#print axioms C02.lookup_bijective
#print axioms C02.clash_raises_name
#print axioms C02.clash_raises_reserved
#print axioms C02.clash_raises_rename
#print axioms C02.reserve_clash_raises
#print axioms C02.update_keeps_inv
#print axioms C02.names_unique
#print axioms C02.compile_names_unique
#print axioms C02.clash_raises
#print axioms C02.checkStructural_sound
#print axioms C02.generated_to_model_safe
#print axioms C02.generated_build_safe
#print axioms C02.build_returns_only_checked
#print axioms C02.adapter_names_counterexample
#print axioms C02.sibling_names_counterexample
#print axioms C02.inline_arg_rank
#print axioms C02.inline_scalar_boundary
#print axioms C02.inline_rank_or_const_mismatch_refused
#print axioms C02.intro_identity_accepts
#print axioms C02.generated_identity_versions_ok
#print axioms C02.intro_identity_valid
#print axioms C02.intro_req_14_counterexample
#print axioms C02.model_opset_covers_both_spellings
#print axioms C02.model_opset_attained
#print axioms C02.model_opset_one_entry_per_domain
