import SpoxModel.Props.C10
/-! `#print axioms` for every property theorem of C10; parsed by ./check. -/
#print axioms C10.enum_exact
#print axioms C10.field_layout
#print axioms C10.fromArray_total
#print axioms C10.roundtrip
#print axioms C10.canon_spec
#print axioms C10.roundtrip_exact
#print axioms C10.const_type_exact
#print axioms C10.const_requested_dtype
#print axioms C10.generated_kinds_exact
#print axioms C10.generated_classes_complete
#print axioms C10.generated_guards
#print axioms C10.attr_kind_exact
#print axioms C10.validate_spec
#print axioms C10.wrong_kind_typeerror
#print axioms C10.attr_int_exact
#print axioms C10.attr_ints_exact
#print axioms C10.attr_floats_exact
#print axioms C10.attr_strings_exact
#print axioms C10.attr_tensor_exact
#print axioms C10.captured
#print axioms C10.alias_not_captured
#print axioms C10.shallow_freeze_not_captured
#print axioms C10.generated_capture_ok
#print axioms C10.generated_capture_complete
#print axioms C10.captured_at_call
#print axioms C10.captured_at_call_ast
