import SpoxModel.Props.C10
/-! `#print axioms` for every property theorem of C10; parsed by ./check. -/
